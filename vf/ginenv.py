"""Imports Gin from the tree under test (VERIF_REPO, default /repo) and nowhere else."""
import logging
import os
import sys

REPO = os.path.realpath(os.environ.get('VERIF_REPO', '/repo'))


class HarnessError(Exception):
  pass


def import_gin():
  if REPO not in sys.path[:1]:
    sys.path.insert(0, REPO)
  for name in [m for m in sys.modules if m == 'gin' or m.startswith('gin.')]:
    mod = sys.modules[name]
    if not os.path.realpath(getattr(mod, '__file__', '') or '').startswith(REPO + os.sep):
      del sys.modules[name]
  import gin  # pylint: disable=g-import-not-at-top
  import gin.config  # pylint: disable=g-import-not-at-top
  path = os.path.realpath(gin.__file__)
  if not path.startswith(REPO + os.sep):
    raise HarnessError(f'gin imported from {path}, expected under {REPO}')
  logging.getLogger().setLevel(logging.CRITICAL)
  try:
    from absl import logging as absl_logging  # pylint: disable=g-import-not-at-top
    absl_logging.set_verbosity(absl_logging.FATAL)
  except Exception:  # pylint: disable=broad-except
    pass
  return gin
