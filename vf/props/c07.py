"""C07 — the operative config records exactly what Gin supplied and suffices to replay.

Case: 2-3 probes (generated signatures, allow/deny lists, literal and non-literal defaults; the last
one is a producer callable without arguments), macros, a constant, bindings over scopes whose values
are literals, evaluated/unevaluated references, macros, the constant or a non-literal object, and a
history of calls (scopes, positional / keyword / REQUIRED / omitted arguments) with optional
re-binding between calls.  Oracle: an operative-record model vs the *parsed* text of
operative_config_str(); then (if everything supplied is representable and nothing was re-bound)
clear, parse that text, repeat the calls: same arguments, identical text.
"""
import ast
import contextlib
import re
import warnings

from hypothesis import strategies as st

from vf import ginenv
from vf.core import OutOfDomain, Violation, ok, require
from vf.gen import signatures as G
from vf.model import bindings as M

gin = ginenv.import_gin()
from gin import config_parser  # pylint: disable=g-import-not-at-top

ID = 'C07'
LEVEL = 'exploration'
ISOLATE = True
BUDGET = {'quick': (16, 110), 'thorough': (16, 2500)}
RULE = ('2-3 probes (function/class/method, any registration API, optional allow/deny list, some '
        'defaults non-literal) + 0-2 macros + one constant; 0-10 bindings over scopes with values '
        'in {literal, @ref, @ref() incl. scoped, %macro, %CONSTANT, non-literal object, list of '
        'those}; 1-6 steps = calls (0-3 config_scope entries; arguments positional / keyword / '
        'REQUIRED / omitted, always completable) or literal re-bindings. Non-trivial = >=3 calls '
        'over >=2 scopes, a parameter supplied by the caller in one call and by Gin in another, and '
        'an evaluated reference or macro. Distinct = distinct case JSON.')
ASSUMPTIONS = ['only calls that succeed are generated (a failed call is not covered by "called")',
               'a parameter re-bound from a literal to a non-literal value is not generated',
               'references and macros count as literally representable (their text re-parses)',
               'singleton *sharing* is C18; here gin.singleton is one more configurable whose calls and '
               'constructor parameter must be recorded']
FLOORS = {'nontrivial': 0.05, 'replayed': 0.3, 'value:nonliteral': 0.05, 'lists': 0.2,
          'nested-evaluation': 0.15, 'macro-used': 0.1, 'caller-and-gin': 0.1}
TECHNIQUE = ('model-based property testing over call histories: operative-record reference model vs '
             'the parsed operative_config_str(), plus a clear/parse/replay round trip')
LEVEL_TEXT = ('For generated configurations and call histories the set of sections, the parameter '
              'sets and the values of operative_config_str() (read back with the config parser) '
              'must equal an independent record model, and replaying the text must give every call '
              'the same arguments and reproduce the text. Exploration.')
LEVEL_NOTE = ('Trusted: the record model (40 lines) and the C01 call model; ConfigParser is used '
              'only to read the emitted text back (its correctness is C02/C03).')

REQ = '<<REQUIRED>>'
CONST = 'KONST'


class Ref:

  def __init__(self, sigil, name, evaluate):
    self.t = (sigil, name, bool(evaluate))

  def __eq__(self, other):
    return isinstance(other, Ref) and self.t == other.t

  def __hash__(self):
    return hash(self.t)

  def __repr__(self):
    return 'Ref%r' % (self.t,)


class Rec(config_parser.ParserDelegate):

  def configurable_reference(self, scoped_configurable_name, evaluate):
    return Ref('@', scoped_configurable_name, evaluate)

  def macro(self, macro_name):
    return Ref('%', macro_name, True)


def typed(v):
  if isinstance(v, (list, tuple)):
    return (type(v).__name__, [typed(x) for x in v])
  if isinstance(v, dict):
    return ('dict', [(typed(k), typed(x)) for k, x in v.items()])
  return (type(v).__name__, repr(v))


class _Opaque:
  pass


DYN_FILES = {'c07a/__init__.py': '', 'c07b/__init__.py': '',
             'c07a/utils.py': 'def make(x=None, y=None):\n  return ("a.utils", x, y)\n',
             'c07b/other.py': 'def build(x=None, y=None):\n  return ("b.other", x, y)\n'}
DYN_FNS = [('c07a.utils', 'make'), ('c07b.other', 'build')]


def check_dyn(case):
  """Dynamic registration: configurables that the Gin file imports and binds, and configurables
  that were registered from Python and have no binding at all, are called; the operative config
  must have a section for each, carry the imports it needs, and replay."""
  import importlib, os, shutil, sys, tempfile  # pylint: disable=g-import-not-at-top,multiple-imports
  tmp = tempfile.mkdtemp(prefix='c07-')
  labels = {'kind:dynamic'}
  try:
    for rel, src in DYN_FILES.items():
      path = os.path.join(tmp, rel)
      os.makedirs(os.path.dirname(path), exist_ok=True)
      with open(path, 'w') as f:
        f.write(src)
    sys.path.insert(0, tmp)
    lines = ['from __gin__ import dynamic_registration']
    model, cfgs = {}, {}
    for i, (m, fn) in enumerate(DYN_FNS):
      how = case['how'][i]                      # 'file' / 'python-bound' / 'python-unbound'
      if how == 'file':
        lines.append(f'import {m}')
        for param, value in case['bound'][i]:
          lines.append(f'{m}.{fn}.{param} = {value!r}')
          model[(i, param)] = value
        if not case['bound'][i]:
          lines.append(f'{m}.{fn}.y = None')
          model[(i, 'y')] = None
    gin.parse_config('\n'.join(lines) + '\n')
    for i, (m, fn) in enumerate(DYN_FNS):
      obj = getattr(importlib.import_module(m), fn)
      how = case['how'][i]
      if how != 'file':
        cfgs[i] = gin.external_configurable(obj, module=m)
        if how == 'python-bound':
          for param, value in case['bound'][i]:
            gin.bind_parameter(('', f'{m}.{fn}', param), value)
            model[(i, param)] = value
        else:
          labels.add('called-configurable-without-any-binding-and-not-imported')
      else:
        cfgs[i] = gin.get_configurable(obj)
    results = [cfgs[i % 2]() for i in case['calls']]
    for i, r in zip(case['calls'], results):
      i %= 2
      require(r == (DYN_FNS[i][0][3:], model.get((i, 'x')), model.get((i, 'y'))), 'dyn-call',
              lambda: f'{r} vs model {model}')
    try:
      text = gin.operative_config_str()
    except Exception as e:  # pylint: disable=broad-except
      raise Violation('operative_config_str-raised', f'{type(e).__name__}: {e}\n' + '\n'.join(lines))
    called = {i % 2 for i in case['calls']}
    for i in called:
      m, fn = DYN_FNS[i]
      for param in 'xy':
        want = model.get((i, param))
        pat = re.compile(r'^(?:[\w.]+\.)?%s\.%s = (.*)$' % (fn, param), flags=re.M)
        found = pat.findall(text)
        require(len(found) == 1 and ast.literal_eval(found[0]) == want, 'dyn-operative-parameter',
                lambda: f'{m}.{fn}.{param}: expected {want!r}, lines {found}\n{text}')
    for i in {0, 1} - called:
      require(DYN_FNS[i][1] + '.' not in text, 'dyn-never-called-listed', text)
    gin.clear_config()
    try:
      gin.parse_config(text)
    except Exception as e:  # pylint: disable=broad-except
      raise Violation('operative-config-rejected-on-replay', f'{type(e).__name__}: {e}\n{text}')
    again = [cfgs[i % 2]() for i in case['calls']]
    require(again == results, 'replay-arguments-differ', lambda: f'{again} vs {results}\n{text}')
    text2 = gin.operative_config_str()
    require(text2 == text, 'replay-text-differs', lambda: f'--- first:\n{text}\n--- replay:\n{text2}')
    labels.add('replayed')
    return ok(labels, len(called) == 2)
  finally:
    if tmp in sys.path:
      sys.path.remove(tmp)
    shutil.rmtree(tmp, ignore_errors=True)


def check_chain(case):
  """A configurable class one or two levels below the configurable class that defines the
  constructor: its own section lists what Gin supplied to *it* -- bound values and the literal
  defaults of the inherited constructor."""
  import sys, types  # pylint: disable=g-import-not-at-top,multiple-imports
  mod = types.ModuleType('c07chain')
  mod.gin = gin
  sys.modules['c07chain'] = mod
  src = ('@gin.configurable\nclass Top:\n  def __init__(self, x=1, y="two", z=None):\n'
         '    self.got = (x, y, z)\n')
  names = ['Top']
  for i in range(case['depth']):
    src += f'@gin.configurable\nclass Sub{i}({names[-1]}):\n  pass\n'
    names.append(f'Sub{i}')
  exec(src, mod.__dict__)  # pylint: disable=exec-used
  leaf = names[-1]
  model = {'x': 1, 'y': 'two', 'z': None}
  for param, value in case['bound']:
    gin.bind_parameter(f'{leaf}.{param}', value)
    model[param] = value
  args = ['P'] if case['positional'] else []
  obj = getattr(mod, leaf)(*args)
  want = dict(model, x='P') if args else model
  require(obj.got == (want['x'], want['y'], want['z']), 'chain-call', lambda: f'{obj.got} vs {want}')
  text = gin.operative_config_str()
  for param in 'xyz':
    found = re.findall(r'^%s\.%s = (.*)$' % (leaf, param), text, flags=re.M)
    if param == 'x' and args:
      require(not found, 'chain-caller-supplied-listed', text)
    else:
      require(len(found) == 1 and ast.literal_eval(found[0]) == model[param], 'chain-operative-parameter',
              lambda: f'{leaf}.{param}: expected {model[param]!r}, lines {found}\n{text}')
  return ok({'kind:chain', f'chain-depth:{case["depth"]}'}, case['depth'] >= 2)


def check_case(case):
  if case.get('kind') == 'chain':
    return check_chain(case)
  if case.get('kind') == 'dynamic':
    return check_dyn(case)
  labels = set()
  builts = []
  for i, shape in enumerate(case['probes']):
    shape = dict(shape, name=shape.get('name') or f'pr{i}')
    builts.append(G.build(shape, gin))
  names = [b.selector.split('.')[-1] for b in builts]
  gin.constant(CONST, ('the', 'constant'))

  def written(i):
    b = builts[i]
    if b.shape.get('gin_module'):
      return b.selector                      # twin names: only the complete name is unambiguous
    if b.shape['kind'] == 'method' and b.shape.get('method_api', 'register') == 'register':
      return '.'.join(b.selector.split('.')[-2:])
    return names[i]

  def posonly(shape):
    return (shape['dflt'][:1] if shape.get('posonly_first_default') and not shape['pos'] and
            shape['kind'] == 'function' and shape['dflt'] else [])

  def permitted(shape, p):
    if p in posonly(shape):
      return False        # a positional-only parameter cannot be supplied by keyword: not configurable
    allow, deny = shape.get('allowlist'), shape.get('denylist')
    return not (allow and p not in allow) and not (deny and p in deny)

  # ---- value helpers --------------------------------------------------------------------
  def text_of(v):
    k = v[0]
    if k == 'lit':
      return repr(v[1])
    if k == 'ref':
      return '@' + (v[1] + '/' if v[1] else '') + written(v[2]) + ('()' if v[3] else '')
    if k == 'mac':
      return '%' + v[1]
    if k == 'const':
      return '%' + CONST
    if k == 'single':
      return '@' + v[1] + '/singleton()'
    if k == 'list':
      return '[' + ', '.join(text_of(x) for x in v[1]) + ']'
    raise ValueError(v)

  def has_nonlit(v):
    return v[0] == 'nonlit' or (v[0] == 'list' and any(has_nonlit(x) for x in v[1]))

  def live(v):
    """The Python object to bind programmatically (used for non-literal values)."""
    k = v[0]
    if k == 'lit':
      return v[1]
    if k == 'nonlit':
      return _Opaque()
    if k == 'list':
      return [live(x) for x in v[1]]
    return gin.config.parse_value(text_of(v))

  def expected_obj(v):
    k = v[0]
    if k == 'lit':
      return v[1]
    if k == 'ref':
      return Ref('@', (v[1] + '/' if v[1] else '') + written(v[2]), v[3])
    if k == 'mac':
      return Ref('%', v[1], True)
    if k == 'const':
      return Ref('%', CONST, True)
    if k == 'single':
      return Ref('@', v[1] + '/singleton', True)
    if k == 'list':
      return [expected_obj(x) for x in v[1]]
    raise ValueError(v)

  # ---- configuration --------------------------------------------------------------------
  macros = {}
  for name, v in case['macros']:
    macros[name] = v
  cfg = [dict() for _ in builts]       # per probe: {(scope, param): VALUE}
  for scope, pi, param, v in case['bindings']:
    b = builts[pi]
    if not permitted(b.shape, param):
      continue
    cfg[pi][(scope, param)] = v
    labels.add('value:' + v[0])
  n_prod = len(builts) - 1               # the producer: callable without arguments

  def singles(v):
    if v[0] == 'single':
      yield v[1]
    elif v[0] == 'list':
      for x in v[1]:
        yield from singles(x)

  def apply_config():
    """Binds the current state of `macros` and `cfg` (at the start and again after a clear)."""
    for name, v in macros.items():
      gin.parse_config(f'{name} = {text_of(v)}')
    snames = set()
    for pi, b in enumerate(builts):
      for (scope, param), v in cfg[pi].items():
        if has_nonlit(v):
          gin.bind_parameter((scope, b.selector, param), live(v))
          labels.add('value:nonliteral')
        else:
          gin.parse_config(f"{scope + '/' if scope else ''}{b.selector}.{param} = {text_of(v)}")
        snames |= set(singles(v))
    for sname in sorted(snames):
      gin.parse_config(f'{sname}/singleton.constructor = @{written(n_prod)}')

  apply_config()

  # ---- the record model -----------------------------------------------------------------
  record = {}      # (scope_str, ('probe', i) | ('macro',) | ('const',)) -> {param: VALUE}
  constructed = set()    # singleton names whose object exists
  rebound = False
  all_representable = [True]

  def literal_defaults(shape):
    nonlit = set(shape.get('nonliteral_defaults') or [])
    return {p: ['lit', G.default_of(p)] for p in shape['dflt'] + shape['kwdflt']
            if p not in nonlit and permitted(shape, p)}

  def evaluate_tree(v, active):
    """Model of what gets *called* while Gin evaluates value `v` under scope `active`."""
    k = v[0]
    if k == 'ref' and v[3]:
      run(v[2], v[1].split('/') if v[1] else active, set())
    elif k == 'mac':
      scope = v[1].split('/')
      record.setdefault(('/'.join(scope), ('macro',)), {})
      if v[1] in macros:
        record[('/'.join(scope), ('macro',))]['value'] = macros[v[1]]
        evaluate_tree(macros[v[1]], scope)
        labels.add('macro-used')
    elif k == 'const':
      record.setdefault((CONST, ('const',)), {})
    elif k == 'single':
      # gin.singleton is a configurable like any other: it is called under the scope naming the
      # singleton, Gin supplies its constructor, and the first use calls that constructor there
      record.setdefault((v[1], ('singleton',)), {})['constructor'] = ['ref', '', n_prod, False]
      labels.add('singleton-used')
      if v[1] not in constructed:
        constructed.add(v[1])
        run(n_prod, [v[1]], set())
    elif k == 'list':
      for x in v[1]:
        evaluate_tree(x, active)

  def run(pi, active, caller_supplied):
    shape = builts[pi].shape
    app = M.overlay(cfg[pi], active)
    vals = dict(literal_defaults(shape))
    vals.update(app)
    for p in caller_supplied:
      vals.pop(p, None)
    record.setdefault(('/'.join(active), ('probe', pi)), {}).update(vals)
    for p, v in app.items():
      if p not in caller_supplied:
        if has_nonlit(v):
          all_representable[0] = False
        evaluate_tree(v, active)
        if v[0] != 'lit' and (v[0] != 'list' or any(x[0] != 'lit' for x in v[1])):
          labels.add('nested-evaluation' if any(
              t in repr(v) for t in ("'mac'", "'ref'", "'single'")) else 'const-evaluation')

  def normalise(x):
    if isinstance(getattr(x, 'rec', None), dict):      # instance of a class probe
      x = x.rec
    if isinstance(x, dict) and 'named' in x and 'n' in x:
      return {'produced': normalise(x['named']), 'scope': x['scope']}
    if isinstance(x, dict):
      return {k: normalise(v) for k, v in x.items()}
    if isinstance(x, (list, tuple)):
      return [normalise(v) for v in x]
    if callable(x):
      return 'callable:' + getattr(x, '__name__', '?')
    if isinstance(x, _Opaque):
      return 'opaque'
    return x

  # ---- the history ----------------------------------------------------------------------
  dirty = [False]      # a binding was changed since the last successful call
  performed = []       # (pi, entries, args, kwargs) as really executed, for the replay
  received = []
  scopes_called = set()
  caller_sup, gin_sup = set(), set()
  n_calls = 0
  if case.get('finalize_first'):
    gin.finalize()
    labels.add('finalized-before-the-first-call')
  for step in case['steps']:
    if step[0] == 'recall-raise':
      # the last successful call is made once more, with one more keyword argument whose value
      # makes the body raise: what the earlier calls recorded stays
      if not performed or dirty[0]:
        # (after a re-binding the repeated call would see other values than the recorded ones;
        # whether a call that fails records them is not what is asked here)
        continue
      pi, entries, args, kwargs = performed[-1]
      shape = builts[pi].shape
      free = [p for p in G.named_params(shape)
              if p not in kwargs and p not in (shape['pos'] + shape['dflt'])[:len(args)] and
              p not in posonly(shape)]
      if not free:
        continue
      with contextlib.ExitStack() as es:
        for e in entries:
          es.enter_context(gin.config_scope(e))
        try:
          builts[pi].call(args, dict(kwargs, **{free[step[1] % len(free)]: 'RAISE'}))
          raise Violation('harness', 'the probe did not raise')
        except G.ProbeRaised:
          labels.add('call-that-raises-after-a-successful-one')
      continue
    if step[0] == 'finalize':
      # finalizing validates and locks; it calls nothing, so it records nothing
      if not gin.config_is_locked():
        gin.finalize()
        labels.add('finalize-between-calls')
      continue
    if step[0] == 'clear':
      # the whole configuration is cleared and made again: what was called before the clear is no
      # longer part of the operative config
      gin.clear_config()
      apply_config()
      record.clear()
      constructed.clear()
      del performed[:], received[:]
      rebound = False
      labels.add('clear-and-configure-again')
      continue
    if step[0] in ('rebind', 'rebind_key'):
      candidates = sorted((pi, k) for pi in range(len(cfg)) for k, v in cfg[pi].items()
                          if v[0] == 'lit')
      if step[0] == 'rebind_key':
        candidates = [c for c in candidates if c == (step[1] % len(builts), (step[3], step[4]))]
      if not candidates:
        continue
      pi, (scope, param) = candidates[step[1] % len(candidates)]
      new_value = step[2]
      old_value = cfg[pi][(scope, param)][1]
      if new_value == '<<EQUAL>>':
        # equal under ==, yet another value: "showing the value used most recently"
        new_value = (float(old_value) if type(old_value) is int else
                     tuple(old_value) if type(old_value) is list else
                     list(old_value) if type(old_value) is tuple else 'other')
        labels.add('rebind-to-equal-value-of-other-type')
      with gin.unlock_config():
        gin.bind_parameter((scope, builts[pi].selector, param), new_value)
      cfg[pi][(scope, param)] = ['lit', new_value]
      rebound = True
      dirty[0] = True
      labels.add('rebind')
      continue
    _, pi, entries, spec = step
    pi %= len(builts)
    b = builts[pi]
    shape = b.shape
    stack = M.ScopeStack()
    with contextlib.ExitStack() as es:
      for e in entries:
        es.enter_context(gin.config_scope(e))
        stack.enter(e)
      active = stack.current
      app = M.overlay(cfg[pi], active)
      positional = shape['pos'] + shape['dflt']
      n_pos = min(spec['n_pos'], len(positional))
      args, kwargs, supplied = [], {}, set()
      for i in range(n_pos):
        p = positional[i]
        if p in spec['req'] and p in app:
          args.append(gin.REQUIRED)
        else:
          args.append('C:' + p)
          supplied.add(p)
      for p in spec['kw']:
        if p in positional[:n_pos] or p not in G.named_params(shape) or p in posonly(shape):
          continue
        if p in spec['req'] and p in app:
          kwargs[p] = gin.REQUIRED
        else:
          kwargs[p] = 'K:' + p
          supplied.add(p)
      for p in shape['pos'][n_pos:] + shape['kwonly']:
        if p not in kwargs and p not in app:
          kwargs[p] = 'K:' + p
          supplied.add(p)
      rec = b.call(args, kwargs)
      if 'operative_inside' in rec:
        # read from inside the running configurable: the call in progress has been made, so its
        # own section (under the scope it runs in) is there already
        inside = rec.pop('operative_inside')
        own = ('/'.join(active) + '/' if active else '') + b.selector
        secs = set()
        for sec in re.findall(r'^# Parameters for (.*):$', inside, flags=re.M):
          sc, _, nm = sec.rpartition('/')
          cands = [f for f in [x.selector for x in builts] if f == nm or f.endswith('.' + nm)]
          if len(cands) == 1:
            secs.add((sc + '/' if sc else '') + cands[0])
        require(own in secs, 'running-call-not-in-operative-config',
                lambda: f'{own} reads the operative config from its own body and is not in it:\n'
                        f'{inside}')
        labels.add('operative-config-read-from-inside-a-call')
      if shape['kind'] == 'method':
        # the harness obtains the instance by constructing the (configurable) host class
        record.setdefault(('/'.join(active), ('host', pi)), {})['hp'] = ['lit', None]
      run(pi, active, supplied)
      performed.append((pi, entries, args, dict(kwargs)))
      dirty[0] = False
      received.append(normalise({k: rec[k] for k in ('named', 'args', 'kw')}))
      if case.get('scribble'):
        # a careless callee edits the containers it was handed: what Gin records as used, and what
        # later calls receive, is not affected
        for x in list(rec['named'].values()) + list(rec['kw'].values()):
          if isinstance(x, list) and not any(x is o for o in list(args) + list(kwargs.values())):
            x.append('scribbled')
            labels.add('callee-edits-received-container')
      scopes_called.add('/'.join(active))
      n_calls += 1
      caller_sup |= {(pi, p) for p in supplied}
      gin_sup |= {(pi, p) for p in app if p not in supplied}
      if any(a is gin.REQUIRED for a in args) or any(v is gin.REQUIRED for v in kwargs.values()):
        labels.add('required-marker')

  # ---- read the operative config back and compare ----------------------------------------
  text = gin.operative_config_str()
  with gin.config_scope('zs/zt'):
    text_scoped = gin.operative_config_str()
  require(text_scoped == text, 'operative-config-depends-on-active-scope',
          lambda: f'--- top level:\n{text}\n--- inside config_scope(zs/zt):\n{text_scoped}')
  got_sections = set(re.findall(r'^# Parameters for (.*):$', text, flags=re.M))
  with warnings.catch_warnings():
    warnings.simplefilter('ignore')
    try:
      stmts = list(config_parser.ConfigParser(text, Rec()))
    except Exception as e:  # pylint: disable=broad-except
      raise Violation('operative-config-does-not-parse', f'{type(e).__name__}: {e}\n{text}')

  # every printed selector must resolve, by unique dotted suffix, to one full name of this case
  full_names = {'gin.singleton': ('singleton',)}
  for i, b in enumerate(builts):
    full_names[b.selector] = ('probe', i)
    if b.shape['kind'] == 'method':
      full_names[b.selector.rsplit('.', 1)[0]] = ('host', i)

  def resolve(printed):
    cands = [f for f in full_names if f == printed or f.endswith('.' + printed)]
    require(len(cands) == 1, 'printed-selector-does-not-resolve-uniquely',
            lambda: f'{printed!r} matches {cands} among {sorted(full_names)}\n{text}')
    return cands[0]

  def printed_name(pi):
    return builts[pi].selector

  def representable(v):
    return not has_nonlit(v)

  exp_sections, exp_bindings, exp_macros = set(), {}, {}
  for (scope, who), params in record.items():
    if who[0] in ('probe', 'host', 'singleton'):
      pname = (printed_name(who[1]) if who[0] == 'probe' else 'gin.singleton'
               if who[0] == 'singleton' else builts[who[1]].selector.rsplit('.', 1)[0])
      exp_sections.add((scope + '/' if scope else '') + pname)
      for p, v in params.items():
        if representable(v):
          exp_bindings[(scope, pname, p)] = typed(expected_obj(v))
    elif who[0] == 'macro' and 'value' in params and representable(params['value']):
      exp_macros[scope] = typed(expected_obj(params['value']))
  got_bindings, got_macros = {}, {}
  for s in stmts:
    if isinstance(s, config_parser.BindingStatement):
      if s.arg_name:
        got_bindings[(s.scope, resolve(s.selector), s.arg_name)] = typed(s.value)
      else:
        got_macros[(s.scope + '/' if s.scope else '') + s.selector] = typed(s.value)
  got_sections = {(sec.rsplit('/', 1)[0] + '/' if '/' in sec else '') + resolve(sec.rsplit('/', 1)[-1])
                  for sec in got_sections}
  require(got_sections == exp_sections, 'sections',
          lambda: f'got {sorted(got_sections)} expected {sorted(exp_sections)}\n{text}')
  require(got_bindings == exp_bindings, 'parameters',
          lambda: 'only in text: %s\nonly in model: %s\n%s' % (
              sorted(set(got_bindings.items()) - set(exp_bindings.items())),
              sorted(set(exp_bindings.items()) - set(got_bindings.items())), text))
  require(got_macros == exp_macros, 'macros',
          lambda: f'got {got_macros} expected {exp_macros}\n{text}')
  require(CONST + '/' not in text and 'gin.constant' not in text, 'constant-lookup-listed', text)

  # ---- replay ------------------------------------------------------------------------------
  if all_representable[0] and not rebound and performed:
    gin.clear_config()
    try:
      gin.parse_config(text)
    except Exception as e:  # pylint: disable=broad-except
      raise Violation('operative-config-rejected-on-replay', f'{type(e).__name__}: {e}\n{text}')
    again = []
    for pi, entries, args, kwargs in performed:
      with contextlib.ExitStack() as es:
        for e in entries:
          es.enter_context(gin.config_scope(e))
        try:
          rec = builts[pi].call(args, dict(kwargs))
        except Exception as e:  # pylint: disable=broad-except
          raise Violation('replayed-call-failed',
                          f'{type(e).__name__}: {e}\ncall {pi} {entries} {args} {kwargs}\n{text}')
      again.append(normalise({k: rec[k] for k in ('named', 'args', 'kw')}))
    require(again == received, 'replay-arguments-differ',
            lambda: next(f'call {i}: first run {a}\n replay {b}\n{text}'
                         for i, (a, b) in enumerate(zip(received, again)) if a != b))
    text2 = gin.operative_config_str()
    require(text2 == text, 'replay-text-differs', lambda: f'--- first:\n{text}\n--- replay:\n{text2}')
    labels.add('replayed')
  if caller_sup & gin_sup:
    labels.add('caller-and-gin')
  if any(s.get('allowlist') or s.get('denylist') for s in case['probes']):
    labels.add('lists')
  nt = (n_calls >= 3 and len(scopes_called) >= 2 and bool(caller_sup & gin_sup) and
        bool(labels & {'nested-evaluation', 'macro-used'}))
  if nt:
    labels.add('nontrivial')
  return ok(labels, nt)


# ------------------------------------------------------------------------------ strategies
SCOPES = ['', '', 's', 's/t', 't']
MACROS = ['M1', 'M2']
_entry = st.sampled_from(['s', 't', 's/t', None, ['s'], ['t', 's']])
_lit = st.sampled_from([1, -2, 'x', 'a longer string value with spaces', None, True, 2.5,
                        [1, 2], {'k': [1, 'v']}, (1, 2)])


@st.composite
def _dyn_case(draw):
  bound = [draw(st.lists(st.tuples(st.sampled_from('xy'), st.sampled_from([1, 'v', [1, 2], None])).map(
      list), max_size=2, unique_by=lambda b: b[0])) for _ in DYN_FNS]
  return {'kind': 'dynamic',
          'how': [draw(st.sampled_from(['file', 'python-bound', 'python-unbound'])) for _ in DYN_FNS],
          'bound': bound, 'calls': draw(st.lists(st.integers(0, 1), min_size=1, max_size=3))}


@st.composite
def _chain_case(draw):
  return {'kind': 'chain', 'depth': draw(st.sampled_from([1, 2, 2, 3])),
          'positional': draw(st.booleans()),
          'bound': draw(st.lists(st.tuples(st.sampled_from('xyz'), st.sampled_from([5, 'v', [1], None])).map(
              list), max_size=2, unique_by=lambda b: b[0]))}


def strategy():
  return st.one_of(_static_case(), _static_case(), _static_case(), _static_case(), _static_case(),
                   _dyn_case(), _chain_case())


@st.composite
def _static_case(draw):
  n = draw(st.integers(2, 3))
  probes = []
  for i in range(n):
    last = i == n - 1
    shape = draw(G.shapes())
    shape['method_api'] = 'register'
    if last:      # the producer: callable with no arguments
      shape.update(pos=[], kwonly=[], kind=draw(st.sampled_from(['function', 'class_init'])))
      if not shape['dflt'] and not shape['kwdflt']:
        shape['dflt'] = ['v']
    if draw(st.integers(0, 3)) == 0:
      shape['read_operative'] = True
    if shape['kind'] == 'function' and not shape['pos'] and shape['dflt'] and not shape[
        'varkw'] and draw(st.integers(0, 3)) == 0:
      shape['posonly_first_default'] = True
    if shape['kind'] == 'function' and (shape['dflt'] or shape['kwdflt']) and draw(st.integers(0, 2)) == 0:
      # a twin made by the same `def` with other default values is registered first
      shape['twin_other_defaults'] = True
    defaulted = shape['dflt'] + shape['kwdflt']
    if defaulted and draw(st.booleans()):
      shape['nonliteral_defaults'] = draw(st.lists(st.sampled_from(defaulted), unique=True,
                                                   max_size=2))
      if shape['nonliteral_defaults'] and draw(st.booleans()):
        shape['nonliteral_kind'] = draw(st.sampled_from(['inf', '-inf']))
    named = [p for p in G.named_params(shape)
             if not (shape.get('posonly_first_default') and shape['dflt'][:1] == [p])]
    lists = draw(st.sampled_from(['none', 'none', 'allow', 'deny']))
    if lists != 'none' and named and shape['kind'] != 'method':
      shape['allowlist' if lists == 'allow' else 'denylist'] = draw(
          st.lists(st.sampled_from(named), unique=True, min_size=1, max_size=3))
    if (shape['kind'] == 'function' and shape['api'] != 'configurable' and defaulted and
        not shape.get('twin_other_defaults') and not shape.get('posonly_first_default') and
        draw(st.integers(0, 2)) == 0):
      # the same function object is registered first under another name, with a denylist of its
      # own: which defaults this registration may record is decided by its own lists only
      shape['also_as'] = 'c07first%d' % i
      shape['also_as_lists'] = {'denylist': draw(st.lists(st.sampled_from(defaulted), unique=True,
                                                          min_size=1, max_size=2))}
    probes.append(shape)
  if n == 3 and draw(st.integers(0, 2)) == 0:
    # two registered methods with the same class name and method name in two modules: the text
    # has to keep them apart
    for i, gm in ((0, 'ma.nets'), (1, 'mb.nets')):
      probes[i].update(kind='method', api='register', method_api='register', name='net',
                       gin_module=gm)
      probes[i].pop('allowlist', None)
      probes[i].pop('denylist', None)

  macros = []
  for m in draw(st.lists(st.sampled_from(MACROS), unique=True, min_size=1, max_size=2)):
    mv = draw(st.one_of(_lit.map(lambda x: ['lit', x]),
                        st.just(['ref', '', n - 1, True])))
    macros.append([m, mv])
  defined = [m for m, _ in macros]

  def value(pi, depth=1):
    opts = [_lit.map(lambda x: ['lit', x]), _lit.map(lambda x: ['lit', x]),
            st.just(['const']), st.just(['nonlit'])]
    # only defined macros (every generated call must succeed); the producer itself may only use
    # macros with literal values, otherwise `M = @prod()` + `prod.v = %M` recurses forever
    usable = [m for m, mv in macros if pi < n - 1 or mv[0] == 'lit']
    if usable:
      opts.append(st.sampled_from(usable).map(lambda m: ['mac', m]))
      opts.append(st.sampled_from(usable).map(lambda m: ['mac', m]))
    if pi < n - 1:
      # evaluated references only to the producer (callable without arguments)
      opts.append(st.tuples(st.sampled_from(['', '', 's', 't/s']), st.integers(pi + 1, n - 1),
                            st.just(False)).map(lambda t: ['ref', t[0], t[1], t[2]]))
      opts.append(st.tuples(st.sampled_from(['', 's', 't/s']), st.just(n - 1), st.just(True)).map(
          lambda t: ['ref', t[0], t[1], t[2]]))
      opts.append(st.tuples(st.sampled_from(['', 's']), st.just(n - 1), st.just(True)).map(
          lambda t: ['ref', t[0], t[1], t[2]]))
      opts.append(st.sampled_from(['sg1', 'sg1', 'sg2']).map(lambda sn: ['single', sn]))
    if depth > 0:
      opts.append(st.lists(value(pi, depth - 1), min_size=1, max_size=3).map(
          lambda xs: ['list', xs]))
    return st.one_of(*opts)

  bindings = []
  for _ in range(draw(st.integers(2, 10))):
    pi = draw(st.sampled_from([0, 0, 0, 1, n - 1]))
    named = G.named_params(probes[pi])
    if not named:
      continue
    bindings.append([draw(st.sampled_from(SCOPES)), pi, draw(st.sampled_from(named)),
                     draw(value(pi))])
  steps = []
  for _ in range(draw(st.integers(2, 7))):
    if draw(st.integers(0, 7)) == 0:
      steps.append(['rebind', draw(st.integers(0, 9)), draw(_lit | st.just('<<EQUAL>>'))])
      continue
    if steps and draw(st.integers(0, 9)) == 0:
      steps.append(['clear'])
      continue
    if draw(st.integers(0, 9)) == 0:
      steps.append(['finalize'])
      continue
    if steps and draw(st.integers(0, 7)) == 0:
      steps.append(['recall-raise', draw(st.integers(0, 5))])
      continue
    pi = draw(st.sampled_from([0, 0, 0, 1, n - 1]))
    named = G.named_params(probes[pi % n])
    spec = {'n_pos': draw(st.integers(0, 3)),
            'kw': draw(st.lists(st.sampled_from(named), unique=True, max_size=3)) if named else [],
            'req': draw(st.lists(st.sampled_from(named), unique=True, max_size=2)) if named else []}
    steps.append(['call', pi, draw(st.lists(_entry, max_size=3)), spec])
  lits = [b for b in bindings if b[3][0] == 'lit' and type(b[3][1]) in (int, list, tuple)]
  if lits and draw(st.booleans()):
    # call, re-bind one applicable literal to an ==-equal value of another type, call again: the
    # operative config must show the value used most recently
    scope, pi, param, _ = draw(st.sampled_from(lits))
    entries = [scope] if scope else []
    spec = {'n_pos': 0, 'kw': [], 'req': []}
    steps += [['call', pi, entries, spec], ['rebind_key', pi, '<<EQUAL>>', scope, param],
              ['call', pi, entries, spec]]
  return {'probes': probes, 'macros': macros, 'bindings': bindings, 'steps': steps,
          'finalize_first': draw(st.integers(0, 3)) == 0,
          'scribble': draw(st.integers(0, 2)) == 0}
