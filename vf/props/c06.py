"""C06 — the config string round-trips, is canonical and always parses.

Case: bindings (unique keys) over a registry with shared suffixes, case-variant names, a registered
class with a registered method and scopes differing only in case; values = literal renderings
(any layout), long strings / wide containers, references and macros at depth, and non-literal
objects; macro definitions (also with non-literal values); imports; a permutation; a line width and
a continuation indent.  Oracles: round trip through parse_config(config_str()), permutation
invariance, documented structure, "always parses", markdown keeps binding lines verbatim.
"""
import ast
import enum
import math
import random
import re
import sys
import types
import warnings

from hypothesis import strategies as st

from vf import ginenv
from vf.core import OutOfDomain, Violation, ok, require
from vf.gen import literals

gin = ginenv.import_gin()
from gin import config_parser  # pylint: disable=g-import-not-at-top

ID = 'C06'
LEVEL = 'exploration'
ISOLATE = True
BUDGET = {'quick': (16, 110), 'thorough': (16, 2500)}
RULE = ('1-12 bindings with unique (scope, configurable, parameter) keys over {a.b.fn, c.b.fn, gn, '
        'Gn, mod.K, mod.K.meth} x scopes {"", s, S, s/t, T/s} + 0-3 macro definitions {M, m, '
        'sc/M}; values: generated literal renderings, long strings (30-200 chars), wide/deep '
        'containers, @refs/%macros nested in containers, 14 kinds of non-literal objects (also as '
        'macro values, also inside containers); made by parse_config or bind_parameter; 0-3 '
        'imports; a permutation of the order; max_line_length 5-120, continuation_indent 0-8 '
        '(< width). Non-trivial = a value that wraps at the chosen width, a reference or macro, a '
        'scoped and a module-qualified name, and (permutation != identity or a non-literal value). '
        'Dynamic variant: a generated package with two modules of the same leaf name; bindings '
        'through 1-3 imports (4 forms, aliases) and programmatic bindings on modules the text did not '
        'import; round trip of values and text. Distinct = distinct case JSON.')
ASSUMPTIONS = ['values are exact builtin types (no int/str subclasses whose repr parses back)',
               'parameter names are identifiers and scopes valid scope names',
               'a fresh configuration is obtained with gin.clear_config() (C20 checks that)',
               '"alphabetical" is checked as: section order is non-decreasing in the lower-cased '
               'configurable name (Class.method for methods); the exact tie-breaking is only '
               'required to be order-independent']
FLOORS = {'nontrivial': 0.1, 'wraps': 0.25, 'nonliteral': 0.12, 'kind:dynamic': 0.1, 'macro-nonliteral': 0.03,
          'permuted': 0.5, 'case-variant-keys': 0.1, 'import': 0.2}
TECHNIQUE = ('round-trip and metamorphic property testing of the serialiser: parse(config_str) '
             'restores the representable subset and is a fixed point, order-permutation '
             'invariance, structural validity, markdown line preservation')
LEVEL_TEXT = ('For generated configurations, widths and binding orders: config_str() always '
              're-parses; the re-parsed configuration holds exactly the bindings an independent '
              'representability model calls literal, with equal values and types; serialising '
              'again gives identical text; any permutation of the binding order gives identical '
              'text; sections/parameters/macros/imports are in the documented order; markdown() '
              'keeps every non-comment line verbatim. Exploration.')
LEVEL_NOTE = ('Trusted: ast.literal_eval for the value of literal renderings; the representability '
              'model (builtin scalars and containers, references, macros); gin.clear_config.')


# ------------------------------------------------------------------ registry (pristine parent)
def _mk(name, params):
  src = f"def {name}({', '.join(p + '=None' for p in params)}):\n  return locals()\n"
  ns = {}
  exec(src, ns)  # pylint: disable=exec-used
  return ns[name]


gin.configurable('fn', module='a.b')(_mk('fn', 'pqrPQ'))
gin.configurable('fn', module='c.b')(_mk('fn', 'pq'))
gin.configurable('gn')(_mk('gn', 'pqP'))          # exec'ed without __name__: selector is bare 'gn'
gin.configurable('Gn', module='x')(_mk('Gn', 'pq'))

_m = types.ModuleType('c06m')
_m.gin = gin
sys.modules['c06m'] = _m
exec("""
class K:
  def __init__(self, p=None, q=None):
    self.p, self.q = p, q

  @gin.register
  def meth(self, p=None, q=None):
    return (p, q)

gin.register(module='mod')(K)
""", _m.__dict__)  # pylint: disable=exec-used

_m2 = types.ModuleType('c06m2')
_m2.gin = gin
sys.modules['c06m2'] = _m2
exec("""
class K:
  def __init__(self, p=None, q=None):
    self.p, self.q = p, q

  @gin.register
  def meth(self, p=None, q=None):
    return (p, q)

gin.register(module='mod2')(K)
""", _m2.__dict__)  # pylint: disable=exec-used

SELECTORS = {  # as written in configs -> (params, name used for alphabetical order)
    # parameter names differing only in case (p / P): 'parameters sorted' must still be a total,
    # order-independent order
    'a.b.fn': ('pqrPQ', 'fn'), 'c.b.fn': ('pq', 'fn'), 'gn': ('pqP', 'gn'), 'x.Gn': ('pq', 'gn'),
    'mod.K': ('pq', 'k'), 'mod.K.meth': ('pq', 'k.meth'),
    # a second class of the same name, with a registered method of the same name, elsewhere
    'mod2.K': ('pq', 'k'), 'mod2.K.meth': ('pq', 'k.meth'),
    # Gin's own configurable: `<scope>/singleton.constructor = @fn` is a binding like any other
    'gin.singleton': (('constructor',), 'singleton')}
FULL = sorted(SELECTORS)
SCOPES = ['', '', 's', 'S', 's/t', 'T/s']
MACROS = ['M', 'm', 'sc/M', 'include', 'import', 'from']   # statement keywords are legal macro names
IMPORTS = ['import math', 'import os.path', 'from os import path', 'import json as js',
           'from xml.dom import minidom as md', 'import collections.abc']
REF_TARGETS = ['gn', 'a.b.fn', 'mod.K', 's/gn', 'S/t/c.b.fn']
NONLIT = ['object', 'set', 'frozenset', 'lambda', 'instance', 'unknown_ref', 'range', 'class',
          'inf', 'nan', 'complex_real', 'ellipsis', 'bytearray', 'reprs_as_1',
          # instances of int / str / float subclasses that are == and hash-equal to a plain literal
          # (16, 'cosine', 2.5) but print as something that is no literal
          'intenum16', 'strsub_cosine', 'floatsub_2_5',
          # ... or as a literal followed by something else (a quantity with its unit)
          'floatsub_2_5_m', 'intsub_16_px',
          # objects whose repr *looks like* Gin syntax without being a literal
          'reprs_as_unknown_ref', 'reprs_as_macro']
TWINS = {'intenum16': '16', 'strsub_cosine': "'cosine'", 'floatsub_2_5': '2.5',
         'floatsub_2_5_m': '2.5', 'intsub_16_px': '16'}


class _Inst:
  pass


class _ReprsAsOne:

  def __repr__(self):
    return '1'


class _ReprsAsRef:

  def __repr__(self):
    return '@c06_nosuch_configurable()'


class _ReprsAsMacro:

  def __repr__(self):
    return '%c06_nosuch_macro'


class _Prec(enum.IntEnum):
  HALF = 16


class _StrSub(str):

  def __repr__(self):
    return '<Schedule %s>' % str(self)


class _FloatSub(float):

  def __repr__(self):
    return '<Rate %s>' % float(self)


class _Metres(float):

  def __repr__(self):
    return '%s m' % float(self)


class _Pixels(int):

  def __repr__(self):
    return '%d px' % int(self)


def nonlit_obj(kind):
  return {
      'floatsub_2_5_m': lambda: _Metres(2.5), 'intsub_16_px': lambda: _Pixels(16),
      'reprs_as_unknown_ref': _ReprsAsRef, 'reprs_as_macro': _ReprsAsMacro,
      'intenum16': lambda: _Prec.HALF, 'strsub_cosine': lambda: _StrSub('cosine'),
      'floatsub_2_5': lambda: _FloatSub(2.5),
      'object': object, 'set': lambda: {1, 2}, 'frozenset': lambda: frozenset([1]),
      'lambda': lambda: (lambda: 0), 'instance': _Inst, 'range': lambda: range(3),
      'class': lambda: _Inst, 'inf': lambda: float('inf'), 'nan': lambda: float('nan'),
      'complex_real': lambda: 1 + 2j, 'ellipsis': lambda: Ellipsis,
      'bytearray': lambda: bytearray(b'ab'), 'reprs_as_1': _ReprsAsOne,
  }[kind]()


def value_representable(x):
  """Independent statement of 'has a literal form': builtin scalars and containers thereof."""
  if x is None or type(x) in (bool, int, str, bytes):
    return True
  if type(x) is float:
    return math.isfinite(x)      # 'inf' / 'nan' are names, not literals (e.g. from 3e324)
  if type(x) in (list, tuple):
    return all(value_representable(i) for i in x)
  if type(x) is dict:
    return all(value_representable(k) and value_representable(v) for k, v in x.items())
  return False


def representable(v):
  k = v[0]
  if k == 'lit':
    with warnings.catch_warnings():
      warnings.simplefilter('ignore')
      return value_representable(ast.literal_eval(v[1]))
  if k in ('ref', 'mac'):
    return True
  if k == 'nonlit':
    return False
  if k == 'dict':
    return all(representable(x) for _, x in v[1])
  return all(representable(x) for x in v[1])


def has(v, kinds):
  if v[0] in kinds:
    return True
  if v[0] == 'dict':
    return any(has(x, kinds) for _, x in v[1])
  if v[0] in ('list', 'tuple'):
    return any(has(x, kinds) for x in v[1])
  return False


def text_of(v):
  k = v[0]
  if k == 'lit':
    return v[1]
  if k == 'ref':
    return '@' + v[1] + ('()' if v[2] else '')
  if k == 'mac':
    return '%' + v[1]
  if k == 'nonlit':
    if v[1] == 'unknown_ref':
      return '@nosuch_configurable()'
    raise ValueError('no text for ' + v[1])
  if k == 'list':
    return '[' + ', '.join(text_of(x) for x in v[1]) + ']'
  if k == 'tuple':
    return '(' + ', '.join(text_of(x) for x in v[1]) + (',' if len(v[1]) == 1 else '') + ')'
  if k == 'dict':
    items = list(reversed(v[1])) if FLIP[0] else v[1]
    return '{' + ', '.join(f'{key}: {text_of(x)}' for key, x in items) + '}'
  raise ValueError(v)


# When set, dict displays are written / built with their items in reverse order: the same value,
# reached by inserting the keys in another order (the text of config_str may not depend on it).
FLIP = [False]


def textual(v):
  """Can the value be written as config text (parsed with skip_unknown for placeholders)?"""
  if v[0] == 'nonlit':
    return v[1] == 'unknown_ref'
  if v[0] == 'dict':
    return all(textual(x) for _, x in v[1])
  if v[0] in ('list', 'tuple'):
    return all(textual(x) for x in v[1])
  return True


def live(v):
  k = v[0]
  if k == 'lit':
    with warnings.catch_warnings():
      warnings.simplefilter('ignore')
      return ast.literal_eval(v[1])
  if k in ('ref', 'mac'):
    return gin.config.parse_value(text_of(v))
  if k == 'nonlit':
    if v[1] == 'unknown_ref':
      return config_parser.ConfigParser(
          text_of(v), gin.config.ParserDelegate(skip_unknown=True)).parse_value()
    return nonlit_obj(v[1])
  if k == 'list':
    return [live(x) for x in v[1]]
  if k == 'tuple':
    return tuple(live(x) for x in v[1])
  if k == 'dict':
    with warnings.catch_warnings():
      warnings.simplefilter('ignore')
      items = list(reversed(v[1])) if FLIP[0] else v[1]
      return dict((ast.literal_eval(key), live(x)) for key, x in items)
  raise ValueError(v)


def canonical(x):
  """Order-insensitive for dicts, type-aware, references by their text."""
  if isinstance(x, (list, tuple)):
    return (type(x).__name__, [canonical(i) for i in x])
  if isinstance(x, dict):
    return ('dict', sorted(((canonical(k), canonical(v)) for k, v in x.items()), key=repr))
  if type(x).__module__.startswith('gin.'):
    return ('gin', repr(x))
  return (type(x).__name__, repr(x))


class Ref:

  def __init__(self, *t):
    self.t = t

  def __eq__(self, other):
    return isinstance(other, Ref) and self.t == other.t

  def __hash__(self):
    return hash(self.t)


class Rec(config_parser.ParserDelegate):

  def configurable_reference(self, scoped_configurable_name, evaluate):
    return Ref('@', scoped_configurable_name, evaluate)

  def macro(self, macro_name):
    return Ref('%', macro_name, True)


def resolve(printed):
  cands = [f for f in FULL if f == printed or f.endswith('.' + printed)]
  return cands[0] if len(cands) == 1 else None


def apply(items, order):
  for idx in order:
    kind, key, v, how = items[idx]
    if kind == 'import':
      if how == 'parse-skip':
        with warnings.catch_warnings():
          warnings.simplefilter('ignore')
          gin.parse_config(v, skip_unknown=True)
      else:
        gin.parse_config(v)
      continue
    if kind == 'macro':
      if how == 'parse' and textual(v):
        gin.parse_config(f'{key} = {text_of(v)}', skip_unknown=has(v, ('nonlit',)))
      else:
        gin.bind_parameter((key, 'gin.macro', 'value'), live(v))
      continue
    scope, sel, param = key
    if how == 'parse' and textual(v):
      gin.parse_config(f"{scope + '/' if scope else ''}{sel}.{param} = {text_of(v)}",
                       skip_unknown=has(v, ('nonlit',)))
    elif how == 'block' and textual(v):
      gin.parse_config(f"{scope + '/' if scope else ''}{sel}:\n  {param} = {text_of(v)}\n",
                       skip_unknown=has(v, ('nonlit',)))
    elif how == 'str':
      gin.bind_parameter(f"{scope + '/' if scope else ''}{sel}.{param}", live(v))
    else:
      gin.bind_parameter((scope, sel, param), live(v))


def contains_complex(x):
  if isinstance(x, complex):
    return True
  if isinstance(x, dict):
    return any(contains_complex(k) or contains_complex(v) for k, v in x.items())
  if isinstance(x, (list, tuple)):
    return any(contains_complex(i) for i in x)
  return False


def unorderable_keys(x):
  """True if some dict has two keys of one type that cannot be compared (pprint then orders them
  by id(), i.e. by memory address — a CPython pprint property, not Gin's)."""
  if isinstance(x, dict):
    keys = list(x)
    for i, a in enumerate(keys):
      for b in keys[i + 1:]:
        if type(a) is type(b):
          try:
            a < b  # pylint: disable=pointless-statement
          except TypeError:
            return True
    return any(unorderable_keys(k) or unorderable_keys(v) for k, v in x.items())
  if isinstance(x, (list, tuple)):
    return any(unorderable_keys(i) for i in x)
  return False


def lits(v):
  if v[0] == 'lit':
    yield v[1]
  elif v[0] == 'dict':
    for _, x in v[1]:
      yield from lits(x)
  elif v[0] in ('list', 'tuple'):
    for x in v[1]:
      yield from lits(x)


# ------------------------------------------------------------------ dynamic registration variant
DYN_FILES = {
    'c06a/__init__.py': '', 'c06b/__init__.py': '',
    # a top-level package whose name starts with an upper-case letter (PIL, Bio, Crypto, ...): it
    # sorts before '__gin__'
    'Zc06/__init__.py': '',
    'Zc06/utils.py': 'def make(x=None, y=None):\n  return ("Z.utils", x, y)\n',
    'c06a/utils.py': 'import gin\n\n@gin.register\ndef make(x=None, y=None):\n  return ("a.utils", x, y)\n',
    'c06b/utils.py': 'import gin\n\n@gin.register\ndef make(x=None, y=None):\n  return ("b.utils", x, y)\n',
    'c06a/other.py': ('def build(x=None, y=None):\n  return ("a.other", x, y)\n\n'
                      'class K:\n  def __init__(self, x=None):\n    self.x = x\n'),
    # a class registered by decorator inside a namespace class: its Python qualified name has a dot
    'c06a/nested.py': ('import gin\n\nclass Models:\n  @gin.register\n  class Enc:\n'
                       '    def __init__(self, x=None):\n      self.x = x\n'),
}
DYN_MODULES = ['c06a.utils', 'c06b.utils', 'c06a.other', 'Zc06.utils', 'c06a.nested']
DYN_TARGETS = {'c06a.utils': ['make'], 'c06b.utils': ['make'], 'c06a.other': ['build', 'K'],
               'Zc06.utils': ['make'], 'c06a.nested': ['Models.Enc']}


def _dyn_obj(m, attr):
  import functools, importlib  # pylint: disable=g-import-not-at-top,multiple-imports
  return functools.reduce(getattr, attr.split('.'), importlib.import_module(m))
DYN_REF_SCOPES = ['', 's1', 's2/t', 's1']
DYN_FORMS = ['import {m}', 'import {m} as {a}', 'from {p} import {l}', 'from {p} import {l} as {a}']


def check_dyn(case):
  """Round trip with dynamic registration: bindings written through a file's own imports plus
  programmatic bindings on configurables the file did not import (so config_str has to add, and
  possibly re-alias, imports)."""
  import importlib, os, shutil, sys, tempfile  # pylint: disable=g-import-not-at-top,multiple-imports
  tmp = tempfile.mkdtemp(prefix='c06-')
  try:
    for rel, src in DYN_FILES.items():
      path = os.path.join(tmp, rel)
      os.makedirs(os.path.dirname(path), exist_ok=True)
      with open(path, 'w') as f:
        f.write(src)
    sys.path.insert(0, tmp)
    lines = ['from __gin__ import dynamic_registration']
    labels_dyn = set()
    bound = {}
    model = {}          # (module, attr, param) -> value
    for mi, form, alias in case['imports']:
      m = DYN_MODULES[mi % len(DYN_MODULES)]
      pkg, leaf = m.rsplit('.', 1)
      text = DYN_FORMS[form % 4].format(m=m, p=pkg, l=leaf, a=alias)
      name = alias if '{a}' in DYN_FORMS[form % 4] else (m if form % 4 == 0 else leaf)
      if name in bound or any(b == m for b in bound.values()):
        continue
      bound[name] = m
      lines.append(text)
    spelled = {m: n for n, m in bound.items()}
    for mi, ti, param, value, how in case['bindings']:
      m = DYN_MODULES[mi % len(DYN_MODULES)]
      attr = DYN_TARGETS[m][ti % len(DYN_TARGETS[m])]
      if attr in ('K', 'Models.Enc') and param == 'y':
        param = 'x'
      if attr == 'Models.Enc':
        labels_dyn.add('dyn:decorator-registered-class-with-dotted-qualname')
      if how == 'text' and m in spelled:
        lines.append(f'{spelled[m]}.{attr}.{param} = {value!r}')
      else:
        how = 'late'
      model[(m, attr, param)] = (value, how)
    # reference values (scoped or not, evaluated or not) on c06a.utils.make, written through the
    # file's own import names; what they deliver is observed by calling, before and after
    ref_specs = {}
    for param, si, tmi, ti, evaluate in case.get('refs', []):
      tm = DYN_MODULES[1 + tmi % 2]
      for need in ('c06a.utils', tm):
        if need not in spelled:
          lines.insert(1, f'import {need}')
          spelled[need] = bound[need] = need
      attr = DYN_TARGETS[tm][ti % len(DYN_TARGETS[tm])]
      scope = DYN_REF_SCOPES[si % len(DYN_REF_SCOPES)]
      if scope:
        lines.append(f"{scope}/{spelled[tm]}.{attr}.x = 'in:{scope}'")
      lines.append(f"{spelled['c06a.utils']}.make.{param} = "
                   f"@{scope + '/' if scope else ''}{spelled[tm]}.{attr}{'()' if evaluate else ''}")
      model.pop(('c06a.utils', 'make', param), None)
      ref_specs[param] = (scope, tm, attr, evaluate)
    gin.parse_config('\n'.join(lines) + '\n')
    for (m, attr, param), (value, how) in model.items():
      if how == 'late':
        obj = _dyn_obj(m, attr)
        try:
          gin.get_configurable(obj)
        except ValueError:
          gin.external_configurable(obj, module=m)
        gin.bind_parameter(('', gin.get_configurable(obj) and _selector_of(obj), param), value)
    labels = {'kind:dynamic'} | labels_dyn
    if any(h == 'late' for _, h in model.values()):
      labels.add('dyn:programmatic-binding-on-unimported-module')

    def observe():
      out = {}
      for (m, attr, param) in model:
        obj = _dyn_obj(m, attr)
        out[(m, attr, param)] = gin.get_bindings(obj).get(param, 'MISSING')
      return out

    want = {k: v for k, (v, _) in model.items()}
    require(observe() == want, 'dyn-bindings-before', lambda: f'{observe()} vs {want}')

    def norm(v):
      if isinstance(v, tuple):
        return tuple(norm(x) for x in v)
      if type(v).__name__ == 'K':
        return ('K', v.x)
      if callable(v):
        return ('callable', norm(v()))
      return v

    def delivered():
      make = importlib.import_module('c06a.utils').make
      return norm(gin.get_configurable(make)())

    exp_delivered = None
    if ref_specs:
      labels.add('dyn:reference-values')
      exp = ['a.utils']
      for param in ('x', 'y'):
        if param in ref_specs:
          scope, tm, attr, evaluate = ref_specs[param]
          if scope:
            labels.add('dyn:scoped-reference-value')
          tx = 'in:' + scope if scope else model.get((tm, attr, 'x'), (None,))[0]
          ty = model.get((tm, attr, 'y'), (None,))[0]
          res = ('K', tx) if attr == 'K' else (tm[3:], tx, ty)
          exp.append(res if evaluate else ('callable', res))
        else:
          exp.append(model.get(('c06a.utils', 'make', param), (None,))[0])
      exp_delivered = norm(tuple(exp))
      got_d = delivered()
      require(got_d == exp_delivered, 'dyn-references-before',
              lambda: f'make() gave {got_d}, expected {exp_delivered}\n' + '\n'.join(lines))
    s1 = gin.config_str()
    gin.clear_config()
    try:
      gin.parse_config(s1)
    except Exception as e:  # pylint: disable=broad-except
      raise Violation('config_str-does-not-parse', f'{type(e).__name__}: {e}\n{s1}')
    got = observe()
    require(got == want, 'round-trip-value',
            lambda: f'after re-parse {got}, expected {want}\n--- config_str:\n{s1}')
    if ref_specs:
      got_d = delivered()
      require(got_d == exp_delivered, 'round-trip-reference',
              lambda: f'after re-parse make() gives {got_d}, before {exp_delivered}\n'
                      f'--- config_str:\n{s1}')
    s2 = gin.config_str()
    require(s2 == s1, 'round-trip-text', lambda: f'--- first:\n{s1}\n--- second:\n{s2}')
    leafs = [bound_m.rsplit('.', 1)[-1] for bound_m in {m for (m, _, _) in model}]
    if len(set(leafs)) < len(leafs):
      labels.add('dyn:colliding-module-names')
    nt = 'dyn:programmatic-binding-on-unimported-module' in labels and len(model) >= 2
    if nt:
      labels.add('nontrivial')
    return ok(labels, nt)
  finally:
    if tmp in sys.path:
      sys.path.remove(tmp)
    shutil.rmtree(tmp, ignore_errors=True)


LATEDYN_PLACES = ['bare', 'list', 'tuple', 'dictvalue', 'dictkey', 'dictkey-tuple', 'nested']


def _ld_norm(v):
  """A value with its references named by what they refer to (scopes, target object, evaluated or
  not), not by how the current registration mode spells them."""
  if isinstance(v, gin.config.ConfigurableReference):
    return ('ref', tuple(v.scopes), v.configurable.wrapped.__qualname__, bool(v.evaluate))
  if isinstance(v, dict):
    return ('dict', sorted(((_ld_norm(k), _ld_norm(x)) for k, x in v.items()), key=repr))
  if isinstance(v, (list, tuple)):
    return (type(v).__name__, [_ld_norm(x) for x in v])
  return v


def check_latedyn(case):
  """Bindings made under static registration whose values hold references; dynamic registration is
  switched on afterwards (a later file opens with the dynamic_registration import).  The config
  string must still restore every one of them ("with or without dynamic registration")."""
  import importlib, os, shutil, sys, tempfile  # pylint: disable=g-import-not-at-top,multiple-imports
  tmp = tempfile.mkdtemp(prefix='c06-')
  try:
    for rel, src in DYN_FILES.items():
      path = os.path.join(tmp, rel)
      os.makedirs(os.path.dirname(path), exist_ok=True)
      with open(path, 'w') as f:
        f.write(src)
    sys.path.insert(0, tmp)
    other = importlib.import_module('c06a.other')
    gin.external_configurable(other.build, module='c06a.other')
    gin.external_configurable(other.K, module='c06a.other')
    lines, places = [], {}
    for param, target, scope, evaluate, place in case['bindings']:
      ref = '@%s%s%s' % (scope + '/' if scope else '', target, '()' if evaluate else '')
      if place in ('dictkey', 'dictkey-tuple') and evaluate and target.endswith('K'):
        ref = ref[:-2]          # an evaluated K() is a fresh unhashable-by-value object; keep the key a reference
      text = {'bare': ref, 'list': '[%s, 1]' % ref, 'tuple': '(%s,)' % ref,
              'dictvalue': "{'k': %s}" % ref, 'dictkey': '{%s: 1}' % ref,
              'dictkey-tuple': '{(%s, 0): 2}' % ref, 'nested': "[{'k': (%s, [0])}]" % ref}[place]
      lines.append('c06a.other.build.%s = %s' % (param, text))
      places[param] = place
    gin.parse_config('\n'.join(lines) + '\n')

    def shown():
      # query_parameter hands out the stored value itself (get_bindings would evaluate references)
      return {prm: _ld_norm(gin.query_parameter('c06a.other.build.' + prm)) for prm in places}
    gin.parse_config('from __gin__ import dynamic_registration\n')
    s1 = gin.config_str()
    want = shown()
    gin.clear_config()
    try:
      gin.parse_config(s1)
    except Exception as e:  # pylint: disable=broad-except
      raise Violation('config_str-does-not-parse', f'{type(e).__name__}: {e}\n{s1}')
    got = {}
    for prm in places:
      try:
        got[prm] = _ld_norm(gin.query_parameter('c06a.other.build.' + prm))
      except ValueError:
        got[prm] = 'MISSING'
    require(got == want, 'round-trip-value',
            lambda: f'bindings made before dynamic registration was switched on: after re-parse '
                    f'{got}, expected {want}\n--- bindings:\n' + '\n'.join(lines) +
                    f'\n--- config_str:\n{s1}')
    labels = {'kind:latedyn', 'nontrivial'} | {'latedyn:' + pl for pl in places.values()}
    return ok(labels, True)
  finally:
    if tmp in sys.path:
      sys.path.remove(tmp)
    shutil.rmtree(tmp, ignore_errors=True)


def _selector_of(obj):
  """Complete selector of a registered object, through public API only: the unique name under
  which gin.get_configurable(name) returns the same configurable."""
  target = gin.get_configurable(obj)
  mod, name = obj.__module__, obj.__name__
  for cand in (f'{mod}.{name}', name):
    try:
      if gin.get_configurable(cand) is target:
        return cand
    except (ValueError, KeyError):
      continue
  raise OutOfDomain('cannot name the configurable')


def check_case(case):
  if case.get('kind') == 'dynamic':
    return check_dyn(case)
  if case.get('kind') == 'latedyn':
    return check_latedyn(case)
  labels = set()
  width, indent = case['width'], case['indent']
  for v in [b[3] for b in case['bindings']] + [m[1] for m in case['macros']]:
    for t in lits(v):
      with warnings.catch_warnings():
        warnings.simplefilter('ignore')
        if unorderable_keys(ast.literal_eval(t)):
          raise OutOfDomain('dict keys of one type that are not mutually orderable')
        if contains_complex(ast.literal_eval(t)):
          # repr() of most complex numbers ('(-0-2j)') is arithmetic, i.e. not a literal; which
          # complex values have a literal form is a CPython repr detail, not Gin's
          raise OutOfDomain('complex literal')
  items = []
  for imp in case['imports']:
    items.append(('import', None, IMPORTS[imp % len(IMPORTS)], 'parse'))
  if case.get('missing_import'):
    # an import that is skipped (skip_unknown) is not part of the configuration
    items.append(('import', None, ['import c06_no_such_module', 'from c06_no_such_pkg import m as mm'][
        case['missing_import'] % 2], 'parse-skip'))
    labels.add('skipped-import-of-missing-module')
  for name, v, how in case['macros']:
    items.append(('macro', name, v, how))
  for scope, sel, param, v, how in case['bindings']:
    items.append(('bind', (scope, sel, param), v, how))
  order = list(range(len(items)))
  if case.get('earlier_config'):
    # another configuration (with its own imports) was loaded and cleared before this one: the
    # text depends only on the present bindings and imports
    gin.parse_config('import string as c06earlier\nfrom email import utils as c06eu\n'
                     'C06_EARLIER = 1\n')
    gin.clear_config()
    labels.add('earlier-configuration-loaded-and-cleared')
  apply(items, order)
  try:
    s1 = gin.config_str(width, indent)
    s_default = gin.config_str()
    # the text is a function of the bindings only: not of whatever config scope happens to be
    # active where config_str() is called
    with gin.config_scope('zs/zt'):
      s_scoped = gin.config_str(width, indent)
  except Exception as e:  # pylint: disable=broad-except
    raise Violation('config_str-raised', f'{type(e).__name__}: {e}')
  require(not re.search(r'c06earlier|c06eu|C06_EARLIER', s1), 'earlier-configuration-in-text',
          lambda: f'a configuration cleared before this one was built shows in the text:\n{s1}')
  require(s_scoped == s1, 'config_str-depends-on-active-scope',
          lambda: f'--- at top level:\n{s1}\n--- inside config_scope(zs/zt):\n{s_scoped}')
  before = {}
  for kind, key, v, _ in items:
    if kind == 'bind' and representable(v):
      scope, sel, param = key
      before[key] = canonical(gin.query_parameter(f"{scope + '/' if scope else ''}{sel}.{param}"))
    elif kind == 'macro' and representable(v):
      before[('macro', key)] = canonical(gin.query_parameter('%' + key))

  # ---- permutation invariance -----------------------------------------------------------
  perm = list(order)
  random.Random(case['perm']).shuffle(perm)
  if case['perm'] == 0:
    perm = list(reversed(order))
  # imports first in both orders: they are not bindings (and `import` order is sorted anyway)
  if perm != order:
    labels.add('permuted')
    gin.clear_config()
    FLIP[0] = True
    try:
      apply(items, perm)
    finally:
      FLIP[0] = False
    s1p = gin.config_str(width, indent)
    require(s1p == s1, 'order-dependent-text',
            lambda: f'order {order}:\n{s1}\n--- order {perm}:\n{s1p}')

  # ---- always parses; round trip --------------------------------------------------------
  for text, (w, i) in ((s1, (width, indent)), (s_default, (80, 4))):
    gin.clear_config()
    try:
      gin.parse_config(text)
    except Exception as e:  # pylint: disable=broad-except
      raise Violation('config_str-does-not-parse',
                      f'{type(e).__name__}: {e}\n--- config_str({w}, {i}):\n{text}')
    after = {}
    for key in before:
      try:
        if key[0] == 'macro':
          after[key] = canonical(gin.query_parameter('%' + key[1]))
        else:
          scope, sel, param = key
          after[key] = canonical(
              gin.query_parameter(f"{scope + '/' if scope else ''}{sel}.{param}"))
      except ValueError:
        after[key] = 'MISSING'
    require(after == before, 'round-trip-value',
            lambda: '\n'.join(f'{k}: before {before[k]} after {after[k]}'
                              for k in before if before[k] != after[k]) + f'\n--- text:\n{text}')
    s2 = gin.config_str(w, i)
    all_rep = all(representable(v) for kind, _, v, _ in items if kind != 'import')
    if all_rep:
      require(s2 == text, 'round-trip-text', lambda: f'--- first:\n{text}\n--- second:\n{s2}')
    else:
      gin.clear_config()
      gin.parse_config(s2)
      s3 = gin.config_str(w, i)
      require(s3 == s2, 'not-a-fixed-point', lambda: f'--- s2:\n{s2}\n--- s3:\n{s3}')
    # nothing else is present: the binding keys of the re-serialised text
    with warnings.catch_warnings():
      warnings.simplefilter('ignore')
      stmts = list(config_parser.ConfigParser(s2, Rec()))
    got_keys = set()
    for s in stmts:
      if isinstance(s, config_parser.BindingStatement):
        if s.arg_name:
          got_keys.add((s.scope, resolve(s.selector), s.arg_name))
        else:
          got_keys.add(('macro', (s.scope + '/' if s.scope else '') + s.selector))
    require(got_keys == set(before), 'binding-set-after-round-trip',
            lambda: f'only in text {got_keys - set(before)}; missing {set(before) - got_keys}\n{s2}')
    is_imp = lambda l: bool(re.match(r'(import|from)\s+[A-Za-z_]', l))
    imports_before = [l for l in text.splitlines() if is_imp(l)]
    imports_after = [l for l in s2.splitlines() if is_imp(l)]
    require(imports_before == imports_after, 'imports-round-trip',
            lambda: f'{imports_before} vs {imports_after}')

  # ---- structure --------------------------------------------------------------------------
  lines = s1.splitlines()
  # (a macro may be called `import` or `from`: `import = 1` is a macro definition, not an import)
  is_import = lambda l: bool(re.match(r'(import|from)\s+[A-Za-z_]', l))
  first_non_import = next((i for i, l in enumerate(lines) if l and not is_import(l)), len(lines))
  require(not any(is_import(l) for l in lines[first_non_import:]), 'imports-not-first', s1)
  headers = [(i, l) for i, l in enumerate(lines)
             if l.startswith('# Parameters for ') or l == '# Macros:']
  if any(l == '# Macros:' for _, l in headers):
    require(headers[0][1] == '# Macros:', 'macros-not-first', s1)
  sec_names = []
  for _, l in headers:
    if l == '# Macros:':
      continue
    printed = l[len('# Parameters for '):-1].split('/')[-1]
    full = resolve(printed)
    require(full is not None, 'section-name-does-not-resolve', lambda: f'{printed!r}\n{s1}')
    sec_names.append(SELECTORS[full][1])
  require(sec_names == sorted(sec_names), 'sections-not-alphabetical',
          lambda: f'{sec_names}\n{s1}')
  with warnings.catch_warnings():
    warnings.simplefilter('ignore')
    stmts = list(config_parser.ConfigParser(s1, Rec()))
  groups = []
  for s in stmts:
    if isinstance(s, config_parser.BindingStatement) and s.arg_name:
      k = (s.scope, s.selector)
      if not groups or groups[-1][0] != k:
        groups.append((k, []))
      groups[-1][1].append(s.arg_name)
  require(len({k for k, _ in groups}) == len(groups), 'section-split', s1)
  for k, params in groups:
    require(params == sorted(params), 'parameters-not-sorted', lambda: f'{k}: {params}\n{s1}')

  # ---- markdown ---------------------------------------------------------------------------
  md = gin.config.markdown(s1)
  exp_code = ['    ' + l for l in lines if not l.startswith('#')]
  got_code = [l for l in md.splitlines() if l.startswith('    ') and l != '    # None.']
  require(got_code == exp_code, 'markdown-altered-binding-lines',
          lambda: f'--- config_str:\n{s1}\n--- markdown:\n{md}')

  # ---- the text follows a later change (nothing is cached) -----------------------------------
  bind_items = [it for it in items if it[0] == 'bind']
  if bind_items:
    gin.clear_config()
    apply(items, order)
    first = gin.config_str(width, indent)
    scope, sel, param = bind_items[0][1]
    gin.bind_parameter((scope, sel, param), 'changed-afterwards')
    second = gin.config_str(width, indent)
    require("'changed-afterwards'" in second and first != second, 'config_str-stale-after-change',
            lambda: f'--- before:\n{first}\n--- after re-binding {scope}/{sel}.{param}:\n{second}')
    gin.clear_config()
    gin.parse_config(second)
    got = gin.query_parameter(f"{scope + '/' if scope else ''}{sel}.{param}")
    require(got == 'changed-afterwards', 'config_str-stale-after-change', repr(got))

  # ---- the text follows a later registration (shortest names are computed, not remembered) ---
  if bind_items and case.get('late_registration'):
    gin.clear_config()
    apply(items, order)
    gin.config_str(width, indent)
    keep = {}
    for kind, key, v, _ in items:
      if kind == 'bind' and representable(v):
        scope, sel, param = key
        keep[key] = canonical(gin.query_parameter(f"{scope + '/' if scope else ''}{sel}.{param}"))
    # names that were unique become ambiguous: gn (x.Gn / late.gn differ in case only from gn...),
    # a third K, another b.fn
    gin.configurable('Gn', module='late')(_mk('Gn', 'pq'))      # 'Gn' was the shortest name of x.Gn
    gin.configurable('K', module='late.mod3')(_mk('K', 'pq'))
    gin.configurable('fn', module='late.b')(_mk('fn', 'pq'))
    gin.configurable('meth', module='late.K')(_mk('meth', 'pq'))
    third = gin.config_str(width, indent)
    gin.clear_config()
    try:
      gin.parse_config(third)
    except Exception as e:  # pylint: disable=broad-except
      raise Violation('config_str-does-not-parse-after-late-registration',
                      f'{type(e).__name__}: {e}\n{third}')
    for (scope, sel, param), want in keep.items():
      got = canonical(gin.query_parameter(f"{scope + '/' if scope else ''}{sel}.{param}"))
      require(got == want, 'round-trip-after-late-registration',
              lambda: f'{scope}/{sel}.{param}: {got} vs {want}\n{third}')
    labels.add('late-registration-then-config_str')

  # ---- classification -----------------------------------------------------------------------
  wraps = '\\\n' in s1
  vals = [v for kind, _, v, _ in items if kind != 'import']
  if wraps:
    labels.add('wraps')
  if any(not representable(v) for v in vals):
    labels.add('nonliteral')
  if any(kind == 'macro' and not representable(v) for kind, _, v, _ in items):
    labels.add('macro-nonliteral')
  if case['imports']:
    labels.add('import')
  keys = [key for kind, key, _, _ in items if kind == 'bind']
  lowered = [(s.lower(), SELECTORS[sel][1]) for s, sel, _ in keys]
  if len(set(lowered)) < len({(s, sel) for s, sel, _ in keys}):
    labels.add('case-variant-keys')
  refs = any(has(v, ('ref', 'mac')) for v in vals)
  scoped = any(k[0] for k in keys)
  qualified = any('.' in k[1] for k in keys)
  nt = wraps and refs and scoped and qualified and ('permuted' in labels or 'nonliteral' in labels)
  if nt:
    labels.add('nontrivial')
  return ok(labels, nt)


# ------------------------------------------------------------------------------ strategies
_long = st.text(alphabet='ab cd\'"\\\n#@%é', min_size=30, max_size=200).map(repr)
_lit_text = st.one_of(
    literals.value(depth=2).map(lambda tf: tf[0]), literals.simple_value(), _long,
    st.lists(st.integers(-10**6, 10**6), min_size=10, max_size=40).map(repr),
    st.dictionaries(st.text('abc', min_size=1, max_size=12), st.floats(allow_nan=False,
                                                                     allow_infinity=False),
                    min_size=3, max_size=12).map(repr),
    st.sampled_from(['-0.0', '1e308', '-1e-320', "b'\\x00\\xff bytes'",
                     '((), [], {})', "''", "{(1, 'k'): [None, True]}", '10**3' and '1000']))


def _value(depth=2):
  leaf = st.one_of(
      _lit_text.map(lambda t: ['lit', t]), _lit_text.map(lambda t: ['lit', t]),
      st.tuples(st.sampled_from(REF_TARGETS), st.booleans()).map(lambda t: ['ref', t[0], t[1]]),
      st.sampled_from(MACROS + ['gin.REQUIRED']).map(lambda m: ['mac', m]),
      st.sampled_from(NONLIT).map(lambda k: ['nonlit', k]),
      st.sampled_from(NONLIT).map(lambda k: ['nonlit', k]))
  if depth <= 0:
    return leaf
  sub = _value(depth - 1)
  keys = st.sampled_from(["'k'", "'key two'", '1', '(1, 2)', "b'b'", 'None'])
  return st.one_of(
      leaf, leaf,
      st.lists(sub, min_size=1, max_size=4).map(lambda xs: ['list', xs]),
      st.lists(sub, min_size=0, max_size=3).map(lambda xs: ['tuple', xs]),
      st.lists(st.tuples(keys, sub).map(list), min_size=1, max_size=3,
               unique_by=lambda kv: kv[0]).map(lambda xs: ['dict', xs]))


@st.composite
def _dyn_case(draw):
  imports = draw(st.lists(st.tuples(st.integers(0, 4), st.integers(0, 3),
                                    st.sampled_from(['u', 'utils', 'mm'])).map(list),
                          min_size=1, max_size=3))
  bindings = draw(st.lists(
      st.tuples(st.integers(0, 4), st.integers(0, 1), st.sampled_from(['x', 'y']),
                st.integers(0, 9) | st.sampled_from(['v', [1, 2]]),
                st.sampled_from(['text', 'late'])).map(list),
      min_size=1, max_size=5, unique_by=lambda b: (b[0] % 5, b[1], b[2])))
  refs = draw(st.lists(st.tuples(st.sampled_from(['x', 'y']), st.integers(0, 3), st.integers(0, 1),
                                 st.integers(0, 1), st.booleans()).map(list),
                       max_size=2, unique_by=lambda r: r[0]))
  return {'kind': 'dynamic', 'imports': imports, 'bindings': bindings, 'refs': refs}


@st.composite
def _latedyn_case(draw):
  bindings = draw(st.lists(
      st.tuples(st.sampled_from(['x', 'y']), st.sampled_from(['c06a.other.build', 'c06a.other.K', 'other.build', 'other.K']),
                st.sampled_from(['', '', 's1', 's2/t']), st.booleans(),
                st.sampled_from(LATEDYN_PLACES)).map(list),
      min_size=1, max_size=2, unique_by=lambda b: b[0]))
  return {'kind': 'latedyn', 'bindings': bindings}


def strategy():
  # the late-dynamic variant is small enough to be swept exhaustively (SWEEPS below)
  return st.one_of(_static_case(), _static_case(), _static_case(), _dyn_case())


def _latedyn_sweep(tier):
  import itertools  # pylint: disable=g-import-not-at-top
  targets = ['c06a.other.build', 'c06a.other.K', 'other.build', 'other.K']
  cases = [{'kind': 'latedyn', 'bindings': [['x', t, sc, ev, pl]]}
           for t, sc, ev, pl in itertools.product(targets, ['', 's1', 's2/t'], [False, True],
                                                  LATEDYN_PLACES)]
  # two bindings at once: every pair of placements
  cases += [{'kind': 'latedyn', 'bindings': [['x', 'c06a.other.build', '', False, a],
                                             ['y', 'other.K', 's1', True, b]]}
            for a, b in itertools.product(LATEDYN_PLACES, LATEDYN_PLACES)]
  return cases, True


SWEEPS = {'latedyn': _latedyn_sweep}


@st.composite
def _static_case(draw):
  keys = draw(st.lists(
      st.sampled_from(FULL).flatmap(lambda sel: st.tuples(
          st.sampled_from(SCOPES), st.just(sel), st.sampled_from(SELECTORS[sel][0]))),
      min_size=1, max_size=12, unique=True))
  # make case-variant collisions likely: mirror one key into its case twin
  if draw(st.booleans()):
    s, sel, p = keys[0]
    twin = ({'s': 'S', 'S': 's'}.get(s, s), {'gn': 'x.Gn', 'x.Gn': 'gn'}.get(sel, sel), p)
    if sel in ('a.b.fn', 'gn') and p in 'pP' and draw(st.booleans()):
      twin = (s, sel, p.swapcase())
    if twin[2] not in SELECTORS[twin[1]][0]:
      twin = (twin[0], twin[1], twin[2].lower())
    if twin not in keys:
      keys.append(twin)
  bindings = [[s, sel, p, draw(_value()), draw(st.sampled_from(['parse', 'block', 'str', 'tuple']))]
              for s, sel, p in keys]
  if len(bindings) >= 2 and draw(st.integers(0, 3)) == 0:
    # a value without literal form next to the plain literal it is equal (and hash-equal) to
    kind = draw(st.sampled_from(sorted(TWINS)))
    i, j = draw(st.sampled_from([(0, 1), (1, 0), (0, len(bindings) - 1), (len(bindings) - 1, 0)]))
    if i != j:
      wrap = draw(st.sampled_from([lambda v: v, lambda v: ['list', [v]],
                                   lambda v: ['dict', [["'k'", v]]]]))
      bindings[i][3] = wrap(['nonlit', kind])
      bindings[j][3] = wrap(['lit', TWINS[kind]])
  macros = [[m, draw(_value(1)), draw(st.sampled_from(['parse', 'bind']))]
            for m in draw(st.lists(st.sampled_from(MACROS), unique=True, max_size=3))]
  indent = draw(st.integers(0, 8))
  width = draw(st.integers(max(5, indent + 1), 120) | st.sampled_from([20, 40, 80]))
  width = max(width, indent + 1)
  return {'bindings': bindings, 'macros': macros, 'earlier_config': draw(st.integers(0, 3)) == 0,
          'missing_import': draw(st.sampled_from([0, 0, 0, 1, 2])),
          'late_registration': draw(st.integers(0, 2)) == 0,
          'imports': draw(st.lists(st.integers(0, len(IMPORTS) - 1), unique=True, max_size=3)),
          'perm': draw(st.integers(0, 10**6)), 'width': width, 'indent': indent}
