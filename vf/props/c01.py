"""C01 — injected arguments: caller's values over scope-layered bindings.

Case: a generated probe shape (function / class __init__ / class __new__ / registered method,
through configurable / register / external_configurable), a scope stack entered through
config_scope in every form, a binding set over prefix / sibling / longer / decoy scopes made
through bind_parameter (str and tuple keys) and parse_config (flat and block), and 1-3 calls with a
generated split of arguments into positional / keyword / omitted.  Oracle: the scope-overlay +
inspect.signature(original).bind model in vf/model/bindings.py.
"""
import contextlib

from hypothesis import strategies as st

from vf import ginenv
from vf.core import OutOfDomain, Violation, ok, require
from vf.gen import signatures as G
from vf.model import bindings as M

gin = ginenv.import_gin()

ID = 'C01'
LEVEL = 'exploration'
ISOLATE = True
BUDGET = {'quick': (16, 200), 'thorough': (16, 4000)}
RULE = ('shape (0-3 positional, 0-3 defaulted, *args?, 0-2 kw-only, 0-2 kw-only defaulted, **kw?; '
        'function/class __init__/class __new__/method; configurable/register/external) x scope '
        'stack of 0-4 config_scope entries (name, a/b shorthand, list, None, "") x 0-12 bindings '
        'over scopes related to the active one (every prefix, longer, sibling, suffix decoy, '
        'reversed, unrelated) via 4 binding APIs x 1-3 calls (0..n positionals incl. overflow '
        'into *args, keyword subset, extra **kw names). Non-trivial = >=2 scope levels contribute '
        'applicable bindings, one of them is overridden by a longer prefix or by the caller, and '
        'a non-prefix scope holds a binding for a parameter that is also bound applicably. '
        'Distinct = distinct case JSON.')
ASSUMPTIONS = ['no positional-only parameters (Gin passes bindings by keyword, documented)',
               'bound values are plain literals here (references: C04)',
               'a call Python itself cannot bind (TypeError) must raise TypeError through Gin too']
FLOORS = {'nontrivial': 0.08, 'kind:method': 0.08, 'kind:class_new': 0.08,
          'call:typeerror': 0.02, 'decoy-bound': 0.2}
TECHNIQUE = ('model-based property testing: generated signature x bindings x scope stack x call '
             'shape against an independent overlay + inspect.signature.bind reference model')
LEVEL_TEXT = ('Each generated call through Gin must deliver exactly the arguments computed by an '
              'independent 30-line model (prefix overlay, positional names dropped, caller kwargs '
              'win, Python defaults otherwise) and get_bindings must equal the overlay; thousands '
              'of generated (signature, binding set, scope stack, call shape) combinations '
              'including three-deep scopes, kw-only parameters and *args overflow. Exploration.')
LEVEL_NOTE = ('Trusted: inspect.signature(...).bind as the definition of how Python binds a call; '
              'the probe source generator; fork isolation.')

SCOPE_NAMES = ['s', 't', 'u']


def typed(x):
  """Type-aware, dict-order-insensitive canonical form (1, 1.0 and True are different values)."""
  if isinstance(x, dict):
    return ('dict', sorted((repr(k), typed(v)) for k, v in x.items()))
  if isinstance(x, (list, tuple)):
    return (type(x).__name__, [typed(v) for v in x])
  return (type(x).__name__, repr(x))


class _Odd:
  """A caller value with an unhelpful `==`: equal to everything ('any'), or returning an object
  that cannot be used as a bool ('arr', like a numpy array). Gin has no reason to compare caller
  values with anything; the function must receive this very object."""

  def __init__(self, kind, tag):
    self.kind, self.tag = kind, tag

  def __eq__(self, other):
    if self.kind == 'any':
      return True
    return _NoBool()

  __hash__ = None

  def __repr__(self):
    return f'<odd:{self.kind}:{self.tag}>'


class _NoBool:

  def __bool__(self):
    raise ValueError('The truth value of an array with more than one element is ambiguous.')


def _deodd(rec):
  """Replaces _Odd objects (top level of a call record) by plain tokens so records can be compared."""
  f = lambda v: ('odd', v.kind, v.tag) if isinstance(v, _Odd) else v
  return {'named': {k: f(v) for k, v in rec['named'].items()}, 'args': [f(v) for v in rec['args']],
          'kw': {k: f(v) for k, v in rec['kw'].items()}}


POISON = '<<POISON>>'
MUTABLE = {'<<SET>>': lambda: {'s1', 's2'}, '<<BYTEARRAY>>': lambda: bytearray(b'ab'),
           '<<BOX>>': lambda: _Box(['in', 'box'])}


class _Box:
  """A plain user object with mutable state (deep-copyable, compared by value)."""

  def __init__(self, items):
    self.items = items

  def __eq__(self, other):
    return isinstance(other, _Box) and self.items == other.items

  __hash__ = None

  def __repr__(self):
    return f'_Box({self.items!r})'


def _scribble(x):
  """What a careless callee does to a mutable argument."""
  if isinstance(x, set):
    x.add('scribbled')
  elif isinstance(x, bytearray):
    x.extend(b'!!')
  elif isinstance(x, _Box):
    x.items.append('scribbled')
  elif isinstance(x, list):
    x.append('scribbled')
  elif isinstance(x, dict):
    x['scribbled'] = True


class _Boom(Exception):
  pass


class _BaseExit(BaseException):
  pass


def _boom():
  raise _Boom('evaluated although the caller supplied the parameter')


def _plain(x):
  """Replaces reference objects (the poison binding) by the POISON token."""
  if isinstance(x, dict):
    return {k: _plain(v) for k, v in x.items()}
  return POISON if isinstance(x, gin.config.ConfigurableReference) else x


def _probe_call(built, args, kwargs):
  return built.call(args, kwargs)


def check_case(case):
  shape = case['shape']
  built = G.build(shape, gin)
  sig = built.signature()
  labels = {'kind:' + shape['kind'], 'api:' + shape['api']}
  if shape.get('configurable_base') and shape['api'] == 'configurable' and shape['kind'] in (
      'class_init', 'class_new'):
    labels.add('constructor-inherited-from-a-configurable-base')
  if shape.get('earlier_version') and shape['kind'] == 'function':
    labels.add('function-redefined-in-interactive-mode')
  if G.posonly_params(shape):
    labels.add('positional-only-leading-parameters')
  if shape.get('later_sibling') and shape.get('method_api') == 'register':
    labels.add('method-with-a-same-named-method-in-a-later-class')
  sel_full = built.selector
  spellings = {'full': sel_full, 'short': '.'.join(sel_full.split('.')[1:])}

  if shape.get('also_as') and shape['kind'] == 'function' and shape['api'] != 'configurable':
    # bindings of the *other* registration of the same function object never reach this one
    first_sel = sel_full.rsplit('.', 1)[0] + '.' + shape['also_as']
    for p in G.named_params(shape) + (G.EXTRA[:1] if shape['varkw'] else []):
      if p not in G.posonly_params(shape):
        gin.bind_parameter(('', first_sel, p), 'FIRST:' + p)
    labels.add('same-object-registered-under-two-names')
  # ---- make the bindings --------------------------------------------------------------
  model = {}
  # bindings may be made while some unrelated config scope is active: the scope a binding belongs
  # to is the one written in its key, nothing else
  with gin.config_scope(case.get('bind_ambient') or None):
    for i, (scope, param, value, api, spell) in enumerate(case['bindings']):
      sel = spellings[spell]
      key = (scope + '/' if scope else '') + sel
      model_value = value
      if isinstance(value, str) and value in MUTABLE:
        # a mutable object that is no list / tuple / dict, bound from Python (the model keeps a
        # separate, equal object: nobody may edit it)
        model_value, value = MUTABLE[value](), MUTABLE[value]()
        api = 'tuple' if api in ('parse', 'block') else api
        labels.add('bound-mutable-object')
      if api == 'str':
        gin.bind_parameter(f'{key}.{param}', value)
      elif api == 'tuple':
        gin.bind_parameter((scope, sel, param), value)
      elif api == 'parse':
        gin.parse_config(f'{key}.{param} = {value!r}')
      else:
        gin.parse_config(f'{key}:\n  {param} = {value!r}\n')
      model[(scope, param)] = model_value
      labels.add('bind:' + api)
    if case.get('poison'):
      # one parameter is bound to an evaluated reference that cannot be evaluated: harmless as long
      # as the caller supplies that parameter (Gin has no business evaluating a value it will not
      # pass), fatal for a call that relies on it
      gin.external_configurable(_boom, name='c01_boom', module='c01poison')
      scope, param = case['poison']
      gin.parse_config(f"{scope + '/' if scope else ''}{sel_full}.{param} = @c01_boom()")
      model[(scope, param)] = POISON
      labels.add('poison-binding')
  if case.get('bind_ambient'):
    labels.add('bindings-made-inside-a-scope')

  # ---- enter the scope stack -----------------------------------------------------------
  stack = M.ScopeStack()
  if case.get('failed_entry'):
    # an attempt to enter an invalid scope name fails and must leave nothing behind
    for bad in (3, 's/', 't//u', ['s', '1x']):
      try:
        with gin.config_scope(bad):
          raise Violation('invalid-scope-accepted', repr(bad))
      except (ValueError, TypeError):
        pass
    labels.add('failed-scope-entry-before-calls')
    # ... and a block left by something that is not an Exception (SystemExit, KeyboardInterrupt,
    # GeneratorExit in a generator closed early) and handled further out leaves nothing behind either
    try:
      with gin.config_scope('zz/left'):
        raise _BaseExit()
    except _BaseExit:
      pass

    def _gen():
      with gin.config_scope('zz/gen'):
        yield 1
    g = _gen()
    next(g)
    g.close()
    require(gin.current_scope() == [], 'active-scope',
            lambda: f'after blocks left by a BaseException / GeneratorExit: {gin.current_scope()}')
  captured = None
  if case.get('capture'):
    # a scope captured at a nested level (`with gin.config_scope(...) as s`) and entered again
    # later as an explicit list: the whole scope, not just its innermost part
    outer, inner = case['capture']
    with gin.config_scope(outer):
      with gin.config_scope(inner) as captured:
        pass
    labels.add('enter:captured-nested-scope')
  with contextlib.ExitStack() as es:
    for entry in case['entries'] + ([captured] if captured is not None else []):
      if entry is captured and captured is not None:
        es.enter_context(gin.config_scope(captured))
        stack.enter((case['capture'][0] + '/' + case['capture'][1]).split('/'))
        continue
      es.enter_context(gin.config_scope(entry))
      stack.enter(entry)
      labels.add('enter:' + ('list' if isinstance(entry, list) else
                             'clear' if entry in (None, '') else
                             'shorthand' if '/' in entry else 'name'))
    active = stack.current
    require(gin.current_scope() == active, 'active-scope',
            lambda: f'current_scope()={gin.current_scope()} model={active}')
    applicable = M.overlay(model, active)

    # get_bindings under the active scope == overlay; strict == exact scope only
    target = (sel_full if shape['kind'] in ('method', 'callobj', 'boundmethod')
              else (built.cls or built.original))
    # (get_bindings hands out a deep copy, which *evaluates* evaluated references: it is not
    # asked about a configuration holding the poison reference)
    if not case.get('poison'):
      got = gin.get_bindings(target)
      require(got == applicable, 'get_bindings',
              lambda: f'active={active} got={got} model={applicable} bindings={sorted(model)}')
      got = gin.get_bindings(sel_full, inherit_scopes=False)
      require(got == M.exact(model, '/'.join(active)), 'get_bindings-strict',
              lambda: f'active={active} got={got} model={M.exact(model, "/".join(active))}')

    if case.get('finalize'):
      gin.finalize()
      labels.add('finalized')
    for call in case['calls']:
      rb = call.get('rebind')
      if rb is not None and model:
        # a binding is changed (or added) between two calls; on a finalized config this goes
        # through unlock_config. Later calls must see it wherever the scope overlay reaches it.
        keys = sorted(model)
        scope, param = keys[rb[0] % len(keys)]
        if rb[2]:
          scope = '/'.join(scope.split('/')[:-1]) if scope else scope     # a proper prefix
        new_value = 'R%d' % rb[1]
        old_value = model[(scope, param)] if (scope, param) in model else None
        if type(old_value) is int and rb[1] % 2 == 0:
          new_value = float(old_value)      # equal under ==, different type: still a new value
        elif type(old_value) is list and rb[1] % 2 == 0:
          new_value = tuple(old_value)
        with gin.unlock_config():
          gin.bind_parameter((scope, sel_full, param), new_value)
        model[(scope, param)] = new_value
        labels.add('rebind-between-calls')
      if call.get('reenter') is not None:
        # a scope list that is active somewhere down the stack (an explicit list, a captured
        # scope) is entered once more on top and left again: the stack below is as it was
        live = [e for e in case['entries'] + ([captured] if captured is not None else [])
                if isinstance(e, list)]
        if live:
          obj = live[call['reenter'] % len(live)]
          with gin.config_scope(obj):
            require(gin.current_scope() == list(obj), 'active-scope',
                    lambda: f're-entered {obj}: current_scope()={gin.current_scope()}')
          require(gin.current_scope() == stack.current, 'active-scope',
                  lambda: f'after re-entering and leaving the active list {obj}: '
                          f'current_scope()={gin.current_scope()} model={stack.current}')
          labels.add('reenter-active-scope-list-and-leave')
      extra_entry = call.get('enter')
      ctx = gin.config_scope(extra_entry) if extra_entry is not None else contextlib.nullcontext()
      with ctx:
        if extra_entry is not None:
          stack.enter(extra_entry)
        act = stack.current
        app = M.overlay(model, act)
        # caller values are passed as fresh mutable objects: "reaches the function unchanged"
        # is checked by value and by identity
        odd = call.get('odd') or {}
        wrap = lambda key, v: _Odd(odd[key], v) if key in odd else [v]
        args = [wrap(str(i), a) for i, a in enumerate(call['args'])]
        kwargs = {k: wrap(k, v) for k, v in call['kwargs'].items()}
        if odd:
          labels.add('caller-value-with-odd-eq')
        verdict, exp = M.expected_call(sig, args, kwargs, app)
        n_before = len(built.log)
        relied_on = [p for p, v in app.items() if v == POISON and p not in kwargs and
                     p not in M.positional_names(sig, len(args))]
        via = call.get('via')
        if via and shape['kind'] == 'function':
          # the configurable is obtained through a selector string that carries a scope, while the
          # stack is active: it runs under exactly that scope, wherever it was obtained or called
          act = via.split('/')
          app = M.overlay(model, act)
          verdict, exp = M.expected_call(sig, args, kwargs, app)
          relied_on = [p for p, v in app.items() if v == POISON and p not in kwargs and
                       p not in M.positional_names(sig, len(args))]
          scoped_fn = gin.get_configurable(f'{via}/{sel_full}')
          labels.add('call-through-scoped-selector')
        else:
          scoped_fn = None
        rec = None
        try:
          rec = scoped_fn(*args, **kwargs) if scoped_fn else _probe_call(built, args, kwargs)
          raised = None
        except TypeError as e:
          raised = e
        except _Boom as e:
          require(relied_on, 'binding-evaluated-although-caller-supplied-the-parameter',
                  lambda: f'{e}\nargs={args} kwargs={kwargs} applicable={app} scope={act}')
          require(len(built.log) == n_before, 'body-ran-despite-failed-reference', '')
          labels.add('call:poison-relied-on')
          if extra_entry is not None:
            stack.exit()
          continue
        except ValueError as e:
          if 'truth value' not in str(e):
            raise
          raise Violation('caller-value-compared', f'Gin used == / bool() on a caller value: {e}\n'
                          f'args={args} kwargs={kwargs} applicable={app}')
        if relied_on:
          require(raised is not None and verdict == 'TypeError', 'unevaluable-reference-ignored',
                  lambda: f'{relied_on} bound to @c01_boom() and not supplied, yet the call '
                          f'returned {rec}')
        elif any(v == POISON for v in app.values()):
          labels.add('call:poison-overridden-by-caller')
        if verdict == 'TypeError':
          require(raised is not None, 'typeerror-expected',
                  lambda: f'Python cannot bind this call ({exp}) but Gin delivered {rec}')
          require(len(built.log) == n_before, 'body-ran-despite-typeerror', '')
          labels.add('call:typeerror')
        else:
          require(raised is None, 'unexpected-typeerror',
                  lambda: f'{raised}\nargs={args} kwargs={kwargs} applicable={app} scope={act}')
          seen = list(rec['named'].values()) + list(rec['args']) + list(rec['kw'].values())
          got_rec = _deodd(rec)
          exp = _deodd(exp)
          require(got_rec == exp and typed(got_rec) == typed(exp), 'arguments-differ',
                  lambda: f'scope={act} args={args} kwargs={kwargs}\n bindings={sorted(model.items())}'
                          f'\n got  {got_rec}\n model {exp}')
          require(rec['scope'] == '/'.join(act), 'scope-seen-by-body',
                  lambda: f"{rec['scope']!r} vs {act}")
          for obj in args + list(kwargs.values()):
            require(any(x is obj for x in seen), 'caller-value-not-the-same-object',
                    lambda: f'the caller passed {obj!r}; the function received an equal copy, '
                            f'not that object')
          labels.add('call:ok')
          # the callee edits what it was given in place: later calls and queries still see the
          # values as bound
          for x in list(rec['named'].values()) + list(rec['kw'].values()):
            if not any(x is o for o in args + list(kwargs.values())):
              _scribble(x)
        if extra_entry is not None:
          stack.exit()
    # ---- classify ------------------------------------------------------------------------
    contributing = {}
    for i in range(len(active) + 1):
      prefix = '/'.join(active[:i])
      for (scope, param) in model:
        if scope == prefix:
          contributing.setdefault(param, []).append(i)
    levels = {lv for lvls in contributing.values() for lv in lvls}
    overridden = any(len(lvls) > 1 for lvls in contributing.values())
    first_call = case['calls'][0]
    supplied = set(M.positional_names(sig, len(first_call['args']))) | set(first_call['kwargs'])
    caller_override = bool(supplied & set(applicable))
    prefixes = {'/'.join(active[:i]) for i in range(len(active) + 1)}
    decoy = any(scope not in prefixes and param in applicable for (scope, param) in model)
    if decoy:
      labels.add('decoy-bound')
    if overridden:
      labels.add('longer-prefix-overrides')
    if caller_override:
      labels.add('caller-overrides-binding')
    if len(active) >= 3:
      labels.add('depth>=3')
  require(gin.current_scope() == [], 'scope-not-restored', str(gin.current_scope()))
  nt = len(levels) >= 2 and (overridden or caller_override) and decoy
  if nt:
    labels.add('nontrivial')
  return ok(labels, nt)


# ------------------------------------------------------------------------------ strategies
_entry = st.one_of(
    st.sampled_from(SCOPE_NAMES), st.sampled_from(SCOPE_NAMES),
    st.lists(st.sampled_from(SCOPE_NAMES), min_size=2, max_size=3).map('/'.join),
    st.lists(st.sampled_from(SCOPE_NAMES), min_size=0, max_size=3),
    st.sampled_from([None, '']))

FALSY = [0, None, False, '', [], {}, 0.0]


@st.composite
def strategy(draw):
  shape = draw(G.shapes(kinds=('function', 'function', 'class_init', 'class_new', 'class_new', 'method',
                               'method', 'callobj', 'boundmethod')))
  if shape['kind'] in ('callobj', 'boundmethod') and shape['api'] == 'configurable':
    shape['api'] = 'external'
  if shape['kind'] == 'method' and draw(st.booleans()):
    shape['later_sibling'] = True
  if shape['kind'] in ('class_init', 'class_new') and shape['api'] == 'configurable' and draw(
      st.booleans()):
    shape['configurable_base'] = draw(st.sampled_from([1, 1, 2]))
  if shape['kind'] == 'function' and shape['api'] != 'configurable' and draw(st.integers(0, 2)) == 0:
    shape['also_as'] = 'c01first'       # the same function object, registered under this name first
  elif shape['kind'] == 'function' and (shape['pos'] or shape['dflt']) and draw(
      st.integers(0, 3)) == 0:
    shape['earlier_version'] = True     # redefined in interactive mode with another parameter order
  if (shape['kind'] == 'function' and shape['pos'] and not shape.get('earlier_version') and
      draw(st.integers(0, 3)) == 0):
    # def f(a, /, b, c='D:c', ...): the leading parameters are positional-only -- never bound, and
    # the names of the parameters that the caller's positional arguments fill still count from them
    shape['posonly_pos'] = draw(st.integers(1, len(shape['pos'])))
  entries = draw(st.lists(_entry, min_size=0, max_size=4))
  capture = None
  if draw(st.integers(0, 5)) == 0:
    capture = [draw(st.sampled_from(SCOPE_NAMES)), draw(st.sampled_from(SCOPE_NAMES + ['s/t']))]
  stack = M.ScopeStack()
  for e in entries + ([(capture[0] + '/' + capture[1]).split('/')] if capture else []):
    stack.enter(e)
  active = stack.current
  pool = ([p for p in G.named_params(shape) if p not in G.posonly_params(shape)] +
          (G.EXTRA if shape['varkw'] else []))
  prefixes = ['/'.join(active[:i]) for i in range(len(active) + 1)]
  others = ['/'.join(active + ['s']), '/'.join(active[:-1] + ['zz']) if active else 'zz',
            '/'.join(active[1:]) if len(active) >= 2 else 'u/t',
            '/'.join(reversed(active)) if len(active) >= 2 else 't/s', 's', 't/u', 'S']
  others = [o for o in others if o not in prefixes]
  scope_st = st.one_of(st.sampled_from(prefixes), st.sampled_from(prefixes),
                       st.sampled_from(others) if others else st.sampled_from(prefixes))
  bindings = []
  if pool:
    n = draw(st.integers(0, 12))
    focus = draw(st.sampled_from(pool))
    for i in range(n):
      param = draw(st.sampled_from([focus]) | st.sampled_from(pool))
      value = draw(st.just('B%d' % i) | st.just('B%d' % i) | st.just(100 + i) | st.just([i, 0]) |
                   st.sampled_from(FALSY) | st.sampled_from(sorted(MUTABLE)))
      bindings.append([draw(scope_st), param, value,
                       draw(st.sampled_from(['str', 'tuple', 'parse', 'block'])),
                       draw(st.sampled_from(['full', 'short']))])
  positional = shape['pos'] + shape['dflt']
  calls = []
  for j in range(draw(st.integers(1, 4))):
    max_pos = len(positional) + (2 if shape['varargs'] else (1 if draw(st.integers(0, 9)) == 0
                                                             else 0))
    n_pos = draw(st.integers(min(len(G.posonly_params(shape)), max_pos)
                             if draw(st.integers(0, 7)) else 0, max_pos))
    args = ['C%d.%d' % (j, i) for i in range(n_pos)]
    rest = [p for p in G.named_params(shape) if p not in positional[:n_pos]]
    kw_names = draw(st.lists(st.sampled_from(rest), unique=True, max_size=len(rest))
                    if rest else st.just([]))
    # mostly fill the required ones so that calls succeed
    if draw(st.integers(0, 3)) != 0:
      for p in shape['pos'][n_pos:] + shape['kwonly']:
        if p not in kw_names and (p not in [b[1] for b in bindings] or draw(st.booleans())):
          kw_names.append(p)
    if shape['varkw'] and draw(st.booleans()):
      kw_names += draw(st.lists(st.sampled_from(G.EXTRA), unique=True, max_size=2))
    elif draw(st.integers(0, 11)) == 0:
      kw_names.append('zz_unknown')
    if positional[:n_pos] and draw(st.integers(0, 14)) == 0:
      kw_names.append(positional[0])      # duplicate: positional and keyword -> TypeError
    call = {'args': args, 'kwargs': {k: 'K%d.%s' % (j, k) for k in dict.fromkeys(kw_names)}}
    if draw(st.integers(0, 3)) == 0:
      call['enter'] = draw(_entry)
    keys = [str(i) for i in range(n_pos)] + list(call['kwargs'])
    if keys and draw(st.integers(0, 3)) == 0:
      call['odd'] = {k: draw(st.sampled_from(['any', 'arr']))
                     for k in draw(st.lists(st.sampled_from(keys), unique=True, min_size=1, max_size=3))}
    if shape['kind'] == 'function' and draw(st.integers(0, 4)) == 0:
      call['via'] = draw(st.sampled_from(['s', 't', 's/t', 'u/s', 'zz']))
    if draw(st.integers(0, 4)) == 0:
      call['reenter'] = draw(st.integers(0, 3))
    if j > 0 and draw(st.integers(0, 2)) == 0:
      call['rebind'] = [draw(st.integers(0, 11)), j, draw(st.booleans())]
    calls.append(call)
  poison = None
  if pool and draw(st.integers(0, 3)) == 0:
    poison = [draw(scope_st), draw(st.sampled_from([focus]) | st.sampled_from(pool))]
  return {'shape': shape, 'entries': entries, 'bindings': bindings, 'calls': calls,
          'poison': poison, 'capture': capture,
          'finalize': draw(st.integers(0, 2)) == 0,
          'bind_ambient': draw(st.sampled_from(['', '', 's', 'zz/t'])),
          'failed_entry': draw(st.integers(0, 3)) == 0}
