"""C12 — finalize locks the configuration; unlock_config always restores the lock.

A case is a history: an interpreted list of operations (finalize, unlock_config blocks with an
arbitrary nested body and an exit path, bind_parameter, parse_config, registration of a new
configurable, clear_config, registration of a finalize hook).  One forked child per history.  A
small reference model (lock bit + config dict + hook list + registry) written from the property
text predicts, after every single operation, what Gin must report through its public API.
"""
import itertools
import sys
import threading
import types

from hypothesis import strategies as st

from vf import ginenv
from vf.core import OutOfDomain, Violation, ok, require

gin = ginenv.import_gin()

ID = 'C12'
LEVEL = 'exploration'
ISOLATE = True
BUDGET = {'quick': (8, 160), 'thorough': (16, 1500)}
RULE = ('A case is an interpreted op list over {finalize; unlock_config block with a nested op '
        'list as body and exit path in {normal, raise Exception, raise BaseException, a failing '
        'Gin call propagating, break}; the same block in decorator form -- one '
        '`gin.unlock_config()` manager object decorating a function that re-enters itself 1-3 '
        'levels deep, the innermost level running a nested op list and leaving normally, by an '
        'exception through every level, or by one the level above catches; called 1-2 times; '
        'a thread block running a nested op list in a fresh thread that is started and joined '
        'at once; bind_parameter (str/tuple key, 2 spellings, scoped); '
        'parse_config (flat, block, two statements, macro definition, %macro reference top-level '
        'or nested, unevaluated @M/gin.macro, @unknown() placeholder via skip_unknown=True '
        'top-level or nested, each of those three also as a dict key / inside a tuple dict key / as a '
        'dict value, %gin.REQUIRED, a constant other than gin.REQUIRED, a reference to a '
        'known configurable, and a two-parameter section with one parameter left at '
        '%gin.REQUIRED and the other bound to constant/literal/reference/macro in either order); '
        'register a new configurable (configurable / '
        'register / external_configurable; a new name, or -- inside interactive mode only -- an '
        'existing name with a different function, or -- while locked only -- a class carrying a '
        'method registered earlier with @gin.register / a plain class); an interactive_mode() block with a nested op '
        'list as body; finalize optionally called inside an active config_scope and/or through '
        'parse_config_files_and_bindings; clear_config; '
        'register a finalize hook in {returns '
        'None, returns {}, returns a binding, returns the parameter of an earlier hook under a '
        'different spelling, returns an invalid binding, raises}}. Operands are small ints taken '
        'modulo the model state. Source 1: bounded exhaustive sweep of all sequences of length '
        '<=3 (quick) / <=4 (thorough) over a fixed 23-op alphabet, plus a ~1900-case product sweep '
        'of the variants the alphabet has one representative of (5 exit paths x 8 bodies x '
        'locked/unlocked x 5 follow-ups; 6 bad-value kinds x 2 macros x macro bound/unbound x '
        'binding hook or not x 4 repairs x finalize inside a config scope or not; 384 two-parameter '
        'sections (REQUIRED x other value kind x both binding orders x both name orders x made by '
        'one flat/block parse or two operations x scoped section or not x scoped finalize or '
        'not); all pairs of 15 '
        'hook variants; 51 mutator forms on a locked config; the same forms plus 9 '
        're-registrations inside interactive mode, locked / in an unlock block / after clear). '
        'Source 2: Hypothesis histories: free op lists (<=14 top-level ops, '
        'unlock bodies <=4 ops, nesting depth <=3) mixed with two scenario shapes (benign prefix, '
        'finalize, raising/nested unlock, suffix; prefix, 1-2 rejection causes, finalize, '
        'suffix). After every op '
        'the model is compared with config_is_locked(), query_parameter over the whole parameter '
        'universe, and config_str() before/after every operation that must change nothing. '
        'Non-trivial = a finalize succeeded, later an unlock_config block entered (directly or '
        'through an enclosing block) while locked was left by an exception or contained/was a '
        'nested block, and after that exit a mutation (bind/parse/register) was attempted. '
        'Distinct = distinct case JSON.')
ASSUMPTIONS = [
    'finalize hooks persist across clear_config ("runs every hook"; nothing documents their '
    'removal) and run in any order; a hook is required to run at least once per successful '
    'finalize, more is not asserted',
    'a locked mutator must raise RuntimeError (documented in the Raises sections of '
    'bind_parameter and the registration decorators; parse_config re-raises a subclass); a '
    'rejected finalize may raise any Exception subclass',
    'a hook returning a binding for an unknown configurable / unknown parameter / a key of an '
    'invalid type makes finalize reject (C11 lists finalize hooks among the binding paths); what '
    'C12 adds and what is checked here is that the rejection leaves the config unlocked and '
    'unmodified even when other hooks returned valid bindings',
    'inside an unlock_config block the configuration is unlocked; finalize inside a block locks '
    'it for the rest of the block and the block exit restores the state held on entry (so '
    '`with unlock_config(): finalize()` on an unlocked config ends unlocked, as the statement '
    'says); clear_config inside a block entered while locked ends locked and empty',
    'not asserted (property ambiguous): whether a finalize that unlock_config makes possible '
    'after an earlier successful finalize (no clear_config in between) succeeds or is refused as '
    '"finalizing twice"; both are accepted, a refusal must change nothing',
    'not asserted (property silent): imports-only / skipped-statement parses while locked; '
    'whether register_finalize_hook may be called while locked (a refusal is counted '
    'out-of-domain); whether a second finalize runs the hooks before raising; nested '
    '%gin.REQUIRED values (only top-level values are generated); the class of the exception a '
    'rejected finalize raises; names used as unknown references are never registered later',
    'the object returned by gin.unlock_config() is also usable as a decorator (it is a '
    'contextlib context manager) and every activation of it -- including several simultaneous '
    'ones through recursion of the decorated function -- is an unlock_config block of its own; '
    'one manager object is never re-used as a `with` target (a generator-based manager is '
    'one-shot there, so pristine refuses it)',
    'the lock is one process-wide state (the anchor is a module-level boolean): ops run in a '
    'fresh, immediately joined worker thread are held to the same model as on the main thread -- '
    'no concurrency, so no schedule; config scopes are per thread and play no role here',
    'interactive mode (gin.config.interactive_mode(), always the block form, never nested) only '
    'waives duplicate-name checks: it is not a way out of the lock, so every locked mutator must '
    'still raise RuntimeError and change nothing (a re-registered name must still resolve to the '
    'identical object) and nothing else about the lock may change; re-registration of an '
    'existing name is attempted only inside interactive mode, and while unlocked only a lock '
    'error from it is a violation (whether it succeeds is not C12)',
    'a class registration is attempted only while locked (a successful one renames the methods '
    'registered on the class -- documented behaviour, not C12); after the refusal the method '
    'c12_probes.mth must resolve by both old spellings to the identical object and keep its '
    'bindings, nm.Net / Net.mth must be unknown, and vars(cls) must hold the identical objects',
    'additionally asserted although it is C09/C16 territory (it cannot fail on a tree where C12 '
    'holds): gin.current_scope() right after every finalize, accepted or rejected, and after '
    'leaving the surrounding config_scope block, equals what it was before',
    'what finalize accepts or rejects does not depend on an active config scope '
    '(`with gin.config_scope("zs"): gin.finalize()`); the scope zs is used by no binding',
    'the config argument handed to a hook is a mapping (scope, selector) -> {parameter: value} '
    '(documented hook interface); the selector is matched to the registered name by dotted '
    'suffix, not compared literally',
]
# Floors are measured on the Hypothesis histories only ('hyp:' copies of the labels), so the
# exhaustive sweep cannot mask a degenerate random generator.
FLOORS = {
    'hyp:nontrivial': (0.05, 'gen:hyp'),
    'hyp:unlock:exit-by-exception-while-locked': (0.05, 'gen:hyp'),
    'hyp:unlock:nested-while-locked': (0.03, 'gen:hyp'),
    'hyp:unlock:decorator-recursive-while-locked': (0.03, 'gen:hyp'),
    'hyp:locked:mutator-rejected-in-worker-thread': (0.03, 'gen:hyp'),
    'hyp:unlock:in-worker-thread-while-locked': (0.01, 'gen:hyp'),
    'hyp:locked:mutator-rejected': (0.15, 'gen:hyp'),
    'hyp:finalize:ok': (0.30, 'gen:hyp'),
    'hyp:finalize:twice': (0.05, 'gen:hyp'),
    'hyp:finalize:hook-bindings-applied': (0.05, 'gen:hyp'),
    'hyp:finalize:rejected:hook': (0.05, 'gen:hyp'),
    'hyp:finalize:rejected:config': (0.05, 'gen:hyp'),
    'hyp:finalize:rejected:with-valid-hook-binding': (0.03, 'gen:hyp'),
    'hyp:finalize:sole-cause:hook-conflict-other-spelling': (0.01, 'gen:hyp'),
    'hyp:finalize:sole-cause:hook-invalid-binding': (0.01, 'gen:hyp'),
    'hyp:finalize:sole-cause:hook-raises': (0.01, 'gen:hyp'),
    'hyp:finalize:sole-cause:config-macro-unbound': (0.01, 'gen:hyp'),
    'hyp:finalize:sole-cause:config-macro-unevaluated': (0.01, 'gen:hyp'),
    'hyp:finalize:sole-cause:config-unknown-reference': (0.01, 'gen:hyp'),
    'hyp:finalize:sole-cause:config-required': (0.01, 'gen:hyp'),
    'hyp:clear:while-locked': (0.03, 'gen:hyp'),
    'hyp:locked:register-rejected': (0.05, 'gen:hyp'),
    'hyp:locked:register-interactive-rejected': (0.01, 'gen:hyp'),
    'hyp:finalize:inside-config-scope': (0.05, 'gen:hyp'),
    'hyp:finalize:rejected-inside-config-scope': (0.05, 'gen:hyp'),
    'hyp:locked:register-class-rejected': (0.01, 'gen:hyp'),
    'hyp:finalize:required-after-other-constant-in-section': (0.01, 'gen:hyp'),
}
TECHNIQUE = ('model-based property testing: operation histories (bounded exhaustive sweep + '
             'Hypothesis) against a lock-bit/config/hook reference model, one forked process per '
             'history')
LEVEL_TEXT = ('Every sequence of length <=3 (quick) / <=4 (thorough) over a 23-operation alphabet '
              'covering each operation class of the property is executed exhaustively, and '
              'Hypothesis adds longer histories with nested unlock bodies; after every operation '
              'the lock flag, every binding of the parameter universe and (for operations that '
              'must change nothing) the config string are compared with a reference model written '
              'from the property text; hooks record the config they were shown. Exploration: no '
              'counter-example within the generated space, exhaustive only within the stated '
              'sweep bound.')
LEVEL_NOTE = ('Trusted: the ~150-line reference model; query_parameter/config_str/'
              'config_is_locked as observers (a defect that corrupts a binding outside the '
              'universe {"", s} x {pm.f, pm.g, c12_probes.mth, nm.n0..n2} x {a, b} + macros M0, M1 and also hides '
              'it from config_str is not seen). Single-threaded only; generator-based exits '
              '(GeneratorExit) and exceptions raised by unlock_config itself are not generated.')

SCOPES = ['', 's']
PARAMS = ['a', 'b']
MACROS = ['M0', 'M1']
METHOD = 'c12_probes.mth'       # Net.mth, registered with a bare @gin.register; Net itself never is
BASE = ['pm.f', 'pm.g', METHOD]
NEW = ['nm.n0', 'nm.n1', 'nm.n2']
MACRO_SEL = 'gin.macro'

PROBE_SRC = '''
def f(a=0, b=0):
  return ('f', a, b)
def g(a=0, b=0):
  return ('g', a, b)
def n0(a=0, b=0):
  return ('n0', a, b)
def n1(a=0, b=0):
  return ('n1', a, b)
def n2(a=0, b=0):
  return ('n2', a, b)
class Net:
  def __init__(self, a=0, b=0):
    self.ab = (a, b)
  @gin.register
  def mth(self, a=0, b=0):
    return ('mth', a, b)
class Late:
  def __init__(self, a=0, b=0):
    self.ab = (a, b)
def make_alt(name, k):
  def alt(a=0, b=0):
    return (name + '#' + str(k), a, b)
  alt.__name__ = alt.__qualname__ = name
  return alt
'''


class _Boom(Exception):
  pass


class _BaseBoom(BaseException):
  pass


class _HookBoom(Exception):
  pass


EXIT_NORMAL, EXIT_RAISE, EXIT_BASE, EXIT_GINCALL, EXIT_BREAK = range(5)
EXIT_CAUGHT = 5   # decorator form only: the innermost level raises, the level above catches it
RAISING = (EXIT_RAISE, EXIT_BASE, EXIT_GINCALL)

PARSE_KINDS = ['flat', 'block', 'two', 'macrodef', 'macroref', 'macroref_nested', 'uneval',
               'unknown', 'unknown_nested', 'required']
# 'pair': two statements for ONE (scope, configurable) section -- one parameter left at
# %gin.REQUIRED, the other bound to a constant / literal / reference / macro, in either order.
GOOD_PARSE_KINDS = ['flat', 'block', 'two', 'macrodef', 'constref', 'ref']
# '<base>@<place>': the offending reference of <base> placed as a dict key, inside a tuple used
# as a dict key, or as a dict value (besides top level and list/tuple element)
PLACED_KINDS = [b + '@' + pl for b in ('macroref', 'uneval', 'unknown')
                for pl in ('key', 'tuplekey', 'dictvalue')]
BAD_PARSE_KINDS = PARSE_KINDS[4:] + ['pair', 'pair'] + PLACED_KINDS
ALL_PARSE_KINDS = PARSE_KINDS + ['constref', 'ref', 'pair'] + PLACED_KINDS
PAIR_OTHER = ['const', 'lit', 'ref', 'macro']
CONSTANT = 'c12k.KC'
HOOK_KINDS = ['none', 'empty', 'bind', 'dup', 'invalid', 'raise']
MUTATORS = ('bind', 'parse', 'register')


def _is_lit(v):
  return isinstance(v, int) and not isinstance(v, bool)


def _norm_value(v):
  return v if _is_lit(v) else '*'


class _Run:
  """Interpreter: drives Gin and the reference model side by side."""

  def __init__(self):
    mod = types.ModuleType('c12_probes')
    sys.modules['c12_probes'] = mod
    mod.gin = gin
    exec(PROBE_SRC, mod.__dict__)  # pylint: disable=exec-used
    self.mod = mod
    gin.configurable('f', module='pm')(mod.f)
    gin.configurable('g', module='pm')(mod.g)
    gin.constant(CONSTANT, 7)      # a constant other than gin.REQUIRED
    # ---- model ----
    self.constants = True           # False after clear_config(clear_constants=True)
    self.locked = False
    self.finalized = False  # a finalize succeeded and no clear_config happened since
    self.config = {}       # (scope, full selector) -> {param: ('lit', n) | ('mref', M) | (kind,)}
    self.registry = list(BASE)
    self.hooks = []        # specs in registration order
    # ---- bookkeeping ----
    self.labels = set()
    self.nontrivial = False
    self.locked_entry_depth = 0     # number of enclosing unlock blocks entered while locked
    self.special_exit_seen = False
    self.interactive = False        # inside a `with gin.config.interactive_mode():` block
    self.thread_depth = 0           # > 0 while ops run in a worker thread
    self.alt_count = 0
    self.observe('initial')

  # ------------------------------------------------------------------ helpers
  def target(self, si, ci, pi):
    return (SCOPES[si % len(SCOPES)], self.registry[ci % len(self.registry)],
            PARAMS[pi % len(PARAMS)])

  @staticmethod
  def selectors(full):
    return [full.split('.', 1)[1], full]

  def spell(self, scope, full, param, sp, forms=4):
    """One of 4 spellings of a binding key: short/full selector x str/tuple key."""
    sp %= forms
    sel = self.selectors(full)[sp % 2]
    if sp >= 2:
      return (scope, sel, param)
    return f'{scope}/{sel}.{param}' if scope else f'{sel}.{param}'

  def full_of(self, sel):
    if sel == MACRO_SEL or sel == 'macro':
      return MACRO_SEL
    hits = [n for n in BASE + NEW if n == sel or n.endswith('.' + sel)]
    return hits[0] if len(hits) == 1 else sel

  def snapshot_of(self, config):
    """Normalises the mapping a hook receives (copied at call time)."""
    out = {}
    for key, params in config.items():
      scope, sel = key
      params = {p: _norm_value(v) for p, v in dict(params).items()}
      if params:
        out[f'{scope}|{self.full_of(sel)}'] = params
    return out

  def model_snapshot(self):
    out = {}
    for (scope, full), params in self.config.items():
      if params:
        out[f'{scope}|{full}'] = {p: (v[1] if v[0] == 'lit' else '*') for p, v in params.items()}
    return out

  def universe(self):
    for scope in SCOPES:
      for full in self.registry:
        for param in PARAMS:
          yield (scope, full), param, (f'{scope}/{full}.{param}' if scope else f'{full}.{param}')
    for m in MACROS:
      yield (m, MACRO_SEL), 'value', '%' + m

  def observe(self, ctx):
    """Compares everything observable with the model."""
    got = gin.config_is_locked()
    require(bool(got) == self.locked, ctx + ':lock-state',
            lambda: f'config_is_locked() = {got!r}, model says locked = {self.locked}')
    for key, param, query in self.universe():
      exp = self.config.get(key, {}).get(param)
      try:
        val = gin.query_parameter(query)
        bound = True
      except ValueError:
        val, bound = None, False
      if exp is None:
        require(not bound, ctx + ':unexpected-binding',
                lambda: f'{query} is bound to {val!r}; the model has no such binding')
      else:
        require(bound, ctx + ':binding-lost', lambda: f'{query} is not bound; model: {exp}')
        if exp[0] == 'lit':
          require(_is_lit(val) and val == exp[1], ctx + ':binding-value',
                  lambda: f'{query} = {val!r}, model: {exp[1]!r}')
        else:
          require(not _is_lit(val), ctx + ':binding-value',
                  lambda: f'{query} = {val!r}, model: a {exp[0]} reference')

  def expect_locked(self, fn, what):
    """A mutator on a locked config: RuntimeError, nothing changes."""
    before = gin.config_str()
    try:
      fn()
    except RuntimeError:
      pass
    except Exception as e:  # pylint: disable=broad-except
      raise Violation(f'locked:{what}:raised-other-than-RuntimeError',
                      f'{type(e).__name__}: {str(e)[:200]}')
    else:
      # say what happened before complaining: did the mutation go through?
      try:
        self_changed = gin.config_str() != before
      except Exception as e:  # pylint: disable=broad-except
        self_changed = f'config_str() now fails with {type(e).__name__}'
      raise Violation(f'locked:{what}:did-not-raise',
                      f'config is locked, {what} returned normally '
                      f'(config_str changed: {self_changed})')
    try:
      after = gin.config_str()
    except Exception as e:  # pylint: disable=broad-except
      raise Violation(f'locked:{what}:config-str-broken',
                      f'the call raised, and now config_str() fails: {type(e).__name__}: '
                      f'{str(e)[:160]}')
    require(after == before, f'locked:{what}:config-changed',
            'the call raised but config_str() differs')
    self.observe(f'locked:{what}')
    self.labels.add('locked:mutator-rejected')
    self.labels.add(f'locked:{what}-rejected')
    if self.thread_depth:
      self.labels.add('locked:mutator-rejected-in-worker-thread')

  def mutation_attempt(self):
    if self.special_exit_seen:
      self.nontrivial = True
      self.labels.add('mutation-after-special-unlock-exit')

  # ------------------------------------------------------------------ ops
  def exec_ops(self, ops, depth):
    for op in ops:
      kind = op[0]
      if kind == 'finalize':
        self.op_finalize(op)
      elif kind == 'unlock':
        self.op_unlock(op, depth)
      elif kind == 'interactive':
        self.op_interactive(op, depth)
      elif kind == 'unlock_rec':
        self.op_unlock_rec(op, depth)
      elif kind == 'thread':
        self.op_thread(op, depth)
      elif kind == 'bind':
        self.op_bind(op)
      elif kind == 'parse':
        self.op_parse(op)
      elif kind == 'register':
        self.op_register(op)
      elif kind == 'clear':
        self.op_clear(op)
      elif kind == 'hook':
        self.op_hook(op)
      else:
        raise OutOfDomain(f'unknown op {kind!r}')

  def op_bind(self, op):
    _, si, ci, pi, sp, val = op
    scope, full, param = self.target(si, ci, pi)
    key = self.spell(scope, full, param, sp)
    self.mutation_attempt()
    if self.locked:
      self.expect_locked(lambda: gin.bind_parameter(key, val), 'bind')
      return
    gin.bind_parameter(key, val)
    self.config.setdefault((scope, full), {})[param] = ('lit', val)
    self.labels.add('bind:ok')
    self.observe('bind')

  def parse_plan(self, op):
    _, kind, si, ci, pi, sp, val = op
    scope, full, param = self.target(si, ci, pi)
    sel = self.selectors(full)[sp % 2]
    ssel = f'{scope}/{sel}' if scope else sel
    lhs = f'{ssel}.{param}'
    macro = MACROS[val % 2]
    key = (scope, full)
    skip = False
    if kind == 'flat':
      text, upd = f'{lhs} = {val}', [(key, param, ('lit', val))]
    elif kind == 'block':
      text, upd = f'{ssel}:\n  {param} = {val}\n', [(key, param, ('lit', val))]
    elif kind == 'two':
      other = PARAMS[(PARAMS.index(param) + 1) % 2]
      text = f'{lhs} = {val}\n{ssel}.{other} = {val + 1}'
      upd = [(key, param, ('lit', val)), (key, other, ('lit', val + 1))]
    elif kind == 'macrodef':
      text, upd = f'{macro} = {val}', [((macro, MACRO_SEL), 'value', ('lit', val))]
    elif kind == 'macroref':
      text, upd = f'{lhs} = %{macro}', [(key, param, ('mref', macro))]
    elif kind == 'macroref_nested':
      text, upd = f'{lhs} = [{val}, (%{macro},)]', [(key, param, ('mref', macro))]
    elif kind == 'uneval':
      text, upd = f'{lhs} = @{macro}/gin.macro', [(key, param, ('uneval', macro))]
    elif kind == 'unknown':
      text, upd, skip = f'{lhs} = @nosuch{val % 2}()', [(key, param, ('unk',))], True
    elif kind == 'unknown_nested':
      text, upd, skip = f'{lhs} = [{val}, @zz.nosuch]', [(key, param, ('unk',))], True
    elif kind == 'required':
      text, upd = f'{lhs} = %gin.REQUIRED', [(key, param, ('req',))]
    elif kind in PLACED_KINDS:
      base, place = kind.split('@')
      if base == 'macroref':
        ref, value = '%' + macro, ('mref', macro)
      elif base == 'uneval':
        ref, value = f'@{macro}/gin.macro', ('uneval', macro)
      else:
        ref, value, skip = ['@nosuch0()', '@zz.nosuch'][val % 2], ('unk',), True
      rhs = {'key': f'{{{ref}: {val}}}',
             'tuplekey': f"{{'k': 0, ({ref}, {val}): [1]}}",
             'dictvalue': f"{{'k': {{{val}: {ref}}}}}"}[place]
      text, upd = f'{lhs} = {rhs}', [(key, param, value)]
    elif kind in ('constref', 'ref', 'pair'):
      other_kind = {'constref': 'const', 'ref': 'ref'}.get(kind) or PAIR_OTHER[(val // 2) % 4]
      if other_kind == 'const' and not self.constants:
        other_kind = 'lit'          # the constant is gone: %KC would now name a macro
      if other_kind == 'const':
        rhs, value = '%' + [CONSTANT, CONSTANT.split('.')[1]][sp // 2 % 2], ('const',)
      elif other_kind == 'ref':
        rhs, value = ['@pm.g()', '@f'][val % 2], ('ref',)
      elif other_kind == 'macro':
        rhs, value = '%' + macro, ('mref', macro)
      else:
        rhs, value = str(val), ('lit', val)
      if kind != 'pair':
        text, upd = f'{lhs} = {rhs}', [(key, param, value)]
      else:
        other = PARAMS[(PARAMS.index(param) + 1) % 2]
        stmts = [(param, '%gin.REQUIRED', ('req',)), (other, rhs, value)]
        if val % 2:
          stmts.reverse()           # the other parameter is bound first
        if sp // 2 % 2:
          text = f'{ssel}:\n' + ''.join(f'  {p} = {r}\n' for p, r, _ in stmts)
        else:
          text = '\n'.join(f'{ssel}.{p} = {r}' for p, r, _ in stmts)
        upd = [(key, p, v) for p, _, v in stmts]
    else:
      raise OutOfDomain(f'unknown parse kind {kind!r}')
    return text, skip, upd

  def op_parse(self, op):
    text, skip, upd = self.parse_plan(op)
    self.mutation_attempt()
    if self.locked:
      self.expect_locked(lambda: gin.parse_config(text, skip_unknown=skip), 'parse')
      return
    gin.parse_config(text, skip_unknown=skip)
    for key, param, value in upd:
      self.config.setdefault(key, {})[param] = value
    self.labels.add('parse:' + op[1])
    self.observe('parse')

  def op_thread(self, op, depth):
    """['thread', body_ops]: the body runs in a fresh thread, started and joined at once (no
    concurrency); violations and exceptions are carried back.  The lock is one process-wide
    state, so the model is the same whichever thread asks: a config finalized on one thread is
    locked for every thread, an unlock_config block entered in a worker unlocks and restores
    for all, and config_is_locked() reads the same value everywhere."""
    box = {}

    def work():
      try:
        self.observe('thread:started')
        self.exec_ops(op[1], depth)
        self.observe('thread:before-exit')
      except BaseException as e:  # pylint: disable=broad-except
        box['exc'] = e

    self.thread_depth += 1
    try:
      t = threading.Thread(target=work, name='c12-worker')
      t.start()
      t.join()
    finally:
      self.thread_depth -= 1
    if 'exc' in box:
      raise box['exc']
    self.labels.add('thread:block')
    self.observe('thread:joined')

  def op_interactive(self, op, depth):
    """Body inside `with gin.config.interactive_mode():`.  Interactive mode waives the duplicate
    name checks only; it is not a way out of the lock, so the model is untouched."""
    if self.interactive:            # the block form is not re-entrant; never nest it
      self.exec_ops(op[1], depth)
      return
    self.labels.add('interactive:block')
    with gin.config.interactive_mode():
      self.interactive = True
      try:
        self.observe('interactive:entered')
        self.exec_ops(op[1], depth)
      finally:
        self.interactive = False
    self.observe('interactive:left')

  def op_register(self, op):
    """['register', api]            a new name
       ['register', api, 1, ci]     an existing name with a different function (only attempted in
                                    interactive mode, where it is a well-formed request)"""
    api = op[1] % 3
    kind = op[2] % 4 if len(op) > 2 else 0
    if kind >= 2:
      self.op_register_class(api, kind)
      return
    rereg = kind == 1
    if rereg:
      if not self.interactive:
        return
      candidates = [n for n in self.registry if n != METHOD]
      full = candidates[op[3] % len(candidates)]
      module, name = full.split('.')
      self.alt_count += 1
      fn = self.mod.make_alt(name, self.alt_count)
    else:
      unused = [n for n in NEW if n not in self.registry]
      if not unused:
        return
      full = unused[0]
      module, name = full.split('.')
      fn = getattr(self.mod, name)
    if api == 0:
      do = lambda: gin.configurable(name, module=module)(fn)
    elif api == 1:
      do = lambda: gin.register(name, module=module)(fn)
    else:
      do = lambda: gin.external_configurable(fn, name=name, module=module)
    self.mutation_attempt()
    what = ('reregister' if rereg else 'register') + ('-interactive' if self.interactive else '')
    if self.locked:
      old = gin.get_configurable(full) if rereg else None
      self.expect_locked(do, what)
      self.labels.add('locked:register-rejected')
      if rereg:
        require(gin.get_configurable(full) is old, f'locked:{what}:configurable-was-replaced',
                lambda: f'the attempt raised but {full} no longer resolves to the old object')
        return
      try:
        gin.get_configurable(full)
      except ValueError:
        pass
      else:
        raise Violation(f'locked:{what}:configurable-was-added',
                        f'registration of {full} raised but get_configurable finds it')
      return
    if rereg:
      # Unlocked + interactive: Gin documents that this replaces the configurable.  Not C12's
      # business -- only a *lock* error here would be.
      try:
        do()
        self.labels.add('reregister:ok')
      except RuntimeError as e:
        raise Violation('unlocked:reregister:lock-error', f'{type(e).__name__}: {str(e)[:200]}')
      except Exception:  # pylint: disable=broad-except
        self.labels.add('reregister:refused-for-other-reasons')
      self.observe('reregister')
      return
    do()
    self.registry.append(full)
    self.labels.add('register:ok')
    if self.interactive:
      self.labels.add('register:ok-interactive')
    self.observe('register')

  def op_register_class(self, api, kind):
    """['register', api, 2]  class Net, which carries the registered method c12_probes.mth
       ['register', api, 3]  class Late (no registered method)
    Attempted only while locked (a successful class registration renames the method, which is
    documented behaviour outside C12): must raise RuntimeError and change nothing -- the method
    still resolves, by its old selector, to the identical object and keeps its bindings, the
    class name stays unknown, the class object is untouched."""
    if not self.locked:
      return
    cls = self.mod.Net if kind == 2 else self.mod.Late
    name, module = cls.__name__, 'nm'
    if api == 0:
      do = lambda: gin.configurable(name, module=module)(cls)
    elif api == 1:
      do = lambda: gin.register(name, module=module)(cls)
    else:
      do = lambda: gin.external_configurable(cls, name=name, module=module)
    self.mutation_attempt()
    what = 'register-class' + ('-interactive' if self.interactive else '')
    attrs = dict(vars(cls))
    init = cls.__init__
    method = gin.get_configurable(METHOD)
    self.expect_locked(do, what)      # RuntimeError, config_str and every binding unchanged
    self.labels.add('locked:register-rejected')
    self.labels.add('locked:register-class-rejected')
    now = dict(vars(cls))
    changed = sorted(k for k in set(now) | set(attrs) if now.get(k) is not attrs.get(k))
    require(not changed and cls.__init__ is init, f'locked:{what}:class-object-modified',
            lambda: f'{cls.__name__}: attributes changed by the rejected registration: {changed}')
    for sel in self.selectors(METHOD):
      try:
        still = gin.get_configurable(sel)
      except ValueError as e:
        raise Violation(f'locked:{what}:registered-method-lost',
                        f'{sel} no longer resolves after the rejected registration of '
                        f'{cls.__name__}: {str(e)[:120]}')
      require(still is method, f'locked:{what}:registered-method-replaced', sel)
    for bad in (f'{module}.{name}', f'{module}.{name}.mth', f'{name}.mth'):
      try:
        gin.get_configurable(bad)
      except ValueError:
        continue
      raise Violation(f'locked:{what}:configurable-was-added',
                      f'registration raised but get_configurable finds {bad}')

  def op_clear(self, op):
    if self.locked:
      self.labels.add('clear:while-locked')
    if self.locked_entry_depth:
      self.labels.add('clear:inside-unlock-block')
    gin.clear_config(clear_constants=bool(op[1]))
    if op[1]:
      self.constants = False
    self.config = {}
    self.locked = False
    self.finalized = False
    self.observe('clear')

  def op_hook(self, op):
    _, kind, si, ci, pi, sp, val = op
    spec = {'kind': kind, 'calls': [], 'ret': None}
    binders = [h for h in self.hooks if h['kind'] in ('bind', 'dup')]
    if kind in ('bind', 'dup'):
      if kind == 'dup' and binders:
        base = binders[ci % len(binders)]
        tgt = base['target']
        key = self.spell(*tgt, sp)
        if key == base['key']:
          key = self.spell(*tgt, sp + 1)
      else:
        tgt = self.target(si, ci, pi)
        key = self.spell(*tgt, sp)
      spec.update(target=tgt, key=key, ret={key: 100 + val})
    elif kind == 'invalid':
      bad = [f'nosuchconf.{PARAMS[pi % 2]}', 'f.zz', ('', 'nosuchconf', 'a'), 42][val % 4]
      spec['ret'] = {bad: 1}
    elif kind == 'empty':
      spec['ret'] = {}
    elif kind not in ('none', 'raise'):
      raise OutOfDomain(f'unknown hook kind {kind!r}')

    def hook(config):
      spec['calls'].append(self.snapshot_of(config))
      if kind == 'raise':
        raise _HookBoom('hook failed')
      return None if spec['ret'] is None else dict(spec['ret'])

    try:
      gin.config.register_finalize_hook(hook)
    except Exception:  # pylint: disable=broad-except
      if self.locked:
        raise OutOfDomain('register_finalize_hook refused while locked (property silent)')
      raise
    self.hooks.append(spec)
    self.labels.add('hook:' + kind)

  def rejection_causes(self):
    causes = []
    for (_, _), params in sorted(self.config.items()):
      for _, v in sorted(params.items()):
        if v[0] == 'mref' and not self.config.get((v[1], MACRO_SEL)):
          causes.append('config:macro-unbound')
        elif v[0] == 'uneval':
          causes.append('config:macro-unevaluated')
          if not self.config.get((v[1], MACRO_SEL)):
            causes.append('config:macro-unbound')
        elif v[0] == 'unk':
          causes.append('config:unknown-reference')
        elif v[0] == 'req':
          causes.append('config:required')
    seen = {}
    for h in self.hooks:
      if h['kind'] == 'raise':
        causes.append('hook:raises')
      elif h['kind'] == 'invalid':
        causes.append('hook:invalid-binding')
      elif h['kind'] in ('bind', 'dup'):
        if h['target'] in seen:
          causes.append('hook:conflict-same-spelling' if seen[h['target']] == h['key']
                        else 'hook:conflict-other-spelling')
        else:
          seen[h['target']] = h['key']
    return causes

  def op_finalize(self, op=('finalize',)):
    variant = op[1] % 4 if len(op) > 1 else 0
    scoped, via_files = bool(variant & 1), bool(variant & 2)
    if scoped:
      # what finalize accepts or rejects must not depend on an active config scope
      self.labels.add('finalize:inside-config-scope')
    if via_files:
      self.labels.add('finalize:via-parse_config_files_and_bindings')
    seen = {}

    def call():
      if via_files:
        gin.parse_config_files_and_bindings([], None, finalize_config=True)
      else:
        gin.finalize()

    def do_finalize():
      outer = gin.current_scope()
      try:
        if scoped:
          with gin.config_scope('zs'):
            inner = gin.current_scope()
            try:
              call()
            finally:
              seen['inside'] = (inner, gin.current_scope())
        else:
          try:
            call()
          finally:
            seen['inside'] = (outer, gin.current_scope())
      finally:
        seen['outside'] = (outer, gin.current_scope())

    def check_caller_scope():
      # Not a C12 clause proper (it is C09/C16 territory) but free to observe here: finalize,
      # accepted or rejected, must hand the caller's active config scope back as it found it.
      for where, (was, now) in sorted(seen.items()):
        require(list(was) == list(now), 'finalize:caller-config-scope-changed',
                lambda: f'current_scope() {where} the block: {was} before finalize, {now} after')

    if self.locked:
      self.expect_locked(do_finalize, 'finalize-twice')
      check_caller_scope()
      self.labels.add('finalize:twice')
      return
    pre = self.model_snapshot()
    causes = self.rejection_causes()
    for h in self.hooks:
      h['calls'] = []
    before = gin.config_str()
    raised = None
    try:
      do_finalize()
    except Exception as e:  # pylint: disable=broad-except
      raised = e
    check_caller_scope()
    for i, h in enumerate(self.hooks):
      for snap in h['calls']:
        require(snap == pre, 'finalize:hook-saw-config-not-as-parsed',
                lambda: f'hook #{i} ({h["kind"]}) was shown {snap}; config as parsed: {pre}')
    binders = [h for h in self.hooks if h['kind'] in ('bind', 'dup')]
    if causes:
      require(raised is not None, 'finalize:not-rejected:' + causes[0],
              lambda: f'finalize returned normally although: {causes}')
      require(gin.config_str() == before, 'finalize:rejected-but-config-modified',
              lambda: f'causes {causes}; raised {type(raised).__name__}')
      self.observe('finalize:rejected')   # unlocked, every binding as before
      if scoped:
        self.labels.add('finalize:rejected-inside-config-scope')
      for c in causes:
        self.labels.add('finalize:rejected:' + c.split(':')[0])
        self.labels.add('finalize:rejected:' + c.replace(':', '-'))
      if len(set(causes)) == 1:
        self.labels.add('finalize:sole-cause:' + causes[0].replace(':', '-'))
      if set(causes) == {'config:required'}:
        # every REQUIRED parameter comes after a parameter bound to another constant in the
        # binding order of its own section (a scan that stops at the constant misses them all)
        hidden = []
        for params in self.config.values():
          kinds = [v[0] for v in params.values()]
          hidden += ['const' in kinds[:i] for i, k in enumerate(kinds) if k == 'req']
        if all(hidden):
          self.labels.add('finalize:required-after-other-constant-in-section')
      if binders:
        self.labels.add('finalize:rejected:with-valid-hook-binding')
      return
    if raised is not None and self.finalized:
      # A second finalize of the same configuration made possible by unlock_config: "finalizing
      # twice is an error" and "inside an unlock block the config is unlocked" pull in different
      # directions, so a refusal is tolerated -- provided it changed nothing.
      require(gin.config_str() == before, 'finalize:refused-but-config-modified',
              lambda: f'raised {type(raised).__name__}')
      self.observe('finalize:refused-again')
      self.labels.add('finalize:again-after-unlock:refused')
      return
    if raised is not None:
      raise Violation('finalize:valid-config-rejected',
                      f'{type(raised).__name__}: {str(raised)[:300]}; model config {pre}')
    if self.finalized:
      self.labels.add('finalize:again-after-unlock:accepted')
    for i, h in enumerate(self.hooks):
      require(h['calls'], 'finalize:hook-not-run', lambda: f'hook #{i} ({h["kind"]}) never ran')
    for h in binders:
      scope, full, param = h['target']
      (value,) = h['ret'].values()
      self.config.setdefault((scope, full), {})[param] = ('lit', value)
    self.locked = True
    self.finalized = True
    self.observe('finalize:ok')
    self.labels.add('finalize:ok')
    if self.hooks:
      self.labels.add('finalize:hooks-ran')
    if self.thread_depth:
      self.labels.add('finalize:ok-in-worker-thread')
    if binders:
      self.labels.add('finalize:hook-bindings-applied')
    if self.locked_entry_depth:
      self.labels.add('finalize:inside-block-entered-locked')

  def op_unlock(self, op, depth):
    _, body, exit_kind = op
    entry = self.locked
    nested = any(b[0] == 'unlock' for b in body)
    under_locked = entry or self.locked_entry_depth > 0
    self.locked = False
    if entry:
      self.locked_entry_depth += 1
    left_by = 'normal'
    try:
      for _ in (0,):
        with gin.unlock_config():
          self.observe('unlock:inside')
          self.exec_ops(body, depth + 1)
          if exit_kind == EXIT_RAISE:
            raise _Boom('body failed')
          if exit_kind == EXIT_BASE:
            raise _BaseBoom('body failed hard')
          if exit_kind == EXIT_GINCALL:
            left_by = 'gin-call'
            gin.query_parameter('nosuchconf.a')   # unknown configurable: ValueError
            left_by = 'gin-call-did-not-raise'
          if exit_kind == EXIT_BREAK:
            break
    except _Boom:
      left_by = 'exception'
    except _BaseBoom:
      left_by = 'base-exception'
    except ValueError:
      if left_by != 'gin-call':
        raise
    if left_by == 'gin-call-did-not-raise':
      raise OutOfDomain('query of an unknown configurable did not raise')
    if entry:
      self.locked_entry_depth -= 1
    self.locked = entry
    self.observe('unlock:exit-by-' + left_by)
    # ---- labels / non-trivial rule
    self.labels.add('unlock:exit-' + left_by)
    if entry and self.thread_depth:
      self.labels.add('unlock:in-worker-thread-while-locked')
    if entry:
      self.labels.add('unlock:while-locked')
    if exit_kind in RAISING and entry:
      self.labels.add('unlock:exit-by-exception-while-locked')
    if under_locked and (nested or depth > 0):
      self.labels.add('unlock:nested-while-locked')
    if under_locked and (exit_kind in RAISING or nested or depth > 0):
      self.special_exit_seen = True


  def op_unlock_rec(self, op, depth):
    """['unlock_rec', levels, body, exit, calls]: ONE `gin.unlock_config()` manager object used
    as a decorator on a function that re-enters itself `levels` (1..3) deep, so the same manager
    is active several times at once; the innermost level runs `body` and leaves normally or by
    an exception (propagating through every level, or caught by the level above); the decorated
    function is called `calls` (1..2) times in a row.  Every level is an unlock_config block:
    unlocked inside, and on leaving a level the lock state that held when it was entered is
    back -- unlocked for the inner levels, the caller's state for the outermost."""
    _, levels, body, exit_kind = op[:4]
    levels = 1 + (levels - 1) % 3
    calls = 1 + (op[4] - 1) % 2 if len(op) > 4 else 1
    run = self

    @gin.unlock_config()
    def rec(level):
      run.observe(f'unlock-decorator:level-{level}:inside')
      if level == levels:
        run.exec_ops(body, depth + 1)
        if exit_kind in (EXIT_RAISE, EXIT_CAUGHT):
          raise _Boom('innermost level failed')
        if exit_kind == EXIT_BASE:
          raise _BaseBoom('innermost level failed hard')
        return level
      held = run.locked                      # what holds on entry of the inner level
      run.locked = False
      try:
        rec(level + 1)
      except (Violation, OutOfDomain):
        raise
      except BaseException as e:
        run.locked = held
        run.observe(f'unlock-decorator:level-{level}:inner-level-left-by-exception')
        if not (exit_kind == EXIT_CAUGHT and level == levels - 1 and isinstance(e, _Boom)):
          raise
        run.labels.add('unlock:decorator-inner-exception-caught')
      else:
        run.locked = held
        run.observe(f'unlock-decorator:level-{level}:inner-level-returned')
      return level

    for _ in range(calls):
      entry = self.locked
      under_locked = entry or self.locked_entry_depth > 0
      self.locked = False
      if entry:
        self.locked_entry_depth += 1
      left_by = 'normal'
      try:
        rec(1)
      except _Boom:
        left_by = 'exception'
      except _BaseBoom:
        left_by = 'base-exception'
      if entry:
        self.locked_entry_depth -= 1
      self.locked = entry
      self.observe('unlock-decorator:exit-by-' + left_by)
      self.labels.add('unlock:decorator')
      self.labels.add('unlock:decorator-exit-' + left_by)
      if levels > 1:
        self.labels.add('unlock:decorator-recursive')
      if entry:
        self.labels.add('unlock:while-locked')
        if levels > 1:
          self.labels.add('unlock:decorator-recursive-while-locked')
        if left_by != 'normal':
          self.labels.add('unlock:exit-by-exception-while-locked')
      if under_locked and (left_by != 'normal' or levels > 1 or depth > 0):
        self.labels.add('unlock:nested-while-locked' if levels > 1 or depth > 0 else
                        'unlock:decorator-raised-while-locked')
        self.special_exit_seen = True


def check_case(case):
  run = _Run()
  run.exec_ops(case['ops'], 0)
  run.observe('final')
  labels = set(run.labels)
  if run.nontrivial:
    labels.add('nontrivial')
  src = case.get('src', 'hyp')
  if src == 'hyp':
    labels.update('hyp:' + l for l in list(labels) if 'hyp:' + l in FLOORS)
  labels.add('gen:' + src)
  return ok(labels, run.nontrivial)


# ----------------------------------------------------------------------------- sweep
_BIND1 = ['bind', 0, 0, 0, 0, 1]            # f.a = 1
_BIND2 = ['bind', 1, 1, 1, 3, 2]            # ('s', 'pm.g', 'b') = 2
_PARSE1 = ['parse', 'flat', 0, 1, 1, 0, 2]  # g.b = 2
ALPHABET = [
    ['finalize'],
    ['unlock', [], EXIT_NORMAL],
    ['unlock', [_BIND1], EXIT_NORMAL],
    ['unlock', [_PARSE1], EXIT_NORMAL],
    ['unlock', [['register', 0]], EXIT_NORMAL],
    ['unlock', [['unlock', [_BIND1], EXIT_RAISE], _BIND2], EXIT_NORMAL],
    ['unlock', [['unlock', [], EXIT_NORMAL], _BIND2], EXIT_NORMAL],
    ['unlock', [_BIND1], EXIT_RAISE],
    _BIND1,
    _PARSE1,
    ['register', 1],
    ['interactive', [['register', 2]]],     # a new name, registered in interactive mode
    ['clear', 0],
    ['hook', 'none', 0, 0, 0, 0, 0],
    ['hook', 'bind', 1, 0, 0, 0, 7],        # returns {'s/f.a': 107}
    ['hook', 'dup', 1, 0, 0, 0, 8],         # same parameter as the first binding hook, other
                                            # spelling (alone: returns {'s/f.a': 108})
    ['hook', 'invalid', 0, 0, 0, 0, 0],
    ['hook', 'raise', 0, 0, 0, 0, 0],
    ['parse', 'macroref', 0, 0, 1, 0, 0],   # f.b = %M0
    ['parse', 'macrodef', 0, 0, 0, 0, 4],   # M0 = 4
    ['parse', 'uneval', 0, 1, 0, 1, 0],     # pm.g.a = @M0/gin.macro
    ['parse', 'unknown', 0, 0, 1, 0, 0],    # f.b = @nosuch0()   (skip_unknown=True)
    ['parse', 'required', 1, 1, 0, 0, 0],   # s/g.a = %gin.REQUIRED
]


def sweep_sequences(tier):
  kmax = 4 if tier == 'thorough' else 3
  cases = []
  for k in range(1, kmax + 1):
    for seq in itertools.product(range(len(ALPHABET)), repeat=k):
      cases.append({'src': 'sweep', 'ops': [ALPHABET[i] for i in seq]})
  return cases, True


def sweep_variants(tier):
  """Every variant of the classes the alphabet holds only one representative of, each in the
  contexts where it matters (same in both tiers)."""
  del tier
  cases = []
  add = lambda ops: cases.append({'src': 'sweep', 'ops': ops})
  # (1) every exit path x body x (unlocked | locked) x a mutation attempt afterwards
  bodies = [[], [_BIND1], [['finalize']], [['clear', 0]], [['register', 2]],
            [['unlock', [_PARSE1], EXIT_RAISE]], [['unlock', [], EXIT_BASE], _BIND2],
            [['finalize'], ['unlock', [_BIND1], EXIT_GINCALL], _BIND2]]
  for exit_kind in (EXIT_NORMAL, EXIT_RAISE, EXIT_BASE, EXIT_GINCALL, EXIT_BREAK):
    for body in bodies:
      for prefix in ([], [['finalize']]):
        for suffix in ([], [_BIND2], [_PARSE1], [['register', 0]], [['finalize']]):
          add(prefix + [['unlock', body, exit_kind]] + suffix)
  # (2) every rejection cause in the config x macro bound or not x a hook returning a valid
  #     binding or not x finalize x (nothing | repair | clear) x finalize
  for kind in PARSE_KINDS[4:]:
    for val in (0, 1):
      bad = ['parse', kind, 0, 0, 0, 0, val]                     # f.a = <bad value>
      for macros in ([], [['parse', 'macrodef', 0, 0, 0, 0, 0]],
                     [['parse', 'macrodef', 0, 0, 0, 0, 1]]):
        for hook in ([], [['hook', 'bind', 0, 1, 1, 2, 3]]):
          for fix in ([], [['bind', 0, 0, 0, 1, 5]], [['clear', 1]],
                      [['parse', 'macrodef', 0, 0, 0, 0, val]]):
            # 1: finalize called inside `with gin.config_scope('zs'):`; 3: there, and through
            # parse_config_files_and_bindings([], None, finalize_config=True)
            for scoped in (0, 1, 3):
              add(macros + hook + [bad, ['finalize', scoped]] + fix +
                  [['finalize', scoped], _BIND1])
  # (2a) the same causes with the offending reference as a dict key / inside a tuple dict key /
  #      as a dict value
  for kind in PLACED_KINDS:
    for val in (0, 1):
      bad = ['parse', kind, 1, 1, 1, 1, val]                     # s/pm.g.b = {...}
      for macros in ([], [['parse', 'macrodef', 0, 0, 0, 0, 0]],
                     [['parse', 'macrodef', 0, 0, 0, 0, 1]]):
        for fix in ([], [['bind', 1, 1, 1, 0, 5]], [['clear', 0]],
                    [['parse', 'macrodef', 0, 0, 0, 0, val]]):
          for scoped in (0, 1):
            add(macros + [bad, ['finalize', scoped]] + fix + [['finalize', scoped], _BIND1])
  # (2b) sections with two parameters: one left at %gin.REQUIRED, the other bound to another
  #      constant / a literal / a reference / a macro (bound), in both binding orders and both
  #      parameter-name orders, made by one parse (flat, block) or by two separate operations,
  #      unscoped and scoped sections, finalize inside a config scope or not; then repaired
  for si in (0, 1):
    for ci in (0, 1):
      for pi in (0, 1):                       # which parameter is left REQUIRED
        for oi, okind in enumerate(PAIR_OTHER):
          for first in (0, 1):                # 1: the other parameter is bound first
            val = 2 * oi + first
            pre = [['parse', 'macrodef', 0, 0, 0, 0, val]] if okind == 'macro' else []
            req = ['parse', 'required', si, ci, pi, 0, 0]
            single = {'const': ['parse', 'constref', si, ci, pi + 1, 2, val],
                      'lit': ['bind', si, ci, pi + 1, 1, val],
                      'ref': ['parse', 'ref', si, ci, pi + 1, 1, val],
                      'macro': ['parse', 'macroref', si, ci, pi + 1, 0, val]}[okind]
            makers = [[['parse', 'pair', si, ci, pi, 0, val]],
                      [['parse', 'pair', si, ci, pi, 3, val]],
                      [single, req] if first else [req, single]]
            for mk in makers:
              for scoped in (0, 1):
                add(pre + mk + [['finalize', scoped], ['bind', si, ci, pi, 0, 5],
                                ['finalize', scoped], _BIND1])
  # (3) hook kinds: every pair of hooks (kind x spelling) then finalize, then a second finalize
  hooks = [['hook', k, 1, 0, 0, sp, v] for k in ('bind', 'dup') for sp in range(4)
           for v in (1,)]
  hooks += [['hook', 'invalid', 0, 0, 0, 0, v] for v in range(4)]
  hooks += [['hook', 'none', 0, 0, 0, 0, 0], ['hook', 'empty', 0, 0, 0, 0, 0],
            ['hook', 'raise', 0, 0, 0, 0, 0]]
  for h1 in hooks:
    for h2 in hooks:
      # s/f.a is already bound: a hook-returned value must replace the existing binding
      add([_BIND1, ['bind', 1, 0, 0, 0, 1], h1, h2, ['finalize'], _BIND2, ['finalize']])
  # (4) every mutator form on a locked config
  muts = [['bind', si, ci, pi, sp, 3] for si in (0, 1) for ci in (0, 1) for pi in (0, 1)
          for sp in range(4)]
  muts += [['parse', k, 1, 1, 1, sp, 1] for k in ALL_PARSE_KINDS for sp in (0, 1)]
  muts += [['register', api] for api in range(3)]
  # class targets: Net carries the registered method c12_probes.mth, Late has none
  muts += [['register', api, k] for api in range(3) for k in (2, 3)]
  for m in muts:
    add([_BIND1, ['finalize'], m, ['unlock', [m], EXIT_NORMAL], m])
    add([['register', 0], ['finalize'], ['clear', 0], m, ['finalize'], m])
  # (5) the same forms inside interactive mode (which waives duplicate-name checks, not the
  #     lock), plus re-registration of an existing name with a different function
  muts += [['register', api, 1, ci] for api in range(3) for ci in range(3)]
  for m in muts:
    im = ['interactive', [m]]
    add([['register', 0], _BIND1, ['finalize'], im, ['unlock', [im], EXIT_NORMAL], im,
         ['clear', 0], im, ['finalize', 1], im])
    add([['interactive', [['finalize'], m, ['unlock', [m], EXIT_RAISE], m]], m])
  # (6) a rejected registration of a class must leave the method registered on it addressable
  #     by its old selector, with its bindings, and the class object untouched
  for api in range(3):
    for k in (2, 3):
      for inter in (0, 1):
        m = ['register', api, k]
        mm = ['interactive', [m]] if inter else m
        for sp in range(4):             # how the method's bindings are spelled
          add([['bind', 0, 2, 0, sp, 3], ['bind', 1, 2, 1, sp, 4], ['finalize'], mm,
               ['unlock', [['bind', 0, 2, 1, sp, 5], mm], EXIT_NORMAL], ['bind', 0, 2, 0, 0, 6],
               mm, ['finalize'], ['clear', 0], ['bind', 0, 2, 0, sp, 7], ['finalize', 1], mm,
               ['unlock', [], EXIT_RAISE], mm])
  # (8) the lock is process-wide: every mutator form attempted from a fresh thread on a config
  #     finalized on the main thread (and the other way round), inside an unlock block of the
  #     other thread, and unlock blocks entered and left (every exit path) in a worker
  for m in muts:
    tm = ['thread', [m]]
    add([['register', 0], _BIND1, ['finalize'], tm, ['unlock', [tm], EXIT_NORMAL], tm,
         ['thread', [['unlock', [m], EXIT_RAISE]]], m, tm])
    add([_BIND1, ['thread', [['finalize']]], m, tm, ['thread', [['clear', 0]]], m,
         ['thread', [['finalize', 1], m]], m])
  for exit_kind in (EXIT_NORMAL, EXIT_RAISE, EXIT_BASE, EXIT_GINCALL, EXIT_BREAK):
    for body in ([], [_BIND1], [['finalize']], [['unlock', [_BIND1], EXIT_RAISE], _BIND2]):
      for prefix in ([], [['finalize']], [['thread', [['finalize']]]]):
        add(prefix + [['thread', [['unlock', body, exit_kind]]], _BIND2, ['thread', [_BIND2]]])
  for levels in (1, 2, 3):
    for exit_kind in (EXIT_NORMAL, EXIT_RAISE, EXIT_CAUGHT):
      add([['finalize'], ['thread', [['unlock_rec', levels, [_BIND1], exit_kind, 1]]], _BIND2,
           ['thread', [_BIND2]]])
  # (7) one unlock_config manager object used as a decorator on a self-re-entering function:
  #     levels x exit path x (unlocked | locked) x body x 1-2 calls, then a mutation attempt
  for levels in (1, 2, 3):
    for exit_kind in (EXIT_NORMAL, EXIT_RAISE, EXIT_BASE, EXIT_CAUGHT):
      for prefix in ([], [['finalize']]):
        for body in ([], [_BIND1], [['finalize']]):
          for calls in (1, 2):
            add(prefix + [['unlock_rec', levels, body, exit_kind, calls], _BIND2, ['finalize']])
  return cases, True


SWEEPS = {'op-sequences': sweep_sequences, 'variants': sweep_variants}


# ----------------------------------------------------------------------------- strategy
_i = st.integers(0, 5)
_val = st.integers(0, 9)


def _leaf_ops():
  bind = st.tuples(st.just('bind'), _i, _i, _i, _i, _val)
  good_parse = st.tuples(st.just('parse'), st.sampled_from(GOOD_PARSE_KINDS), _i, _i, _i, _i, _val)
  bad_parse = st.tuples(st.just('parse'), st.sampled_from(BAD_PARSE_KINDS), _i, _i, _i, _i, _val)
  good_hook = st.tuples(st.just('hook'), st.sampled_from(['none', 'empty', 'bind', 'bind']),
                        _i, _i, _i, _i, _val)
  bad_hook = st.tuples(st.just('hook'), st.sampled_from(['dup', 'dup', 'invalid', 'raise']),
                       _i, _i, _i, _i, _val)
  return [
      (4, st.tuples(st.just('finalize'))),
      (1, st.tuples(st.just('finalize'), st.sampled_from([1, 1, 2, 3]))),
      (3, bind),
      (2, good_parse),
      (2, bad_parse),
      (2, st.tuples(st.just('register'), st.integers(0, 2))),
      (1, st.tuples(st.just('register'), st.integers(0, 2), st.just(1), _i)),
      (1, st.tuples(st.just('register'), st.integers(0, 2), st.sampled_from([2, 3]))),
      (1, st.tuples(st.just('clear'), st.integers(0, 1))),
      (2, good_hook),
      (1, bad_hook),
  ]


def _weighted(pairs):
  pool = []
  for w, s in pairs:
    pool.extend([s] * w)
  return st.one_of(pool)


def _ops(depth):
  pairs = _leaf_ops()
  if depth < 3:
    body = st.lists(st.deferred(lambda: _ops(depth + 1)), min_size=0, max_size=4)
    exit_kind = st.sampled_from([EXIT_NORMAL, EXIT_NORMAL, EXIT_RAISE, EXIT_RAISE, EXIT_BASE,
                                 EXIT_GINCALL, EXIT_BREAK])
    pairs = pairs + [(5 if depth == 0 else 2, st.tuples(st.just('unlock'), body, exit_kind)),
                     (2, st.tuples(st.just('interactive'), body)),
                     (3, st.tuples(st.just('thread'), body)),
                     (2, st.tuples(st.just('unlock_rec'), st.integers(1, 3), body,
                                   st.sampled_from([EXIT_NORMAL, EXIT_RAISE, EXIT_BASE,
                                                    EXIT_CAUGHT]), st.integers(1, 2)))]
  return _weighted(pairs).map(list)


def _jsonable(x):
  if isinstance(x, (list, tuple)):
    return [_jsonable(y) for y in x]
  return x


def _benign():
  """Ops that keep a later finalize acceptable (used to reach the locked state often)."""
  return _weighted([
      (3, st.tuples(st.just('bind'), _i, _i, _i, _i, _val)),
      (2, st.tuples(st.just('parse'), st.sampled_from(GOOD_PARSE_KINDS), _i, _i, _i, _i, _val)),
      (1, st.tuples(st.just('register'), st.integers(0, 2))),
      (2, st.tuples(st.just('hook'), st.sampled_from(['none', 'empty', 'bind']),
                    _i, _i, _i, _i, _val)),
  ]).map(list)


@st.composite
def _scenario(draw):
  """benign prefix, finalize, anything, an unlock block that raises or nests, anything."""
  ops = draw(st.lists(_benign(), max_size=3))
  if draw(st.booleans()):
    ops.append(['hook', 'bind', draw(_i), draw(_i), draw(_i), draw(_i), draw(_val)])
  ops.append(['finalize'])
  ops += draw(st.lists(_ops(0), max_size=2))
  body = draw(st.lists(_ops(1), max_size=3))
  if draw(st.booleans()):
    inner = ['unlock', draw(st.lists(_ops(2), max_size=2)),
             draw(st.sampled_from([EXIT_NORMAL, EXIT_RAISE, EXIT_BASE]))]
    body.insert(draw(st.integers(0, len(body))), inner)
    exit_kind = draw(st.sampled_from([EXIT_NORMAL, EXIT_NORMAL, EXIT_RAISE, EXIT_BREAK]))
  else:
    exit_kind = draw(st.sampled_from([EXIT_RAISE, EXIT_RAISE, EXIT_BASE, EXIT_GINCALL]))
  if draw(st.integers(0, 2)) == 0:
    # the same block as a decorated, self-re-entering function sharing one manager object
    ops.append(['unlock_rec', draw(st.integers(2, 3)), body,
                draw(st.sampled_from([EXIT_NORMAL, EXIT_RAISE, EXIT_BASE, EXIT_CAUGHT])),
                draw(st.integers(1, 2))])
  else:
    ops.append(['unlock', body, exit_kind])
  if draw(st.booleans()):
    # the restored lock holds for every thread
    tbody = draw(st.lists(_ops(1), min_size=1, max_size=2))
    if draw(st.integers(0, 2)) == 0:
      # ... and an unlock block entered in that thread lifts it (for everybody) until it exits
      tbody = [['unlock', tbody, draw(st.sampled_from([EXIT_NORMAL, EXIT_RAISE]))]]
    ops.append(['thread', tbody])
  if draw(st.booleans()):
    # interactive mode is not a way out of the restored lock
    reg = ['register', draw(st.integers(0, 2))] + draw(st.sampled_from([[], [1, 0], [1, 1], [2], [3]]))
    ops.append(['interactive', [reg]])
  ops += draw(st.lists(_ops(0), min_size=1, max_size=5))
  return ops


@st.composite
def _reject_scenario(draw):
  """benign prefix (often with a hook returning a valid binding), 1-2 rejection causes, finalize,
  then anything (which may repair the cause and finalize again)."""
  ops = draw(st.lists(_benign(), max_size=2))
  if draw(st.booleans()):
    ops.append(['hook', 'bind', draw(_i), draw(_i), draw(_i), draw(_i), draw(_val)])
  if draw(st.booleans()):
    ops.append(['parse', 'macrodef', 0, 0, 0, 0, draw(_val)])
  # 1-2 rejection causes, every cause class equally likely (sampled_from keeps repetitions as
  # weights; one_of silently drops duplicate branches)
  causes = PLACED_KINDS + [
            'macroref', 'macroref_nested', 'uneval', 'uneval_bound', 'unknown', 'unknown_nested',
            'required', 'pair', 'hidden_required', 'hidden_required', 'dup', 'dup', 'invalid',
            'invalid', 'raise', 'raise']
  for _ in range(draw(st.sampled_from([1, 1, 2]))):
    cause = draw(st.sampled_from(causes))
    t = [draw(_i), draw(_i), draw(_i), draw(_i), draw(_val)]
    if cause == 'dup':
      # two hooks returning the same parameter (the second is forced to another spelling)
      ops += [['hook', 'bind'] + t, ['hook', 'dup', t[0], len(ops), t[2], t[3] + draw(_i), t[4]]]
    elif cause in ('invalid', 'raise'):
      ops.append(['hook', cause] + t)
    elif cause == 'uneval_bound':
      # a macro that is bound but referenced without evaluation (needs two ops)
      ops += [['parse', 'macrodef', 0, 0, 0, 0, t[4]], ['parse', 'uneval'] + t]
    elif cause == 'hidden_required':
      # a parameter bound to another constant precedes one left at %gin.REQUIRED in its section
      if draw(st.booleans()):
        ops.append(['parse', 'pair'] + t[:4] + [1])
      else:
        ops += [['parse', 'constref', t[0], t[1], t[2] + 1, t[3], 0],
                ['parse', 'required', t[0], t[1], t[2], t[3], 0]]
    else:
      ops.append(['parse', cause] + t)
  # often rejected inside an active config scope / through parse_config_files_and_bindings
  ops.append(['finalize', draw(st.sampled_from([0, 0, 1, 1, 3]))])
  ops += draw(st.lists(_ops(0), max_size=5))
  return ops


def strategy():
  free = st.lists(_ops(0), min_size=1, max_size=14)
  # one_of drops duplicate branches, so the second copy is made distinct: free 1/4, locked-unlock
  # scenario 1/4, rejection scenario 1/2
  return st.one_of(free, _scenario(), _reject_scenario(), _reject_scenario().map(list)).map(
      lambda ops: {'src': 'hyp', 'ops': _jsonable(ops)})
