"""C15 — skip_unknown drops exactly the statements that target unknown names.

Case: a statement list mixing bindings / blocks / macro definitions on known and unknown targets,
references to unknown configurables nested in values (also inside macro values), imports of
existing and missing modules; a form of skip_unknown (False, True, list, tuple, set) covering a
generated subset of the unknown names; static registration or dynamic registration (then names are
spelled through the file's own imports of a small generated package, parsed first thing in a fresh
fork).  Oracle (metamorphic): parse(text, skip_unknown)  ==  parse(text minus the statements the
rule deletes); an uncovered unknown name is an error; placeholders raise when used and at finalize.
"""
import os
import shutil
import sys
import tempfile
import warnings

from hypothesis import strategies as st

from vf import ginenv
from vf.core import OutOfDomain, Violation, ok, require
from vf.gen import literals, statements as S

gin = ginenv.import_gin()
from gin import config_parser  # pylint: disable=g-import-not-at-top

ID = 'C15'
LEVEL = 'exploration'
ISOLATE = True
BUDGET = {'quick': (8, 300), 'thorough': (16, 4000)}
RULE = ('1-8 statements: flat bindings / blocks / macro definitions on known (fa, sub.fb, m1.K, '
        'cons) and unknown (unk, pkg.unk2, Unk3) targets, values with known and unknown references '
        'nested in lists/tuples/dicts and in macro values, imports of existing and missing modules; '
        'skip_unknown in {False, True, list, tuple, set} over a generated subset of the unknown '
        'names; static or dynamic registration (spelling through `import c15dyn.mod as dm`, first '
        'parse in a fresh fork). Non-trivial = >=1 skipped and >=1 applied statement, and a '
        'placeholder or a collection-valued skip_unknown that does not cover every unknown name. '
        'Distinct = distinct case JSON.')
ASSUMPTIONS = ['each unknown name is written in one spelling, and collection-valued skip_unknown '
               'lists exactly such spellings (whether "a.unk" is covered by listing "unk" is not '
               'stated)',
               'empty collections are not generated for skip_unknown (falsy)',
               'a missing module is one that does not exist; any Exception class is accepted for '
               'an uncovered unknown name',
               'in dynamic-registration files, known = resolvable through that file\'s imports']
FLOORS = {'nontrivial': 0.1, 'mode:dynamic': 0.15, 'skip:collection': 0.2, 'placeholder': 0.1,
          'placeholder-use-and-finalize-checked': 0.05,
          'outcome:error-uncovered': 0.1, 'outcome:equal': 0.4, 'import-missing': 0.1}
TECHNIQUE = ('metamorphic property testing: parse with skip_unknown vs parse of the text reduced by '
             'an independent deletion rule; direct checks of placeholder behaviour on use and at '
             'finalize')
LEVEL_TEXT = ('For generated texts and every form of skip_unknown the resulting configuration must '
              'equal that of the text with exactly the covered-unknown statements deleted, an '
              'uncovered unknown name must raise, bindings of known configurables must always be '
              'applied (also on the first parse of a dynamic-registration file), and unknown '
              'references must survive as placeholders that raise "No configurable matching" when '
              'used and at finalize. Exploration.')
LEVEL_NOTE = ('Trusted: the deletion rule (10 lines); Gin itself parses both sides, so a parser '
              'defect common to both is invisible here (C02/C03 cover the parser).')


# ------------------------------------------------------------------ registry (pristine parent)
@gin.configurable('fa')
def _fa(p=None, q=None, r=None):
  return (p, q, r)


@gin.configurable('fb', module='m1.sub')
def _fb(p=None, q=None):
  return (p, q)


@gin.configurable('fb', module='m2')
def _fb_other(p=None, q=None):
  return (p, q)


@gin.configurable('K', module='m1')
class _K:

  def __init__(self, p=None, q=None):
    self.p, self.q = p, q


@gin.configurable('cons')
def _cons(x=None, y=None):
  return (x, y)


STATIC = {'known': {'fa': 'pqr', 'sub.fb': 'pq', 'm1.K': 'pq', 'cons': 'xy'},
          # late_fn is registered by `import c15late` (LATE_IMPORT): unknown in the statements
          # before that import, known in those after it
          # ('xunk' ends with 'unk' and 'unk2' is the tail of 'pkg.unk2': a listed name covers
          # exactly the spelling listed, not names that merely end like it)
          'unknown': ['unk', 'pkg.unk2', 'Unk3', 'late_fn', 'xunk', 'unk2'],
          'header': []}
LATE_IMPORT = 'import c15late'
LATE_NAME = 'late_fn'
LATE_SOURCE = 'import gin\n\n@gin.configurable\ndef late_fn(p=None, zz=None):\n  return (p, zz)\n'
# c15dyn.other.lazy_gb is provided through the module's __getattr__ (PEP 562): Python resolves it
# through the file's import, so it is a known name like any other module attribute
DYN = {'known': {'dm.fa': 'pqr', 'dm.K': 'pq', 'c15dyn.other.gb': 'pq', 'dm.cons': 'xy',
                 'c15dyn.other.lazy_gb': 'pq'},
       'unknown': ['dm.unk', 'nomod.fn', 'c15dyn.other.Unk3', 'am.fn'],
       'header': ['from __gin__ import dynamic_registration', 'import c15dyn.mod as dm',
                  'import c15dyn.other']}
# A file parsed *before* the file under test (dynamic mode only): it imports another package under
# the name `am` and configures am.fn, which registers it globally.  The file under test does not
# import it, so there `am.fn` is an unknown name ("known = resolvable through the file's own
# imports, independent of what was parsed before").
PRELUDE = ('from __gin__ import dynamic_registration\nimport c15alt.mod as am\n'
           'am.fn.p = 1\nam.cons2.x = @am.fn()\n')
DYN_SOURCES = {
    'c15alt/__init__.py': '',
    'c15alt/mod.py': ('def fn(p=None, q=None):\n  return (p, q)\n\n'
                      'def cons2(x=None):\n  return x\n'),
    'c15dyn/__init__.py': '',
    'c15dyn/mod.py': ('def fa(p=None, q=None, r=None):\n  return (p, q, r)\n\n'
                      'class K:\n  def __init__(self, p=None, q=None):\n    self.p, self.q = p, q\n\n'
                      'def cons(x=None, y=None):\n  return (x, y)\n'),
    'c15dyn/other.py': ('def gb(p=None, q=None):\n  return (p, q)\n\n'
                        'def _lazy_gb(p=None, q=None):\n  return (p, q)\n\n'
                        'def __getattr__(name):\n  if name == "lazy_gb":\n    return _lazy_gb\n'
                        '  raise AttributeError(name)\n'),
}
MISSING_IMPORTS = ['import c15_no_such_module', 'from c15_no_such_pkg import thing',
                   'import c15dyn_missing.sub as zz',
                   # a module that is there but cannot be imported: it raises a plain ImportError
                   # (one that names no module) while it is being imported
                   'import c15raising']
RAISING_SOURCE = "raise ImportError('optional dependency not installed')\n"
GOOD_IMPORTS = ['import math', 'from os import path', 'import json as js']


def names_of(mode):
  return DYN if mode == 'dynamic' else STATIC


def refs_in(v):
  if v[0] == 'ref':
    yield v
  elif v[0] in ('list', 'tuple'):
    for x in v[1]:
      yield from refs_in(x)
  elif v[0] == 'dict':
    for k, x in v[1]:
      yield from refs_in(k)
      yield from refs_in(x)


def dict_keys_in(v):
  if v[0] == 'dict':
    for k, x in v[1]:
      yield k
      yield from dict_keys_in(x)
  elif v[0] in ('list', 'tuple'):
    for x in v[1]:
      yield from dict_keys_in(x)


def unscoped(name):
  return name.rsplit('/', 1)[-1]


def covered(name, skip):
  kind, listed = skip
  if kind == 'false':
    return False
  if kind == 'true':
    return True
  return name in listed


def skip_value(skip):
  kind, listed = skip
  return {'false': False, 'true': True, 'list': list(listed), 'tuple': tuple(listed),
          'set': set(listed)}[kind]


class Rec(config_parser.ParserDelegate):

  def configurable_reference(self, scoped_configurable_name, evaluate):
    return ('@', scoped_configurable_name, evaluate)

  def macro(self, macro_name):
    return ('%', macro_name)


def typed(v):
  if isinstance(v, (list, tuple)) and not (v and v[0] in ('@', '%') and isinstance(v, tuple)):
    return (type(v).__name__, [typed(x) for x in v])
  if isinstance(v, dict):
    return ('dict', sorted(((typed(k), typed(x)) for k, x in v.items()), key=repr))
  return (type(v).__name__, repr(v))


def binding_set(text):
  out = {}
  with warnings.catch_warnings():
    warnings.simplefilter('ignore')
    for s in config_parser.ConfigParser(text, Rec()):
      if isinstance(s, config_parser.BindingStatement):
        out[(s.scope, s.selector, s.arg_name)] = typed(s.value)
      elif isinstance(s, config_parser.ImportStatement):
        out[('import', s.module, s.alias)] = s.is_from
  return out


def render(stmts, header, tape):
  t = S.Tape(tape)
  lines = list(header)
  for s in stmts:
    lines += S.render_simple(s, t, set())
  return '\n'.join(lines) + '\n'


def check_case(case):
  mode = case['mode']
  nm = names_of(mode)
  skip = case['skip']
  labels = {'mode:' + mode, 'skip:' + skip[0]}
  if skip[0] in ('list', 'tuple', 'set'):
    labels.add('skip:collection')
    if not skip[1]:
      raise OutOfDomain('empty collection')
  tmp = tempfile.mkdtemp(prefix='c15-')
  with open(os.path.join(tmp, 'c15raising.py'), 'w') as f:
    f.write(RAISING_SOURCE)
  if mode != 'dynamic':
    with open(os.path.join(tmp, 'c15late.py'), 'w') as f:
      f.write(LATE_SOURCE)
    sys.path.insert(0, tmp)
  else:
    for rel, src in DYN_SOURCES.items():
      path = os.path.join(tmp, rel)
      os.makedirs(os.path.dirname(path), exist_ok=True)
      with open(path, 'w') as f:
        f.write(src)
    sys.path.insert(0, tmp)
  try:
    return _check(case, nm, skip, labels, tmp)
  finally:
    if tmp:
      sys.path.remove(tmp)
      shutil.rmtree(tmp, ignore_errors=True)


def _check(case, nm, skip, labels, tmp):
  stmts = case['stmts']
  unknown = set(nm['unknown'])
  enabled = skip[0] != 'false' and (skip[0] == 'true' or bool(skip[1]))

  # ---- the independent deletion rule ----------------------------------------------------
  # `status[i]`: what the rule says about statement i; `unk_at[i]`: the names unknown where it stands
  status, unk_at, error_expected, n_skipped, n_applied = [], [], False, 0, 0
  cur_unknown = set(unknown)
  for s in stmts:
    unk_at.append(frozenset(cur_unknown))
    if s[0] == 'import':
      if s[2]:                       # missing module
        labels.add('import-missing')
        if enabled:
          n_skipped += 1
          status.append('skipped')
          continue
        error_expected = True
        break
      status.append('reduced')
      if s[1] == LATE_IMPORT and LATE_NAME in cur_unknown:
        cur_unknown.discard(LATE_NAME)
        labels.add('import-registers-a-name')
      continue
    target = s[2] if s[0] in ('bind', 'block') else None
    if target == 'fb' and case['mode'] != 'dynamic':
      # 'fb' matches two configurables (m1.sub.fb, m2.fb): ambiguous is not unknown -- an error,
      # whatever skip_unknown says
      labels.add('ambiguous-target')
      error_expected = True
      break
    if target in cur_unknown:
      vals = [s[4]] if s[0] == 'bind' else [v for _, v in s[3]]
      if covered(target, skip) and any(
          unscoped(r[1]) in cur_unknown and not covered(unscoped(r[1]), skip)
          for v in vals for r in refs_in(v)):
        # a statement the rule deletes, whose value mentions an unknown name the list does not
        # cover: "deleted" and "still an error" both apply; the property does not rank them
        raise OutOfDomain('skipped statement mentions an uncovered unknown name')
      if covered(target, skip):
        n_skipped += 1
        labels.add('skipped:' + s[0])
        status.append('skipped')
        continue
      error_expected = True
      break
    # applied statement: look at the references inside its value(s)
    values = [s[4]] if s[0] == 'bind' else [s[3]] if s[0] == 'macro' else [v for _, v in s[3]]
    bad = [r for v in values for r in refs_in(v) if unscoped(r[1]) in cur_unknown]
    if any(not covered(unscoped(r[1]), skip) for r in bad):
      error_expected = True
      break
    if bad:
      status.append('placeholder')
      labels.add('placeholder' + (':in-macro' if s[0] == 'macro' else ''))
    else:
      status.append('reduced')
      if LATE_NAME not in cur_unknown and (target == LATE_NAME or any(
          unscoped(r[1]) == LATE_NAME for v in values for r in refs_in(v))):
        labels.add('name-known-after-import-used')
        if any(LATE_NAME in u and st_ in ('skipped', 'placeholder')
               for u, st_ in zip(unk_at, status[:-1])):
          labels.add('same-name-unknown-before-known-after')
    n_applied += 1

  # A binding holding a placeholder still overrides earlier bindings of the same key (and is
  # itself not literally representable): drop from the reduced text every earlier statement
  # whose key is later re-bound by a placeholder-holding statement.
  def keys_of(s):
    if s[0] == 'bind':
      return [(s[1], s[2], s[3])]
    if s[0] == 'block':
      return [(s[1], s[2], a) for a, _ in s[3]]
    if s[0] == 'macro':
      return [('macro', S.render_key(s[1], s[2]))]
    return []

  flat = []          # applied statements in order, blocks split into members
  for s, st_, unk in zip(stmts, status, unk_at):
    if st_ in ('reduced', 'placeholder'):
      if s[0] == 'block':
        for a, v in s[3]:
          bad = any(unscoped(r[1]) in unk for r in refs_in(v))
          flat.append((['bind', s[1], s[2], a, v], bad))
      else:
        vals = [s[4]] if s[0] == 'bind' else [s[3]] if s[0] == 'macro' else []
        bad = any(unscoped(r[1]) in unk for v in vals for r in refs_in(v))
        flat.append((s, bad))
  reduced = []
  for i, (s, bad) in enumerate(flat):
    if bad:
      continue
    later_placeholder = any(b2 and set(keys_of(s2)) & set(keys_of(s))
                            for s2, b2 in flat[i + 1:])
    if not later_placeholder:
      reduced.append(s)

  # only placeholders that are not overwritten later are still in the configuration
  placeholders = [s for i, (s, bad) in enumerate(flat)
                  if bad and not any(set(keys_of(s2)) & set(keys_of(s)) for s2, _ in flat[i + 1:])]

  text = render(stmts, nm['header'], case['tape'])
  gin.clear_config()
  prelude = case.get('prelude') and case['mode'] == 'dynamic'
  if prelude:
    gin.parse_config(PRELUDE)
    labels.add('prelude-registered-am.fn')
  entry = case.get('entry') or 'string'
  if case['mode'] == 'dynamic' and entry not in ('string', 'list', 'tuple', 'bindings',
                                                 'bindings-list'):
    entry = 'string'
  labels.add('entry:' + entry)
  try:
    with warnings.catch_warnings():
      warnings.simplefilter('ignore')
      if entry == 'string':
        gin.parse_config(text, skip_unknown=skip_value(skip))
      elif entry == 'bindings':
        # the text given as the extra bindings of the multi-file entry point (no files)
        gin.parse_config_files_and_bindings(None, text, finalize_config=False,
                                            skip_unknown=skip_value(skip))
      elif entry == 'bindings-list':
        t = S.Tape(case['tape'])
        entries = list(nm['header']) + ['\n'.join(S.render_simple(s_, t, set())) for s_ in stmts]
        gin.parse_config_files_and_bindings([], entries, finalize_config=False,
                                            skip_unknown=skip_value(skip))
      elif entry in ('list', 'tuple'):
        # "a list of individual parameter binding strings": one entry per statement (the lines
        # of the header -- enabling statement and imports -- are entries of their own)
        t = S.Tape(case['tape'])
        entries = list(nm['header']) + ['\n'.join(S.render_simple(s_, t, set())) for s_ in stmts]
        gin.parse_config(entries if entry == 'list' else tuple(entries),
                         skip_unknown=skip_value(skip))
      else:
        # the same text reached as a file, or through an include: skip_unknown means the same
        path = os.path.join(tmp, 'c15text.gin')
        with open(path, 'w') as f:
          f.write(text)
        if entry == 'file':
          gin.parse_config_file(path, skip_unknown=skip_value(skip))
        elif entry == 'multi':
          gin.parse_config_files_and_bindings([path], None, finalize_config=False,
                                              skip_unknown=skip_value(skip))
        else:
          gin.parse_config(f"include '{path}'\n", skip_unknown=skip_value(skip))
    raised = None
  except Exception as e:  # pylint: disable=broad-except
    raised = e
  if error_expected:
    require(raised is not None, 'uncovered-unknown-name-accepted',
            lambda: f'skip_unknown={skip_value(skip)!r}\n{text}')
    return ok(labels | {'outcome:error-uncovered'}, False)
  require(raised is None, 'covered-text-rejected',
          lambda: f'{type(raised).__name__}: {raised}\nskip_unknown={skip_value(skip)!r}\n{text}')
  got_text = gin.config_str()
  got = binding_set(got_text)

  # ---- placeholders: kept, raise on use and at finalize -----------------------------------
  for s in placeholders:
    if s[0] == 'macro':
      key = '%' + S.render_key(s[1], s[2])
    elif s[0] == 'bind':
      key = S.render_key(s[1], s[2]) + '.' + s[3]
    else:
      key = None
    if key:
      try:
        gin.query_parameter(key)
      except ValueError:
        raise Violation('binding-with-placeholder-dropped', f'{key}\n{text}')
  # With %macro uses around, an unbound macro can fail first (on use and at finalize); the
  # placeholder behaviour is only asserted on macro-free cases (the generator makes most so).
  def uses_macro(v):
    return v[0] == 'mac' or (v[0] in ('list', 'tuple') and any(uses_macro(x) for x in v[1])) or (
        v[0] == 'dict' and any(uses_macro(k) or uses_macro(x) for k, x in v[1]))

  def values_of(s):
    return ([s[4]] if s[0] == 'bind' else [s[3]] if s[0] == 'macro' else
            [v for _, v in s[3]] if s[0] == 'block' else [])

  if any(uses_macro(v) for s in stmts for v in values_of(s)):
    placeholders_checked = []
    labels.add('placeholder-checks-skipped:macros-present')
  else:
    placeholders_checked = placeholders
  users = [s for s in placeholders_checked if s[0] in ('bind', 'block')]
  for s in users:
    with gin.config_scope(s[1] or None):
      try:
        gin.get_configurable(s[2])()
        raise Violation('placeholder-used-without-error', f'{S.render_key(s[1], s[2])}\n{text}')
      except ValueError as e:
        require('no configurable matching' in str(e).lower(), 'placeholder-error-text', str(e))
      except Violation:
        raise
      except Exception as e:  # pylint: disable=broad-except
        raise Violation('placeholder-wrong-exception', f'{type(e).__name__}: {e}')
  if placeholders_checked:
    labels.add('placeholder-use-and-finalize-checked')
    if any(s[0] == 'macro' for s in placeholders_checked):
      labels.add('finalize-checked:placeholder-in-macro-definition')
    if any(k[0] != 'lit' and any(True for _ in refs_in(k)) for s in placeholders_checked
           for v in values_of(s) for k in dict_keys_in(v)):
      labels.add('finalize-checked:placeholder-in-dict-key')
    try:
      gin.finalize()
      raise Violation('finalize-accepted-placeholder', text)
    except ValueError as e:
      require('no configurable matching' in str(e).lower(), 'finalize-error-text', str(e))
    require(not gin.config_is_locked(), 'locked-after-rejected-finalize', '')

  # ---- reference side: the reduced text, no skip_unknown ----------------------------------
  gin.clear_config()
  if prelude:
    gin.parse_config(PRELUDE)
  ref_text = render(reduced, nm['header'], case['tape'])
  try:
    with warnings.catch_warnings():
      warnings.simplefilter('ignore')
      gin.parse_config(ref_text)
  except Exception as e:  # pylint: disable=broad-except
    raise Violation('reduced-text-rejected',
                    f'(harness or Gin) {type(e).__name__}: {e}\n{ref_text}')
  want = binding_set(gin.config_str())
  require(got == want, 'differs-from-reduced-text',
          lambda: 'only with skip_unknown: %s\nonly in reduced: %s\n--- text:\n%s\n--- reduced:\n%s'
          % (sorted(set(got.items()) - set(want.items()), key=repr),
             sorted(set(want.items()) - set(got.items()), key=repr), text, ref_text))
  labels.add('outcome:equal')
  partial = skip[0] in ('list', 'tuple', 'set') and not unknown <= set(skip[1])
  nt = n_skipped >= 1 and n_applied >= 1 and (bool(placeholders) or partial)
  if nt:
    labels.add('nontrivial')
  return ok(labels, nt)


# ------------------------------------------------------------------------------ strategies
def _values_nomacro(refnames, depth, lit):
  leaf = st.one_of(
      lit.map(lambda t: ['lit', t]),
      st.tuples(st.sampled_from(['', '', 's', 's/t', 'a/b/c']), st.sampled_from(refnames),
                st.booleans()).map(
                    lambda t: ['ref', (t[0] + '/' if t[0] else '') + t[1], t[2]]))
  if depth <= 0:
    return leaf
  sub = _values_nomacro(refnames, depth - 1, lit)
  keys = st.sampled_from(["'k'", "'j'", '1']).map(lambda t: ['lit', t])
  return st.one_of(
      leaf, leaf,
      st.lists(sub, max_size=3).map(lambda xs: ['list', xs]),
      st.lists(sub, max_size=3).map(lambda xs: ['tuple', xs]),
      st.lists(st.tuples(keys, sub).map(list), max_size=2, unique_by=lambda kv: kv[0][1]).map(
          lambda xs: ['dict', xs]))


@st.composite
def strategy(draw):
  mode = draw(st.sampled_from(['static', 'static', 'dynamic']))
  nm = names_of(mode)
  known, unknown = sorted(nm['known']), nm['unknown']
  kind = draw(st.sampled_from(['false', 'true', 'true', 'list', 'tuple', 'set', 'list']))
  listed = []
  if kind in ('list', 'tuple', 'set'):
    # the list may also name configurables that are in fact known: they are still applied
    listed = draw(st.lists(st.sampled_from(unknown + unknown + ['other_unknown'] + known),
                           unique=True, min_size=1, max_size=5))
  refnames = known[:3] + unknown
  lit = literals.simple_value()

  with_macros = draw(st.integers(0, 3)) == 0

  def value(depth=1):
    if with_macros:
      return S.values(refnames, ['M', 'N'], ['', 's', 's/t', 'a/b/c'], depth=depth, lit=lit)
    return _values_nomacro(refnames, depth, lit)

  stmts = []
  for _ in range(draw(st.integers(1, 8))):
    k = draw(st.sampled_from(['bind', 'bind', 'bind', 'bind-unknown', 'block', 'block-unknown',
                              'macro', 'import', 'import-missing', 'consumer', 'placeholder',
                              'placeholder']))
    scope = draw(st.sampled_from(['', '', 's']))
    if k == 'bind':
      sel = draw(st.sampled_from(known))
      stmts.append(['bind', scope, sel, draw(st.sampled_from(nm['known'][sel])), draw(value())])
    elif k == 'placeholder':
      # a binding of a known configurable (or a macro) holding a reference to an unknown name
      # that the chosen skip_unknown covers (when it covers any)
      cov = unknown if kind == 'true' else [u for u in listed if u in unknown]
      u = draw(st.sampled_from(cov or unknown))
      ref = ['ref', draw(st.sampled_from(['', 's/', 's/t/'])) + u, draw(st.booleans())]
      v = draw(st.sampled_from([ref, ['list', [['lit', '1'], ref]],
                                ['dict', [[['lit', "'k'"], ['tuple', [ref]]]]],
                                # in key position (uncalled references only: a key is hashed)
                                ['dict', [[['ref', ref[1], False], ['lit', '1']]]],
                                ['list', [['dict', [[['tuple', [['lit', '1'], ['ref', ref[1], False]]],
                                                     ['lit', "'v'"]]]]]]]))
      if draw(st.integers(0, 3)) == 0:
        stmts.append(['macro', '', draw(st.sampled_from(['M', 'N'])), v])
      else:
        sel = draw(st.sampled_from(known))
        stmts.append(['bind', scope, sel, draw(st.sampled_from(nm['known'][sel])), v])
    elif k == 'consumer':
      cons = 'cons' if mode == 'static' else 'dm.cons'
      stmts.append(['bind', scope, cons, draw(st.sampled_from('xy')), draw(value(2))])
    elif k == 'bind-unknown':
      tgt = draw(st.sampled_from(unknown + (['fb'] if mode == 'static' else [])))
      stmts.append(['bind', scope, tgt, 'p', draw(value(0))])
    elif k == 'block':
      sel = draw(st.sampled_from(known))
      args = draw(st.lists(st.sampled_from(nm['known'][sel]), min_size=1, max_size=2))
      stmts.append(['block', scope, sel, [[a, draw(value(0))] for a in args]])
    elif k == 'block-unknown':
      stmts.append(['block', scope, draw(st.sampled_from(unknown)),
                    [[a, draw(value(0))] for a in ['p', 'zz'][:draw(st.integers(1, 2))]]])
    elif k == 'macro':
      stmts.append(['macro', draw(st.sampled_from(['', 'sc'])), draw(st.sampled_from(['M', 'N'])),
                    draw(value(1))])
    elif k == 'import':
      stmts.append(['import', draw(st.sampled_from(
          GOOD_IMPORTS + ([LATE_IMPORT] * 3 if mode == 'static' else []))), False])
    else:
      stmts.append(['import', draw(st.sampled_from(MISSING_IMPORTS)), True])
  if mode == 'static' and draw(st.integers(0, 4)) == 0:
    # one name referenced (or configured) before the import that registers it and again after
    ev = draw(st.booleans())
    before = draw(st.sampled_from([['bind', '', 'cons', 'x', ['ref', LATE_NAME, ev]],
                                   ['bind', 's', 'fa', 'p', ['list', [['ref', 's/' + LATE_NAME, ev]]]],
                                   ['bind', '', LATE_NAME, 'p', ['lit', '1']]]))
    after = draw(st.sampled_from([['bind', '', 'cons', 'x', ['ref', LATE_NAME, ev]],
                                  ['bind', '', 'cons', 'y', ['tuple', [['ref', LATE_NAME, not ev]]]],
                                  ['block', '', LATE_NAME, [['p', ['lit', '2']]]]]))
    at = draw(st.integers(0, len(stmts)))
    stmts[at:at] = [before, ['import', LATE_IMPORT, False], after]

  def no_known_calls(v):
    # evaluated references to known configurables could form call cycles (cons.x = @cons());
    # they are not what this property is about
    if v[0] == 'ref' and unscoped(v[1]) in nm['known']:
      return ['ref', v[1], False]
    if v[0] in ('list', 'tuple'):
      return [v[0], [no_known_calls(x) for x in v[1]]]
    if v[0] == 'dict':
      return ['dict', [[k, no_known_calls(x)] for k, x in v[1]]]
    return v

  def no_self_calls(v):
    # late_fn.p = @late_fn() would recurse for ever once late_fn is known
    if v[0] == 'ref' and unscoped(v[1]) == LATE_NAME:
      return ['ref', v[1], False]
    if v[0] in ('list', 'tuple'):
      return [v[0], [no_self_calls(x) for x in v[1]]]
    if v[0] == 'dict':
      return ['dict', [[no_self_calls(k), no_self_calls(x)] for k, x in v[1]]]
    return v

  for s in stmts:
    if s[0] == 'bind' and s[2] == LATE_NAME:
      s[4] = no_self_calls(s[4])
    elif s[0] == 'block' and s[2] == LATE_NAME:
      s[3] = [[a, no_self_calls(v)] for a, v in s[3]]
  for s in stmts:
    if s[0] == 'bind':
      s[4] = no_known_calls(s[4])
    elif s[0] == 'macro':
      s[3] = no_known_calls(s[3])
    elif s[0] == 'block':
      s[3] = [[a, no_known_calls(v)] for a, v in s[3]]
  return {'mode': mode, 'skip': [kind, listed], 'stmts': stmts, 'tape': draw(S.tapes(10)),
          'entry': draw(st.sampled_from(['string', 'string', 'file', 'include', 'multi', 'list',
                                         'tuple', 'bindings', 'bindings-list'])),
          'prelude': draw(st.booleans())}
