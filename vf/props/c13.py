"""C13 — registration is transparent to the registered function or class.

target cases     : a class shape or callable kind is generated as *source text*, exec'ed twice in
                   two real modules (the original that is handed to Gin, and a twin that Gin never
                   sees), registered through one API and one decorator form, bindings are made
                   (unscoped and under a scope), and
                     - register returns the identical object; register / external_configurable
                       leave vars(original) identical and direct calls behave exactly like the twin
                       (no injected value, inside and outside a config scope);
                     - every registry version (returned wrapper, get_configurable(original),
                       get_configurable(selector), @reference; scoped and unscoped) receives what
                       Python gives the twin when the applicable bindings are passed by keyword;
                     - configurable(...) result keeps __name__/__doc__/inspect.signature;
                     - class versions: issubclass, __name__/__module__/__doc__, isinstance, exact
                       type (no registered method), pickle round trip when the original pickles.
invalid cases    : bad name / bad module / different object under an existing full name (a fresh
                   object, or one that is itself already registered under another name, or Gin's
                   wrapper of it) / unknown allow- or denylist name / both lists -> raises, and a
                   probe of the registry (old names, new names, the objects) is unchanged.
                   (the list faults are also tried as a second registration of the same object
                   under the full name it already has: rejected, first registration intact)
final cases      : classes that refuse to be subclassed (__init_subclass__ raising, vetoing
                   metaclass) through register / external_configurable: rejected or not, the
                   class is unaltered, a rejection registers nothing, direct calls are uninjected.
nesting cases    : programs of nested interactive_mode() blocks (depth <= 3, normal / exception
                   exit) and top-level enter/exit calls with re-registration attempts at every
                   position; accepted iff an enclosing block or an explicit enter is active.
dynreg cases     : the config-file registration API ('from __gin__ import dynamic_registration'):
                   a module's own K would be registered under a full name held by a different
                   object registered from Python -> ValueError, registry probe unchanged.
bulk cases       : hundreds of rejected registrations of short-lived functions followed by
                   brand-new functions; every allow/deny list is judged by the function's own
                   parameters (no stale per-object state may survive a dead function).
interactive cases: re-registration is rejected outside, accepted inside an interactive block
                   (context manager left normally or by exception, or enter/exit calls) and
                   rejected again after it; the name is used through scoped access paths before
                   the re-registration and must reach the new object, with the scoped binding,
                   through every path (selector, scoped selector, object inside config_scope,
                   reference, scoped reference) after it.
"""
import contextlib
import gc
import inspect
import itertools
import pickle
import re
import sys
import types

from hypothesis import strategies as st

from vf import ginenv
from vf.core import OutOfDomain, Violation, ok, require

gin = ginenv.import_gin()

ID = 'C13'
LEVEL = 'exploration'
ISOLATE = True
BUDGET = {'quick': (4, 400), 'thorough': (16, 1500)}
RULE = ('target cases: class shape or callable kind (40 kinds, generated as source text and '
        'exec\'ed in real modules) x API (configurable/register/external_configurable) x '
        'decorator form (bare, call, name, name+module, module, dotted name, dotted name+module) '
        'x scope ("" / s / s/t) x Hypothesis-generated signature (0-2 positional, 0-2 defaulted, '
        '*args, 0-2 kw-only, 0-2 defaulted kw-only, **kw) x docstring form x which parameters '
        'are bound at which scope level x caller style. Sweeps: the full kind x API x scoped '
        'product on one rich signature (exhaustive), all forms x APIs on four kinds, every '
        'invalid-registration fault x API x target x interactive flag, every interactive exit '
        'kind x API x API. invalid cases: 0-2 prior registrations, then one faulty registration '
        '(11 bad names / modules incl. two that end in a newline, an invalid module also combined with a valid dotted name, a fresh object under an existing full name via 3 spellings, '
        'an object -- or Gin\'s wrapper of it -- that is already registered under another name '
        'put under a full name held by a different object, unknown allow/deny names, both '
        'lists -- the three list faults also as a SECOND registration of an object that is already '
        'validly registered under that very full name). interactive cases: exit in {normal, exception after / before the '
        're-registration, explicit enter/exit} x stray exit_interactive_mode() calls while the mode '
        'is off (before everything / after the block) x scope x which scoped access paths touch the name '
        'before the re-registration (all five access paths are checked after it); rejected '
        'registrations of classes with Gin-registered methods also probe the method\'s selectors '
        'and function. dynreg cases: 7 kinds x first API x 3 spellings x 4 '
        'statement forms (import / from-import, binding / reference); bulk cases: 50-400 rejected '
        'registrations of short-lived functions then 20-120 new functions, APIs rotated, '
        'allowlist / denylist / mixed (non-trivial if >=100 and >=40). Non-trivial (target) = (class shape other than '
        'plain __init__ or API other than configurable) with a binding present and a scope '
        'applied; (invalid/interactive) = same shape/API condition and at least one other '
        'registration present. Distinct = distinct case JSON.')
ASSUMPTIONS = [
    'Gin passes bindings by keyword (documented); the expected result of a registry call is what '
    'Python gives the never-registered twin for call(*args, **{applicable bindings, caller kwargs}); '
    'callers never supply a bound parameter themselves (caller-vs-binding precedence is C01)',
    'the full name of a registration is [module.]name, module defaulting to the object\'s '
    '__module__ unless the given name already has module components (docstrings of configurable / '
    'register / external_configurable)',
    'builtin types (dict) are used with register / external_configurable only (design P: '
    'gin.configurable must mutate the class in place and CPython refuses)',
    'metadata is compared only for attributes the original has (callable instances and '
    'functools.partial objects have no __name__; lambdas must be given a name)',
    '"rejected" = any Exception subclass is raised (the class is recorded as a label); for a '
    'duplicate full name and for both lists the documented ValueError is required',
    'exit_interactive_mode() called while the mode is off leaves it off (one is certainly not '
    'inside interactive mode then); enter twice / exit once is not generated (ambiguous like '
    'nesting)',
    'for callables that Python re-creates on every attribute access (bound methods, bound '
    'builtins, method wrappers) "the original object" includes a re-created equal object',
    'dynamic registration is a registration API: it names a module attribute <module path>.<attr>; '
    'import aliases are not generated (the alias becomes part of the registered name, nothing '
    'clashes) and acceptance inside interactive mode is not asserted for it',
    'nested interactive blocks (nesting cases): the mode is on iff at least one enclosing '
    'interactive_mode() block is active or enter_interactive_mode() has not been undone; explicit '
    'enter/exit are generated at top level only and never unbalanced inside a block; injection into registered *methods* through a '
    'class version is not asserted (the statement only says such instances need not be of the '
    'exact class)',
    'an abstract class cannot have an instance "of exactly that class": constructing any version '
    'of it must raise TypeError, as constructing the original does',
    'unknown allow/denylist names are names no signature has (zz, nope, a9); "self" / "cls" count '
    'as parameters of a constructor for Gin\'s list validation and are not generated',
    'after a rejected registration the object is unknown to Gin (gin.get_bindings(obj) and '
    'gin.get_configurable(obj) raise) and a valid registration of the same object then works '
    'like a first registration',
    'names ending in "\\n" (undotted and dotted) are among the invalid names; the undotted one '
    'found a defect (rejected only after decoration) that /repo fix 28a88c8 repaired',
    'registering an object inside interactive mode under a name that already exists must succeed '
    'and the name then reaches the newly registered object; what get_configurable(<replaced '
    'object>) returns afterwards is not asserted',
]
FLOORS = {'nontrivial': 0.15, 'kind:invalid': 0.1, 'kind:interactive': 0.05,
          'target:class': 0.2, 'target:callable': 0.1, 'scoped': 0.2,
          'api:register': 0.15, 'api:external': 0.15, 'api:configurable': 0.15,
          'pickle-roundtrip': 0.1, 'invalid:registry-nonempty': (0.4, 'kind:invalid')}
TECHNIQUE = ('differential property testing: generated class shapes / callables are exec\'ed twice '
             'and the copy handed to Gin is compared with a twin Gin never saw (direct calls, '
             'identity of vars(), registry calls vs Python keyword call of the twin), plus an '
             'exhaustive shape x API x scope sweep and registry-probe atomicity checks for '
             'rejected registrations and interactive-mode blocks')
LEVEL_TEXT = ('Every cell of class shape / callable kind x registration API x scoped-or-not is '
              'executed on one rich signature (exhaustive for that bound), and Hypothesis varies '
              'signature, docstring, decorator form, bound parameters and scope depth. For each '
              'case the object given to Gin must stay identical to itself (vars by identity) and '
              'behave like a twin built from the same source that Gin never saw, while every '
              'registry version must deliver exactly the keyword-injected call of that twin; class '
              'versions are checked for subclass relation, metadata, instance type and pickle '
              'round trip. Rejected registrations and interactive blocks are checked by probing '
              'the registry through get_configurable before and after. Exploration: it shows no '
              'counter-example within the generated kinds, not absence for every Python class.')
LEVEL_NOTE = ('Trusted: CPython call semantics, inspect.signature, pickle; the source generator '
              '(the twin differential makes a generator mistake show up as equal behaviour on '
              'both sides, never as a false alarm). Registry size is observed only through '
              'get_configurable on a closed list of names and objects (no public size API).')

SENTINEL = 'INJ'
MOD_A = 'c13mod_a'      # the module whose K is handed to Gin
MOD_T = 'c13mod_t'      # the twin: same source, never handed to the API under test
APIS = ['configurable', 'register', 'external']
FORMS = ['bare', 'call', 'name', 'name_module', 'module', 'dotted', 'dotted_module']
NAMELESS_FORMS = ['name', 'name_module', 'dotted', 'dotted_module']
SCOPES = ['', 's', 's/t']
NM, MODNAME, DOTTED = 'nm', 'pk.mod', 'pk.sub.nm'

# kind -> (is_class, signature capability, has valid __name__, registered methods)
KINDS = {
    'init': (True, 'full', True, False),
    'new': (True, 'full', True, False),
    'both': (True, 'full', True, False),
    'neither': (True, 'none', True, False),
    'inherited': (True, 'full', True, False),
    'meta': (True, 'full', True, False),
    'slots': (True, 'full', True, False),
    # __qualname__ != __name__: nested in another class ('Outer.K'; pickles through the
    # qualified name) and defined inside a function ('_make.<locals>.K'; does not pickle)
    'nested': (True, 'full', True, False),
    'local': (True, 'full', True, False),
    'namedtuple': (True, 'fields', True, False),
    'namedtuple_sub': (True, 'fields', True, False),
    'typing_nt': (True, 'fields', True, False),
    'dataclass': (True, 'dc', True, False),
    'dataclass_slots': (True, 'dc', True, False),
    'abc_concrete': (True, 'full', True, False),
    'abc_abstract': (True, 'full', True, False),
    'sub_of_configurable': (True, 'full', True, False),
    'sub_of_external': (True, 'full', True, False),
    # NO registered method of its own: the class merely stores, under the function's own name, a
    # Gin-registered helper of the same module whose __qualname__ is dotted because it was
    # defined elsewhere (static helper of another class, closure) -> exact type and pickling
    'helper_static': (True, 'full', True, False),
    'helper_attr': (True, 'full', True, False),
    'helper_closure': (True, 'full', True, False),
    'helper_dataclass': (True, 'dc', True, False),
    'reg_method': (True, 'full', True, True),
    'cfg_method': (True, 'full', True, True),
    'builtin_dict': (True, 'varkw', True, False),
    'fn': (False, 'full', True, False),
    # a function already decorated by an ordinary functools.wraps decorator (it carries
    # __wrapped__, its inner function is unknown to Gin) -- one and two levels
    'wrapped_fn': (False, 'full', True, False),
    'wrapped_fn2': (False, 'full', True, False),
    'lambda': (False, 'full', False, False),
    'callobj': (False, 'full', False, False),
    'partial': (False, 'full', False, False),
    'builtin_sum': (False, 'builtin', True, False),
    'builtin_pow': (False, 'builtin', True, False),
    # callables that Python re-creates on every attribute access (equal, same hash, not
    # identical): the module also defines _fresh(), and lookup by object is additionally made
    # through such a re-created equal object
    'bound_method': (False, 'full', True, False),
    'methwrap_call': (False, 'full', True, False),      # fn.__call__, a method-wrapper
    'bound_builtin': (False, 'builtin', True, False),   # '{a}|{b}'.format
    # falsy objects: a callable instance whose class defines __len__ -> 0 (it has a __name__)
    # and a class whose metaclass defines __len__ -> 0
    'callobj_falsy': (False, 'full', True, False),
    'falsy_class': (True, 'full', True, False),
    'methwrap': (False, 'none', True, False),
    'slotwrap': (False, 'none', True, False),
}
CLASS_KINDS = [k for k, v in KINDS.items() if v[0]]
CALLABLE_KINDS = [k for k, v in KINDS.items() if not v[0]]
BUILTIN = {  # kind -> (source, call args, bindable name, value per scope level, caller kwargs)
    'builtin_sum': ('K = sum\n', [[1, 2, 3]], 'start', [10, 100, 1000], {}),
    'builtin_pow': ('K = pow\n', [2, 10], 'mod', [7, 5, 3], {}),
    'bound_builtin': ("_TEMPLATE = '{a}|{b}'\nK = _TEMPLATE.format\n\n"
                      'def _fresh():\n  return _TEMPLATE.format\n',
                      [], 'a', ['x0', 'x1', 'x2'], {'b': 'call:b'}),
}
RICH_SIG = {'pos': 1, 'dflt': 2, 'varargs': True, 'kwo': 1, 'kwod': 1, 'varkw': True}


def excluded(kind, api):
  return kind == 'builtin_dict' and api == 'configurable'


# ----------------------------------------------------------------------------- source generator
def norm_sig(kind, sig):
  cap = KINDS[kind][1]
  s = {'pos': int(sig.get('pos', 0)) % 3, 'dflt': int(sig.get('dflt', 0)) % 3,
       'varargs': bool(sig.get('varargs')), 'kwo': int(sig.get('kwo', 0)) % 3,
       'kwod': int(sig.get('kwod', 0)) % 3, 'varkw': bool(sig.get('varkw'))}
  if cap == 'fields':
    s.update(varargs=False, kwo=0, kwod=0, varkw=False)
  elif cap == 'dc':
    s.update(varargs=False, varkw=False)
  elif cap in ('none', 'builtin'):
    s = {'pos': 0, 'dflt': 0, 'varargs': False, 'kwo': 0, 'kwod': 0, 'varkw': False}
  elif cap == 'varkw':
    s = {'pos': 0, 'dflt': 0, 'varargs': False, 'kwo': 0, 'kwod': 0, 'varkw': True}
  if cap in ('fields', 'dc') and s['pos'] + s['dflt'] + s['kwo'] + s['kwod'] == 0:
    s['dflt'] = 1
  return s


def names_of(sig):
  return ([f'a{i}' for i in range(sig['pos'])], [f'd{i}' for i in range(sig['dflt'])],
          [f'k{i}' for i in range(sig['kwo'])], [f'e{i}' for i in range(sig['kwod'])])


def sig_text(sig, first=None):
  pos, dflt, kwo, kwod = names_of(sig)
  parts = [first] if first else []
  parts += pos + [f"{d}='dflt:{d}'" for d in dflt]
  if sig['varargs']:
    parts.append('*va')
  elif kwo or kwod:
    parts.append('*')
  parts += kwo + [f"{e}='dflt:{e}'" for e in kwod]
  if sig['varkw']:
    parts.append('**kw')
  return ', '.join(parts)


def rec_text(sig, tag=False):
  pos, dflt, kwo, kwod = names_of(sig)
  items = [f"'{n}': {n}" for n in pos + dflt + kwo + kwod]
  if tag:
    items.append("'@': __name__")      # lets a result say which module's object produced it
  if sig['varargs']:
    items.append("'*': list(va)")
  if sig['varkw']:
    items.append("'**': dict(sorted(kw.items()))")
  return '{' + ', '.join(items) + '}'


DOCS = [None, 'One line about K.', 'Summary of K.\n\n  Args:\n    a0: first.\n  ']


def doc_text(doc, indent='  '):
  d = DOCS[doc % len(DOCS)]
  return '' if d is None else f'{indent}"""{d}"""\n'


def build_source(kind, sig, doc, tag=False):
  """Python source defining K (and helpers _rec / _extra) for one kind."""
  s, r, d = sig_text, rec_text(sig, tag and not KINDS[kind][0]), doc_text(doc)
  pos, dflt, kwo, kwod = names_of(sig)
  head = 'import abc, collections, dataclasses, functools, typing\nimport gin\n\n'
  rec_attr = 'def _rec(x):\n  return dict(x.rec)\n'
  extra_none = 'def _extra(x):\n  return None\n'
  init = f'  def __init__({s(sig, "self")}):\n    self.rec = {r}\n'
  if kind == 'init':
    body = f'class K:\n{d}{init}'
  elif kind == 'new':
    body = (f'class K:\n{d}  def __new__({s(sig, "cls")}):\n    self = super().__new__(cls)\n'
            f'    self.rec = {r}\n    return self\n')
  elif kind == 'both':
    body = (f'class K:\n{d}  def __new__(cls, *args, **kwargs):\n'
            f'    self = super().__new__(cls)\n    self.made_by_new = True\n    return self\n{init}')
    extra_none = "def _extra(x):\n  return getattr(x, 'made_by_new', None)\n"
  elif kind == 'neither':
    body = f'class K:\n{d}  TAG = 1\n'
    rec_attr = 'def _rec(x):\n  return {}\n'
  elif kind == 'inherited':
    body = f'class _Base:\n{init}\nclass K(_Base):\n{d}  TAG = 1\n'
  elif kind == 'meta':
    body = ('class M(type):\n  def __call__(cls, *args, **kwargs):\n'
            '    inst = super().__call__(*args, **kwargs)\n'
            "    inst.meta_calls = getattr(inst, 'meta_calls', 0) + 1\n    return inst\n\n"
            f'class K(metaclass=M):\n{d}{init}')
    extra_none = "def _extra(x):\n  return getattr(x, 'meta_calls', None)\n"
  elif kind == 'nested':
    inner = ''.join('  ' + line + '\n' for line in f'class K:\n{d}{init}'.splitlines())
    body = f'class Outer:\n  TAG = 1\n\n{inner}\nK = Outer.K\n'
  elif kind == 'local':
    inner = ''.join('  ' + line + '\n' for line in f'class K:\n{d}{init}'.splitlines())
    body = f'def _make():\n{inner}  return K\n\nK = _make()\n'
  elif kind == 'slots':
    body = f"class K:\n{d}  __slots__ = ('rec',)\n{init}"
  elif kind in ('namedtuple', 'namedtuple_sub'):
    fields = pos + dflt
    dv = [f'dflt:{x}' for x in dflt]
    nt = f"collections.namedtuple('{{}}', {fields!r}, defaults={dv!r})"
    if kind == 'namedtuple':
      body = f"K = {nt.format('K')}\n"
    else:
      body = f"class K({nt.format('KBase')}):\n{d}  __slots__ = ()\n"
    rec_attr = 'def _rec(x):\n  return dict(x._asdict())\n'
  elif kind == 'typing_nt':
    lines = [f'  {x}: object\n' for x in pos] + [f"  {x}: object = 'dflt:{x}'\n" for x in dflt]
    body = f"class K(typing.NamedTuple):\n{d}{''.join(lines)}"
    rec_attr = 'def _rec(x):\n  return dict(x._asdict())\n'
  elif kind in ('dataclass', 'dataclass_slots'):
    lines = [f'  {x}: object\n' for x in pos] + [f"  {x}: object = 'dflt:{x}'\n" for x in dflt]
    lines += [f'  {x}: object = dataclasses.field(kw_only=True)\n' for x in kwo]
    lines += [f"  {x}: object = dataclasses.field(default='dflt:{x}', kw_only=True)\n"
              for x in kwod]
    deco = ('@dataclasses.dataclass' if kind == 'dataclass' else
            '@dataclasses.dataclass(frozen=True, slots=True)')
    body = f"{deco}\nclass K:\n{d}{''.join(lines)}"
    rec_attr = ('def _rec(x):\n'
                '  return {f.name: getattr(x, f.name) for f in dataclasses.fields(x)}\n')
  elif kind == 'abc_concrete':
    body = ('class _Abstract(abc.ABC):\n  @abc.abstractmethod\n  def m(self):\n    pass\n\n'
            f'class K(_Abstract):\n{d}{init}  def m(self):\n    return 1\n')
  elif kind == 'abc_abstract':
    body = (f'class K(abc.ABC):\n{d}{init}  @abc.abstractmethod\n  def m(self):\n    pass\n')
  elif kind == 'sub_of_configurable':
    body = f'@gin.configurable\nclass Parent:\n{init}\nclass K(Parent):\n{d}  TAG = 1\n'
  elif kind == 'sub_of_external':
    body = (f'class _P0:\n{init}\nParent = gin.external_configurable(_P0, "ExtParent")\n\n'
            f'class K(Parent):\n{d}  TAG = 1\n')
  elif kind in ('helper_static', 'helper_attr', 'helper_closure', 'helper_dataclass'):
    helpers = ('class Helpers:\n  @staticmethod\n  @gin.register\n'
               "  def relu(x=0, leak='dflt:leak'):\n    return (x, leak)\n\n")
    if kind == 'helper_closure':
      helpers = ("def _make_helper():\n  @gin.register\n"
                 "  def relu(x=0, leak='dflt:leak'):\n    return (x, leak)\n  return relu\n\n"
                 'relu = _make_helper()\n\n')
    if kind == 'helper_dataclass':
      lines = [f'  {x}: object\n' for x in pos] + [f"  {x}: object = 'dflt:{x}'\n" for x in dflt]
      lines += ['  relu: object = Helpers.relu\n']
      lines += [f'  {x}: object = dataclasses.field(kw_only=True)\n' for x in kwo]
      lines += [f"  {x}: object = dataclasses.field(default='dflt:{x}', kw_only=True)\n"
                for x in kwod]
      body = f"{helpers}@dataclasses.dataclass\nclass K:\n{d}{''.join(lines)}"
      rec_attr = ('def _rec(x):\n  return {f.name: getattr(x, f.name) '
                  "for f in dataclasses.fields(x) if f.name != 'relu'}\n")
    else:
      attr = {'helper_static': 'staticmethod(Helpers.relu)', 'helper_attr': 'Helpers.relu',
              'helper_closure': 'relu'}[kind]
      body = f'{helpers}class K:\n{d}  relu = {attr}\n{init}'
  elif kind in ('reg_method', 'cfg_method'):
    deco = '@gin.register' if kind == 'reg_method' else '@gin.configurable'
    body = (f"class K:\n{d}{init}  {deco}\n  def meth(self, q='dflt:q'):\n    return q\n")
    extra_none = 'def _extra(x):\n  return x.meth()\n'
  elif kind == 'builtin_dict':
    body = 'K = dict\n'
    rec_attr = 'def _rec(x):\n  return dict(x)\n'
  elif kind == 'fn':
    body = f'def K({s(sig)}):\n{d}  return {r}\n'
  elif kind in ('wrapped_fn', 'wrapped_fn2'):
    body = ('def _deco(fn):\n  @functools.wraps(fn)\n  def wrapper(*args, **kwargs):\n'
            '    return fn(*args, **kwargs)\n  return wrapper\n\n' +
            '@_deco\n' * (1 if kind == 'wrapped_fn' else 2) +
            f'def K({s(sig)}):\n{d}  return {r}\n')
  elif kind == 'lambda':
    body = f'K = lambda {s(sig)}: {r}\n'
  elif kind == 'callobj':
    body = (f'class _Callable:\n{d}  def __init__(self):\n    self.state = 7\n'
            f'  def __call__({s(sig, "self")}):\n    return {r}\n\nK = _Callable()\n')
  elif kind == 'partial':
    body = (f'def _base({s(sig, "p")}):\n{d}  return dict({r}, p=p)\n\n'
            "K = functools.partial(_base, 'P')\n")
  elif kind in BUILTIN:
    body = BUILTIN[kind][0]
  elif kind == 'methwrap':
    body = 'K = (7).__add__\n\ndef _fresh():\n  return (7).__add__\n'
  elif kind == 'bound_method':
    body = (f'class _Owner:\n  def K({s(sig, "self")}):\n{doc_text(doc, "    ")}'
            f'    return {r}\n\n_owner = _Owner()\nK = _owner.K\n\n'
            'def _fresh():\n  return _owner.K\n')
  elif kind == 'methwrap_call':
    body = (f'def _inner({s(sig)}):\n{d}  return {r}\n\nK = _inner.__call__\n\n'
            'def _fresh():\n  return _inner.__call__\n')
  elif kind == 'callobj_falsy':
    body = (f"class _Callable:\n{d}  __name__ = 'K'\n  def __len__(self):\n    return 0\n"
            f'  def __call__({s(sig, "self")}):\n    return {r}\n\nK = _Callable()\n')
  elif kind == 'falsy_class':
    body = ('class _FalsyMeta(type):\n  def __len__(cls):\n    return 0\n\n'
            f'class K(metaclass=_FalsyMeta):\n{d}{init}')
  elif kind == 'slotwrap':
    body = 'K = int.__add__\n'
  else:
    raise OutOfDomain('unknown kind ' + kind)
  if not KINDS[kind][0]:
    rec_attr = 'def _rec(x):\n  return x\n'
  return head + body + '\n' + rec_attr + extra_none


def load_module(name, src):
  mod = types.ModuleType(name)
  mod.__file__ = f'<{name}>'
  sys.modules[name] = mod
  exec(compile(src, f'<{name}>', 'exec'), mod.__dict__)  # pylint: disable=exec-used
  return mod


# ----------------------------------------------------------------------------- helpers
_MISSING = object()


def snap(obj):
  d = getattr(obj, '__dict__', None)
  return None if d is None else dict(d)


def snap_diff(before, obj):
  """Names whose entry in vars(obj) differs (by identity) from the snapshot."""
  after = snap(obj)
  if before is None or after is None:
    return [] if before is after else ['__dict__']
  return sorted(k for k in set(before) | set(after)
                if before.get(k, _MISSING) is not after.get(k, _MISSING))


def expected_full_name(form, obj):
  """[module.]name as documented; module defaults to obj.__module__ for undotted names."""
  default_mod = getattr(obj, '__module__', None)
  if form in ('bare', 'call'):
    name, module = obj.__name__, None
  elif form == 'name':
    name, module = NM, None
  elif form == 'name_module':
    name, module = NM, MODNAME
  elif form == 'module':
    name, module = obj.__name__, MODNAME
  elif form == 'dotted':
    name, module = DOTTED, None
  elif form == 'dotted_module':
    name, module = 'sub.' + NM, 'pk'
  else:
    raise OutOfDomain('form ' + form)
  if '.' not in name and module is None:
    module = default_mod
  return (module + '.' + name) if module else name


def form_args(form, obj):
  """(name, module) to pass; None = do not pass."""
  return {'bare': (None, None), 'call': (None, None), 'name': (NM, None),
          'name_module': (NM, MODNAME), 'module': (None, MODNAME), 'dotted': (DOTTED, None),
          'dotted_module': ('sub.' + NM, 'pk')}[form]


def do_register(api, form, obj, name=_MISSING, module=_MISSING, **lists):
  """Registers obj through the public API; returns whatever the API returns."""
  n, m = form_args(form, obj)
  if name is not _MISSING:
    n = name
  if module is not _MISSING:
    m = module
  kw = dict(lists)
  if m is not None:
    kw['module'] = m
  if api == 'external':
    if n is not None:
      if form == 'name':
        return gin.external_configurable(obj, n, **kw)     # positional name
      kw['name'] = n
    return gin.external_configurable(obj, **kw)
  deco = gin.configurable if api == 'configurable' else gin.register
  if form == 'bare' and n is None and not kw:
    return deco(obj)
  if n is not None:
    return deco(n, **kw)(obj)
  return deco(**kw)(obj)


def scope_prefixes(scope):
  parts = scope.split('/') if scope else []
  return ['/'.join(parts[:i]) for i in range(len(parts) + 1)]


def in_scope(scope):
  return gin.config_scope(scope) if scope else contextlib.nullcontext()


def call(fn, args, kwargs, scope=''):
  """('ok', result) or ('exc', exception)."""
  try:
    with in_scope(scope):
      return ('ok', fn(*args, **kwargs))
  except Exception as e:  # pylint: disable=broad-except
    return ('exc', e)


def summary(out, rec, extra=None):
  """JSON-comparable summary of a call outcome."""
  if out[0] == 'exc':
    return ['exc', [c.__name__ for c in type(out[1]).__mro__
                    if c.__module__ == 'builtins' and c is not object][0]]
  res = ['ok', rec(out[1])]
  if extra is not None:
    res.append(extra(out[1]))
  return res


@gin.configurable('c13consumer', module='c13probe')
def _consumer(x=None):
  return x


# ----------------------------------------------------------------------------- target cases
def plan_bindings(kind, sig, scope, bind, extra_kw):
  """-> {scope_prefix: {param: value}} from (param index, level) pairs."""
  prefixes = scope_prefixes(scope)
  cap = KINDS[kind][1]
  plan = {p: {} for p in prefixes}
  if cap == 'none':
    return plan
  if cap == 'builtin':
    _, _, pname, values, _ = BUILTIN[kind]
    for _, level in bind or [[0, 0]]:
      lv = level % len(prefixes)
      plan[prefixes[lv]][pname] = values[lv]
    return plan
  pos, dflt, kwo, kwod = names_of(sig)
  named = pos + dflt + kwo + kwod
  for idx, level in bind:
    if not named:
      break
    lv = level % len(prefixes)
    p = named[idx % len(named)]
    plan[prefixes[lv]][p] = f'{SENTINEL}:{p}:{lv}'
  if sig['varkw'] and (extra_kw or not named):
    lv = (extra_kw or 0) % len(prefixes)
    plan[prefixes[lv]]['xk'] = f'{SENTINEL}:xk:{lv}'
  return plan


def overlay(plan, scope):
  res = {}
  for p in scope_prefixes(scope):
    res.update(plan.get(p, {}))
  return res


def caller_args(kind, sig, bound, style):
  """Arguments a caller must give so that, with `bound` supplied by keyword, the call is
  complete; bound parameters are never supplied by the caller."""
  if kind in BUILTIN:
    kwargs = dict(BUILTIN[kind][4])
    if kind == 'bound_builtin' and 'a' not in bound:
      kwargs['a'] = 'call:a'           # the template needs both fields
    return list(BUILTIN[kind][1]), kwargs
  if kind == 'methwrap':
    return [5], {}
  if kind == 'slotwrap':
    return [7, 5], {}
  pos, _, kwo, _ = names_of(sig)
  args, kwargs = [], {}
  positional_run = style % 2 == 1
  for p in pos:
    if p in bound:
      positional_run = False
      continue
    if positional_run:
      args.append('call:' + p)
    else:
      kwargs[p] = 'call:' + p
  for k in kwo:
    if k not in bound:
      kwargs[k] = 'call:' + k
  if style >= 2 and sig['varkw']:
    kwargs['ck'] = 'call:ck'
  return args, kwargs


def check_class_version(how, ver, orig, meta):
  require(inspect.isclass(ver), 'class-version-not-a-class', lambda: f'{how}: {ver!r}')
  require(issubclass(ver, orig), 'class-version-not-subclass', lambda: f'{how}: {ver!r}')
  for attr in ('__name__', '__module__', '__doc__'):
    require(getattr(ver, attr) == meta[attr], 'class-version-metadata',
            lambda: f'{how}: {attr} = {getattr(ver, attr)!r}, original {meta[attr]!r}')


def check_target(case):
  kind, api, form, scope = case['shape'], case['api'], case['form'], case.get('scope', '')
  if kind not in KINDS or api not in APIS or form not in FORMS or excluded(kind, api):
    raise OutOfDomain('cell not in domain')
  is_class, cap, has_name, reg_methods = KINDS[kind]
  if not has_name and form not in NAMELESS_FORMS:
    raise OutOfDomain('object has no usable __name__ for this form')
  sig = norm_sig(kind, case.get('sig', {}))
  doc = int(case.get('doc', 0))
  src = build_source(kind, sig, doc)
  mod_a, mod_t = load_module(MOD_A, src), load_module(MOD_T, src)
  orig, twin = mod_a.K, mod_t.K
  rec, extra = mod_a._rec, mod_a._extra     # pylint: disable=protected-access
  labels = {'kind:target', 'shape:' + kind, 'api:' + api, 'form:' + form,
            'target:class' if is_class else 'target:callable', 'sigcap:' + cap}

  before = snap(orig)
  meta_before = type(orig)
  bases_before = getattr(orig, '__bases__', None)
  meta = {a: getattr(orig, a, _MISSING) for a in ('__name__', '__module__', '__doc__',
                                                   '__qualname__')}
  try:
    sig_before = inspect.signature(orig)
  except (ValueError, TypeError):
    sig_before = None
  sel = expected_full_name(form, orig)

  returned = do_register(api, form, orig)

  # --- what the API returns, and what it must leave alone ---------------------------------
  if api == 'register':
    require(returned is orig, 'register-returned-other-object',
            lambda: f'gin.register returned {returned!r} for {orig!r}')
  if api in ('register', 'external'):
    diff = snap_diff(before, orig)
    require(not diff, 'original-altered', lambda: f'vars({orig!r}) changed at {diff} by {api}')
    require(type(orig) is meta_before and getattr(orig, '__bases__', None) == bases_before,
            'original-altered', 'type or bases of the original changed')
    for a, v in meta.items():
      require(getattr(orig, a, _MISSING) == v, 'original-altered', f'{a} changed')
  if api == 'configurable':
    for a in ('__name__', '__doc__'):
      if meta[a] is not _MISSING:
        require(getattr(returned, a, _MISSING) == meta[a], 'configurable-metadata',
                lambda: f'{a}: {getattr(returned, a, None)!r} != original {meta[a]!r}')
    if sig_before is not None:
      try:
        sig_after = inspect.signature(returned)
      except (ValueError, TypeError) as e:
        raise Violation('configurable-signature', f'inspect.signature fails after decoration: {e}')
      require(sig_after == sig_before, 'configurable-signature',
              lambda: f'{sig_after} != original {sig_before}')
      labels.add('signature-compared')
    if is_class:
      require(inspect.isclass(returned) and issubclass(returned, orig), 'class-version-not-subclass',
              'gin.configurable result')

  # --- bindings ---------------------------------------------------------------------------
  plan = plan_bindings(kind, sig, scope, case.get('bind', []), case.get('extra_kw', 0))
  for prefix, params in plan.items():
    for p, v in params.items():
      gin.bind_parameter(f'{prefix}/{sel}.{p}' if prefix else f'{sel}.{p}', v)
  has_binding = any(plan.values())
  if has_binding:
    labels.add('binding')
  if scope:
    labels.add('scoped')
    if len(scope_prefixes(scope)) > 2:
      labels.add('scope-depth-2')
  style = int(case.get('style', 0))
  abstract = kind == 'abc_abstract'

  def all_required(bound):
    pos, _, kwo, _ = names_of(sig)
    return all(p in bound for p in pos + kwo)

  for active in ([''] + ([scope] if scope else [])):
    bound = overlay(plan, active)
    args, kwargs = caller_args(kind, sig, bound, style)
    merged = dict(bound)
    merged.update(kwargs)
    exp_out = call(twin, args, merged)
    if abstract:
      require(exp_out[0] == 'exc' and isinstance(exp_out[1], TypeError), 'harness-twin',
              'abstract twin was constructed')
    else:
      if exp_out[0] != 'ok':
        raise OutOfDomain(f'twin rejects the reference call: {exp_out[1]!r}')
    exp = summary(exp_out, mod_t._rec)   # pylint: disable=protected-access

    # direct calls: register / external_configurable must not have changed them
    if api in ('register', 'external'):
      full_kwargs = dict(kwargs)
      for p, _ in bound.items():
        if p in names_of(sig)[0] + names_of(sig)[2]:
          full_kwargs[p] = 'call:' + p         # caller supplies the bound required ones too
      for a, k, what in ((args, full_kwargs, 'complete'), (args, kwargs, 'as-registry-call')):
        got = summary(call(orig, a, k, active), rec, extra)
        want = summary(call(twin, a, k), mod_t._rec, mod_t._extra)   # pylint: disable=protected-access
        require(got == want, 'direct-call-differs-from-untouched-twin',
                lambda: f'{what} call {a} {k} in scope {active!r}: got {got}, twin {want}')
        require(SENTINEL + ':' not in repr(got), 'direct-call-received-injected-value',
                lambda: f'{what} call in scope {active!r}: {got}')
      if bound and not abstract:
        labels.add('direct-vs-registry-distinguishable')

    # registry versions
    scoped_sel = f'{active}/{sel}' if active else sel
    versions = [('get_configurable(original)', lambda: gin.get_configurable(orig), active),
                ('get_configurable(selector)', lambda: gin.get_configurable(scoped_sel), '')]
    if api != 'register':
      versions.append(('returned', lambda: returned, active))

    def via_ref(evaluate, scoped_sel=scoped_sel):
      gin.parse_config(f'c13probe.c13consumer.x = @{scoped_sel}' + ('()' if evaluate else ''))
      return _consumer()
    versions.append(('@reference', lambda: via_ref(False), ''))
    fresh_fn = getattr(mod_a, '_fresh', None)
    if fresh_fn is not None:
      # the "original object" a user holds for a bound method / method wrapper is whatever
      # `obj.attr` evaluates to now: equal to, but not identical with, what was registered
      fresh = fresh_fn()
      if fresh is orig or fresh != orig:
        raise OutOfDomain('re-created object is identical or unequal')
      versions.append(('get_configurable(re-created equal original)',
                       lambda: gin.get_configurable(fresh_fn()), active))
      labels.add('lookup-by-re-created-equal-object')

    for how, getter, call_scope in versions:
      try:
        with in_scope(call_scope):
          ver = getter()
      except Exception as e:  # pylint: disable=broad-except
        raise Violation('registry-version-unreachable',
                        f'{how} for {sel!r} in scope {active!r}: {type(e).__name__}: {e}')
      if is_class:
        check_class_version(how, ver, orig, meta)
      out = call(ver, args, kwargs, call_scope)
      if abstract:
        require(out[0] == 'exc' and isinstance(out[1], TypeError), 'abstract-class-constructed',
                lambda: f'{how}: {out!r}')
        labels.add('abstract-stays-abstract')
        continue
      require(out[0] == 'ok', 'registry-call-raised',
              lambda: f'{how} in scope {active!r} args={args} kwargs={kwargs} bound={bound}: '
                      f'{type(out[1]).__name__}: {out[1]}')
      inst = out[1]
      if is_class:
        require(isinstance(inst, orig), 'instance-not-of-original-class',
                lambda: f'{how}: type {type(inst)!r}')
        if not reg_methods:
          require(type(inst) is orig, 'instance-not-exactly-original-class',
                  lambda: f'{how} in scope {active!r}: type(inst) is {type(inst)!r} '
                          f'(id {id(type(inst))}), original id {id(orig)}')
          labels.add('exact-type')
        else:
          labels.add('registered-method-overridden')
      got = summary(out, rec)
      require(got == exp, 'registry-version-not-injected',
              lambda: f'{how} in scope {active!r}: got {got}, expected {exp} '
                      f'(bindings {bound}, caller {args} {kwargs})')
      if is_class and not reg_methods:
        d_out = call(orig if api != 'configurable' else twin, args, merged)
        if d_out[0] == 'ok':
          try:
            blob = pickle.dumps(d_out[1])
            pickle.loads(blob)
            original_pickles = True
          except Exception:  # pylint: disable=broad-except
            original_pickles = False
          if original_pickles:
            try:
              back = pickle.loads(pickle.dumps(inst))
            except Exception as e:  # pylint: disable=broad-except
              raise Violation('instance-does-not-pickle',
                              f'{how} in scope {active!r}: {type(e).__name__}: {e}')
            require(type(back) is orig and rec(back) == rec(inst), 'pickle-roundtrip-differs',
                    lambda: f'{how}: {type(back)!r} {rec(back)} vs {rec(inst)}')
            labels.add('pickle-roundtrip')
    # evaluated reference: only when nothing is left for a caller to supply
    if not abstract and all_required(bound) and kind not in BUILTIN and cap != 'none':
      try:
        res = via_ref(True)
      except Exception as e:  # pylint: disable=broad-except
        raise Violation('registry-call-raised', f'@{scoped_sel}(): {type(e).__name__}: {e}')
      exp0 = summary(call(twin, [], dict(bound)), mod_t._rec)   # pylint: disable=protected-access
      got0 = ['ok', rec(res)]
      require(got0 == exp0, 'registry-version-not-injected',
              lambda: f'@{scoped_sel}(): got {got0}, expected {exp0}')
      if is_class:
        require(isinstance(res, orig) and (reg_methods or type(res) is orig),
                'instance-not-exactly-original-class', lambda: f'@{scoped_sel}(): {type(res)!r}')
      labels.add('evaluated-reference')

  if api in ('register', 'external'):
    # '__slotnames__' is a cache that copyreg adds when this check pickles an instance
    diff = [k for k in snap_diff(before, orig) if k != '__slotnames__']
    require(not diff, 'original-altered', lambda: f'vars(original) changed at {diff} after use')

  nt = (kind != 'init' or api != 'configurable') and has_binding and bool(scope)
  if nt:
    labels.add('nontrivial')
  return ok(labels, nt)


# ----------------------------------------------------------------------------- registry probe
INVALID_TARGETS = ['fn', 'init', 'new', 'meta', 'namedtuple', 'slots', 'callobj', 'lambda',
                   'dataclass', 'reg_method', 'cfg_method', 'wrapped_fn', 'nested']
# The first two end in a newline (e.g. an unstripped line of a file): a pattern anchored with `$`
# lets them through, so they can get further into the registration than the other bad names.
BAD_NAMES = [NM + '\n', DOTTED + '\n', '', '1abc', 'a-b', 'a..b', '.a', 'a.', 'a b', 's/a']
BAD_MODULES = BAD_NAMES + ['not.0k']
# Finding fixed in /repo by 28a88c8 (see _known_newline_name_after_decoration): an UNDOTTED name with a trailing
# newline is refused only after the decoration step, i.e. after gin.configurable has wrapped the
# class's constructor in place and after register / external_configurable have renamed (and then
# lost) the registry entries of a class's gin.register'ed methods.  Until IDENTIFIER_RE is anchored
# with \Z those cells are excluded by construction (the dotted spelling is used instead) and
# counted under the label 'excluded:newline-name-after-decoration'.  False since the fix: the cells are generated.
EXCLUDE_NEWLINE_NAME_AFTER_DECORATION = False
FAULTS = ['bad_name', 'bad_module', 'duplicate', 'duplicate_registered', 'unknown_allow',
          'unknown_deny', 'both_lists']
DUP_FAULTS = ('duplicate', 'duplicate_registered')
LIST_FAULTS = ('unknown_allow', 'unknown_deny', 'both_lists')
SECOND_INJ = SENTINEL + ':d0:first-registration'
OTHER_FULL = 'pk.one.nm1'
PRIOR = [('pk.mod', 'f0'), ('pk', 'K1'), ('other', 'nm')]


def suffixes(name):
  parts = name.split('.')
  return ['.'.join(parts[i:]) for i in range(len(parts))]


KNOWN_OBJ = 'known-to-gin'


def probe(names, objects):
  """Observable registry state: what each name / object resolves to (identity) or how it fails."""
  res = {}
  for n in names:
    try:
      res['name:' + n] = gin.get_configurable(n)
    except (ValueError, LookupError):
      res['name:' + n] = 'unresolved'
  for label, o in objects:
    try:
      res['obj:' + label] = gin.get_configurable(o)
    except (ValueError, LookupError):
      res['obj:' + label] = 'unresolved'
    # does Gin consider the object registered at all?  (get_bindings raises for unknown objects)
    try:
      gin.get_bindings(o)
      res['known:' + label] = KNOWN_OBJ
    except (ValueError, LookupError):
      res['known:' + label] = 'unresolved'
  return res


def probe_diff(a, b):
  return sorted(k for k in a if a[k] is not b[k])


def make_prior(n):
  """Registers n unrelated configurables; returns [(full_name, object, tag)]."""
  out = []
  for i in range(n):
    module, name = PRIOR[i]
    src = f"def f(p='dflt:p'):\n  return ('prior{i}', p)\n"
    ns = load_module(f'c13prior{i}', src)
    api = APIS[i % 3]
    if api == 'external':
      gin.external_configurable(ns.f, name, module=module)
    elif api == 'register':
      gin.register(name, module=module)(ns.f)
    else:
      gin.configurable(name, module=module)(ns.f)
    out.append((module + '.' + name, ns.f, f'prior{i}'))
  return out


TAG_SIG = {'pos': 0, 'dflt': 2, 'varargs': False, 'kwo': 0, 'kwod': 1, 'varkw': False}


def build_tagged(kind, modname, doc=1):
  """A fresh object of the given kind in its own module (distinct object per modname)."""
  sig = norm_sig(kind, TAG_SIG)
  return load_module(modname, build_source(kind, sig, doc, tag=True))


def made_by(version):
  """Name of the module whose K a registry version calls / constructs (tagged sources)."""
  out = call(version, [], {})
  if out[0] != 'ok':
    return 'raised:' + type(out[1]).__name__
  res = out[1]
  if isinstance(res, dict) and '@' in res:
    return res['@']
  for name in (MOD_A, MOD_T, 'c13mod_c', DYN_MOD):
    m = sys.modules.get(name)
    if m is not None and inspect.isclass(m.K) and isinstance(res, m.K):
      return name
  return None


def check_invalid(case):
  kind, api, fault = case['target'], case['api'], case['fault']
  if kind not in INVALID_TARGETS or api not in APIS or fault not in FAULTS:
    raise OutOfDomain('cell not in domain')
  variant = int(case.get('variant', 0))
  interactive = bool(case.get('interactive')) and fault not in DUP_FAULTS
  second = bool(case.get('second')) and fault in LIST_FAULTS
  labels = {'kind:invalid', 'fault:' + fault, 'api:' + api, 'shape:' + kind,
            'target:class' if KINDS[kind][0] else 'target:callable'}
  priors = make_prior(int(case.get('prior', 0)) % 4)
  has_name = KINDS[kind][2]
  new = build_tagged(kind, MOD_A)
  obj = new.K
  existing = None
  first_holder = None
  form = 'name_module'
  name, module, lists = NM, MODNAME, {}
  if fault == 'bad_name':
    name = BAD_NAMES[variant % len(BAD_NAMES)]
    module = [MODNAME, None][(variant // len(BAD_NAMES)) % 2]
    if (EXCLUDE_NEWLINE_NAME_AFTER_DECORATION and name == NM + '\n' and KINDS[kind][0] and
        (api == 'configurable' or kind == 'reg_method')):
      name = DOTTED + '\n'
      labels.add('excluded:newline-name-after-decoration')
    if name.endswith('\n'):
      labels.add('bad-name:trailing-newline')
  elif fault == 'bad_module':
    module = BAD_MODULES[variant % len(BAD_MODULES)]
    if module.endswith('\n'):
      labels.add('bad-module:trailing-newline')
    # the invalid module is combined with an undotted name, with the object's own name, and
    # with a valid DOTTED name (which already carries module components of its own)
    name_choice = (variant // len(BAD_MODULES)) % 3
    name = 'lib.' + NM if name_choice == 2 else (NM if not has_name or name_choice == 0 else None)
    if name_choice == 2:
      labels.add('bad-module:with-dotted-name')
  elif fault == 'duplicate':
    # an object of the same kind (a different object) is already registered as pk.mod.nm,
    # through one of three spellings of that full name; the newcomer uses another one
    old = build_tagged(kind, MOD_T)
    spell = [(NM, MODNAME), ('mod.' + NM, 'pk'), ('pk.mod.' + NM, None)]
    n0, m0 = spell[variant % 3]
    api0 = APIS[(variant // 3) % 3]
    do_register(api0, 'name_module', old.K, name=n0, module=m0)
    existing = old
    name, module = spell[(variant // 9) % 3]
    labels.add('dup-same-spelling' if (n0, m0) == (name, module) else 'dup-other-spelling')
  elif fault == 'duplicate_registered':
    # three steps: A (this object) is registered under pk.one.nm1, a different object B of the
    # same kind under pk.mod.nm, then A -- or the wrapper Gin returned for A -- is registered
    # again under pk.mod.nm: a different object already holds that full name
    a_api, b_api = APIS[variant % 3], APIS[(variant // 3) % 3]
    ret = do_register(a_api, 'name_module', new.K, name='nm1', module='pk.one')
    old = build_tagged(kind, MOD_T)
    spell = [(NM, MODNAME), ('mod.' + NM, 'pk'), ('pk.mod.' + NM, None)]
    n0, m0 = spell[(variant // 18) % 3]
    do_register(b_api, 'name_module', old.K, name=n0, module=m0)
    existing = old
    first_holder = new.K
    if (variant // 9) % 2 and ret is not new.K:
      obj = ret                      # hand Gin's own wrapper of A to the API
      labels.add('dup-registered:wrapper-handed')
    name, module = spell[(variant // 54) % 3]
    labels.add('dup-registered:first-api-' + a_api)
  else:
    params = [p for grp in names_of(norm_sig(kind, TAG_SIG)) for p in grp]
    unknown = ['zz', 'nope', 'a9'][variant % 3]
    good = params[:1]
    if fault == 'unknown_allow':
      lists = {'allowlist': ([unknown] if variant % 2 else good + [unknown])}
    elif fault == 'unknown_deny':
      lists = {'denylist': ([unknown] if variant % 2 else [unknown] + good)}
    else:
      if len(params) < 2:
        raise OutOfDomain('both lists need two parameters')
      lists = {'allowlist': params[:1], 'denylist': params[1:2]}
      if variant % 2:
        lists = {k: tuple(v) for k, v in lists.items()}
    if second:
      # the object is first registered validly as pk.mod.nm (any API) and gets a binding; the
      # faulty call is then a SECOND registration of the very same object under that full name
      first_api = APIS[(variant // 6) % 3]
      do_register(first_api, 'name_module', obj)
      gin.bind_parameter(f'pk.mod.{NM}.d0', SECOND_INJ)     # every tagged kind has d0
      labels.update({'second-registration-of-same-object', 'second:first-api-' + first_api})
  # probe names: every suffix of every old full name, of the intended full name and of the
  # names the object would get by default -- well-formed dotted identifiers only
  intended = '.'.join(x for x in (module, name) if x)
  names = {s for full, _, _ in priors for s in suffixes(full)}
  for full in ('pk.mod.' + NM, MOD_A + '.K', MOD_A + '.' + NM, OTHER_FULL, intended):
    names.update(suffixes(full))
  if KINDS[kind][3]:
    # the class carries a Gin-registered method: its selector before (module.meth) and the one a
    # successful class registration would give it (<class full name>.meth) are probed too
    for full in (MOD_A + '.meth', MOD_A + '.K.meth', intended + '.meth', 'pk.mod.' + NM + '.meth',
                 MOD_T + '.meth', OTHER_FULL + '.meth'):
      names.update(suffixes(full))
    labels.add('invalid:class-with-registered-method')
  names = sorted(n for n in names if re.fullmatch(r'[A-Za-z_]\w*(\.[A-Za-z_]\w*)*', n))
  objects = [(tag, f) for _, f, tag in priors] + [('new', obj)]
  if existing is not None:
    objects.append(('existing', existing.K))
  if first_holder is not None:
    objects.append(('first-holder', first_holder))
  if KINDS[kind][3]:
    objects.append(('method', new.K.__dict__['meth']))
  before_vars = snap(obj)
  before = probe(names, objects)
  if priors or existing is not None or second:
    labels.add('invalid:registry-nonempty')

  def first_registration_intact(when):
    """pk.mod.nm, by name and by object, still calls this object and injects its binding."""
    for how, getter in (('selector', lambda: gin.get_configurable('pk.mod.' + NM)),
                        ('object', lambda: gin.get_configurable(obj))):
      try:
        out = call(getter(), [], {})
      except (ValueError, LookupError) as e:
        raise Violation('registry-version-unreachable', f'{when}: {how}: {e}')
      require(out[0] == 'ok', 'registry-call-raised', lambda: f'{when}: {how}: {out[1]!r}')
      res = out[1]
      if KINDS[kind][0]:
        ok_obj = isinstance(res, new.K)
        d0 = new._rec(res).get('d0') if ok_obj else None    # pylint: disable=protected-access
      else:
        ok_obj, d0 = res.get('@') == MOD_A, res.get('d0')
      require(ok_obj and d0 == SECOND_INJ, 'first-registration-changed',
              lambda: f'{when}: pk.mod.{NM} through the {how} gives {res!r} (d0={d0!r})')

  if second:
    first_registration_intact('before the faulty second registration')

  ctx = gin.config.interactive_mode() if interactive else contextlib.nullcontext()
  if interactive:
    labels.add('invalid:inside-interactive-mode')
  try:
    with ctx:
      do_register(api, form, obj, name=name, module=module, **lists)
    raised = None
  except Exception as e:  # pylint: disable=broad-except
    raised = e
  require(raised is not None, 'invalid-registration-accepted',
          lambda: f'{api} name={name!r} module={module!r} {lists} on a {kind} was accepted')
  if fault in DUP_FAULTS + ('both_lists',):
    require(isinstance(raised, ValueError), 'invalid-registration-wrong-exception',
            lambda: f'{fault}: {type(raised).__name__}: {raised}')
  labels.add('rejected-with:' + type(raised).__name__)
  after = probe(names, objects)
  diff = probe_diff(before, after)
  require(not diff, 'rejected-registration-changed-registry',
          lambda: f'{fault} via {api} (name={name!r}, module={module!r}, {lists}): probes {diff} '
                  f'changed: before { {k: before[k] for k in diff} } after '
                  f'{ {k: after[k] for k in diff} }')
  vdiff = snap_diff(before_vars, obj)
  require(not vdiff, 'rejected-registration-altered-object',
          lambda: f'{fault} via {api}: vars(object) changed at {vdiff}')
  if existing is not None:
    who = made_by(gin.get_configurable('pk.mod.' + NM))
    require(who == MOD_T, 'rejected-registration-changed-registry',
            f'pk.mod.nm now reaches the object of {who}, expected {MOD_T}')
  if first_holder is not None:
    who = made_by(gin.get_configurable(OTHER_FULL))
    require(who == MOD_A, 'rejected-registration-changed-registry',
            f'{OTHER_FULL} now reaches the object of {who}, expected {MOD_A}')
    try:
      ver = gin.get_configurable(first_holder)
    except (ValueError, LookupError) as e:
      raise Violation('registry-version-unreachable', f'get_configurable(first holder): {e}')
    who = made_by(ver)
    require(who == MOD_A, 'rejected-registration-changed-registry',
            f'get_configurable(first holder) now reaches the object of {who}')
  require(not interactive or _interactive_is_off(), 'interactive-mode-not-ended', 'after the block')
  if second:
    first_registration_intact('after the rejected second registration')
  # (a valid re-registration of the same object under its own name is not part of the statement
  # and is not attempted)
  if fault not in DUP_FAULTS and not second:
    # nothing was registered, so the very same object can now be registered normally under the
    # (free) valid name and is reached through name and object like any fresh registration
    try:
      do_register(api, 'name_module', obj)
    except Exception as e:  # pylint: disable=broad-except
      raise Violation('valid-registration-after-rejected-one-failed', f'{type(e).__name__}: {e}')
    for how, getter in (('selector', lambda: gin.get_configurable('pk.mod.' + NM)),
                        ('object', lambda: gin.get_configurable(obj))):
      try:
        who = made_by(getter())
      except (ValueError, LookupError) as e:
        raise Violation('registry-version-unreachable', f'after the valid registration, {how}: {e}')
      require(who == MOD_A, 'name-reaches-wrong-object',
              lambda: f'after the valid registration the {how} reaches the object of {who}')
    labels.add('valid-registration-after-rejection')
  nt = (kind != 'init' or api != 'configurable') and 'invalid:registry-nonempty' in labels
  if nt:
    labels.add('nontrivial')
  return ok(labels, nt)


class _Marker(Exception):
  pass


def _interactive_is_off():
  """Observes interactive mode through behaviour only: a clashing registration is rejected."""
  a = load_module('c13ia_probe_a', "def f():\n  return 'a'\n")
  b = load_module('c13ia_probe_b', "def f():\n  return 'b'\n")
  try:
    gin.register('c13_ia_probe', module='c13probe')(a.f)
  except ValueError:
    pass   # already present from an earlier probe of this case: that is what we need
  try:
    gin.register('c13_ia_probe', module='c13probe')(b.f)
  except ValueError:
    return True
  return False


EXITS = ['normal', 'exception_after', 'exception_before', 'explicit', 'explicit_no_reg']


def check_interactive(case):
  kind, api1, api2, exit_kind = case['target'], case['api'], case['api2'], case['exit']
  if kind not in INVALID_TARGETS or api1 not in APIS or api2 not in APIS or exit_kind not in EXITS:
    raise OutOfDomain('cell not in domain')
  labels = {'kind:interactive', 'exit:' + exit_kind, 'api:' + api2, 'shape:' + kind,
            'target:class' if KINDS[kind][0] else 'target:callable', 'scoped'}
  priors = make_prior(int(case.get('prior', 0)) % 4)
  is_class = KINDS[kind][0]
  first, second, third = (build_tagged(kind, m) for m in (MOD_T, MOD_A, 'c13mod_c'))
  full = 'pk.mod.' + NM
  do_register(api1, 'name_module', first.K)
  names = sorted({s for f, _, _ in priors for s in suffixes(f)} | set(suffixes(full)))
  objects = [(tag, f) for _, f, tag in priors]
  require(_interactive_is_off(), 'harness', 'interactive mode on at start')
  stray = int(case.get('stray', 0)) % 4
  if stray & 1:
    # a defensive exit_interactive_mode() while the mode is off: still not inside interactive mode
    gin.exit_interactive_mode()
    labels.add('stray-exit-before')

  def rejected(mod, when):
    before = probe(names, objects)
    try:
      do_register(api2, 'name_module', mod.K)
    except ValueError:
      diff = probe_diff(before, probe(names, objects))
      require(not diff, 'rejected-registration-changed-registry', f'{when}: {diff}')
      return
    raise Violation('re-registration-outside-interactive-mode',
                    f'{when}: {api2} of a different {kind} under {full!r} was accepted')

  scope = case.get('scope') or 's'
  if scope not in SCOPES[1:]:
    raise OutOfDomain('scope')
  touch = int(case.get('touch', 0)) % 8
  inj = f'{SENTINEL}:d0:scoped'
  gin.bind_parameter(f'{scope}/{full}.d0', inj)     # every tagged kind has a parameter d0

  def ref(scoped_sel):
    gin.parse_config(f'c13probe.c13consumer.x = @{scoped_sel}')   # parsed afresh on every use
    return _consumer()

  def paths(mod):
    """(how, getter of the version, scope to call it in, scoped binding applies)."""
    return [('selector', lambda: gin.get_configurable(full), '', False),
            ('scoped selector', lambda: gin.get_configurable(f'{scope}/{full}'), '', True),
            ('object inside config_scope', lambda: gin.get_configurable(mod.K), scope, True),
            ('reference', lambda: ref(full), '', False),
            ('scoped reference', lambda: ref(f'{scope}/{full}'), '', True)]

  def reach(path, mod, when):
    how, getter, call_scope, scoped = path
    try:
      with in_scope(call_scope):
        ver = getter()
    except Exception as e:  # pylint: disable=broad-except
      raise Violation('registry-version-unreachable',
                      f'{when}: {how} of {full}: {type(e).__name__}: {e}')
    out = call(ver, [], {}, call_scope)
    require(out[0] == 'ok', 'registry-call-raised', lambda: f'{when}: {how}: {out[1]!r}')
    res = out[1]
    if is_class:
      who = next((n for n in (MOD_A, MOD_T, 'c13mod_c')
                  if n in sys.modules and isinstance(res, sys.modules[n].K)), None)
      d0 = mod._rec(res).get('d0') if who == mod.__name__ else None   # pylint: disable=protected-access
    else:
      who, d0 = res.get('@'), res.get('d0')
    require(who == mod.__name__, 'name-reaches-wrong-object',
            lambda: f'{when}: {full} through the {how} reaches the object of {who}, expected '
                    f'{mod.__name__}')
    if is_class:
      require(issubclass(ver, mod.K), 'class-version-not-subclass', lambda: f'{when}: {how}')
      if not KINDS[kind][3]:
        require(type(res) is mod.K, 'instance-not-exactly-original-class',
                lambda: f'{when}: {how}: {type(res)!r}')
    require(d0 == (inj if scoped else 'dflt:d0'), 'registry-version-not-injected',
            lambda: f'{when}: {how}: d0 = {d0!r}')

  def resolves_to(mod, when, only=None):
    for i, path in enumerate(paths(mod)):
      if only is None or i in only:
        reach(path, mod, when)

  rejected(second, 'before the block')
  # before the re-registration the name is used through the unscoped selector and through the
  # scoped access paths picked by `touch` (a scoped version built now must not outlive the
  # re-registration)
  touched = [0] + [i for bit, i in ((1, 1), (2, 4), (4, 2)) if touch & bit]
  resolves_to(first, 'before the block', only=touched)
  if len(touched) > 1:
    labels.add('scoped-access-before-re-registration')
  registered_inside = exit_kind in ('normal', 'exception_after', 'explicit')
  if exit_kind in ('normal', 'exception_after', 'exception_before'):
    try:
      with gin.config.interactive_mode():
        if exit_kind == 'exception_before':
          raise _Marker()
        ret = do_register(api2, 'name_module', second.K)
        if exit_kind == 'exception_after':
          raise _Marker()
    except _Marker:
      labels.add('block-left-by-exception')
    except ValueError as e:
      raise Violation('re-registration-rejected-inside-interactive-mode', f'{api2}: {e}')
  else:
    gin.enter_interactive_mode()
    try:
      if registered_inside:
        try:
          ret = do_register(api2, 'name_module', second.K)
        except ValueError as e:
          raise Violation('re-registration-rejected-inside-interactive-mode', f'{api2}: {e}')
    finally:
      gin.exit_interactive_mode()
  if registered_inside:
    if api2 == 'register':
      require(ret is second.K, 'register-returned-other-object', 'inside interactive mode')
    resolves_to(second, 'after re-registration')
    labels.add('re-registered')
    if len(touched) > 1:
      labels.add('scoped-access-before-and-after-re-registration')
  else:
    resolves_to(first, 'after an interactive block without registration')
  if stray & 2:
    gin.exit_interactive_mode()
    labels.add('stray-exit-after-block')
  # the mode has ended: a third object under the same name is rejected again
  rejected(third, 'after the block (' + exit_kind + ')')
  require(_interactive_is_off(), 'interactive-mode-not-ended', exit_kind)
  resolves_to(second if registered_inside else first, 'at the end')
  nt = (kind != 'init' or api2 != 'configurable') and bool(priors)
  if nt:
    labels.add('nontrivial')
  return ok(labels, nt)


# ----------------------------------------------------------------------------- dynamic registration
DYN_PKG, DYN_MOD = 'c13pkg', 'c13pkg.layers'
DYN_TARGETS = ['fn', 'init', 'meta', 'namedtuple', 'dataclass', 'wrapped_fn', 'slots']
DYN_STATEMENTS = {   # how the config names the module's own K (no import aliases: an alias
    #                  becomes part of the registered name, so nothing would clash)
    'import-binding': 'import c13pkg.layers\nc13pkg.layers.K.d0 = 5\n',
    'from-binding': 'from c13pkg import layers\nlayers.K.d0 = 5\n',
    'import-reference': 'import c13pkg.layers\nc13pkg.layers.stack.block = @c13pkg.layers.K\n',
    'from-reference-evaluated': 'from c13pkg import layers\nlayers.stack.block = @layers.K()\n',
}


def check_dynreg(case):
  """The registration API of config files ('from __gin__ import dynamic_registration'): the
  module's own K would be registered as c13pkg.layers.K, a full name already held by a different
  object that was registered from Python -> rejected, nothing registered."""
  kind, api, stmt = case['target'], case['api'], case['statement']
  if kind not in DYN_TARGETS or api not in APIS or stmt not in DYN_STATEMENTS:
    raise OutOfDomain('cell not in domain')
  labels = {'kind:dynreg', 'api:' + api, 'shape:' + kind, 'statement:' + stmt,
            'target:class' if KINDS[kind][0] else 'target:callable'}
  priors = make_prior(int(case.get('prior', 0)) % 4)
  pkg = types.ModuleType(DYN_PKG)
  pkg.__path__ = []
  sys.modules[DYN_PKG] = pkg
  src = (build_source(kind, norm_sig(kind, TAG_SIG), 1, tag=True) +
         '\ndef stack(block=None):\n  return block\n')
  layers = load_module(DYN_MOD, src)
  pkg.layers = layers
  legacy = build_tagged(kind, MOD_T)
  full = DYN_MOD + '.K'
  spell = [('K', DYN_MOD), ('layers.K', DYN_PKG), (full, None)][int(case.get('variant', 0)) % 3]
  do_register(api, 'name_module', legacy.K, name=spell[0], module=spell[1])
  names = sorted({s for f, _, _ in priors for s in suffixes(f)} | set(suffixes(full)))
  objects = [(tag, f) for _, f, tag in priors] + [('legacy', legacy.K), ('module-K', layers.K)]
  before_vars = snap(layers.K)
  before = probe(names, objects)
  require(made_by(gin.get_configurable(full)) == MOD_T, 'harness', 'legacy object not reachable')
  text = 'from __gin__ import dynamic_registration\n' + DYN_STATEMENTS[stmt]
  try:
    gin.parse_config(text)
    raised = None
  except Exception as e:  # pylint: disable=broad-except
    raised = e
  require(raised is not None, 'invalid-registration-accepted',
          lambda: f'dynamic registration of {DYN_MOD}.K ({kind}) accepted although {full!r} is '
                  f'held by a different object registered through {api}')
  require(isinstance(raised, ValueError), 'invalid-registration-wrong-exception',
          lambda: f'{type(raised).__name__}: {raised}')
  diff = probe_diff(before, probe(names, objects))
  require(not diff, 'rejected-registration-changed-registry', lambda: f'{stmt}: probes {diff}')
  vdiff = snap_diff(before_vars, layers.K)
  require(not vdiff, 'rejected-registration-altered-object', lambda: f'vars changed at {vdiff}')
  who = made_by(gin.get_configurable(full))
  require(who == MOD_T, 'rejected-registration-changed-registry',
          f'{full} now reaches the object of {who}, expected {MOD_T}')
  nt = bool(priors) or kind != 'fn'
  if nt:
    labels.add('nontrivial')
  return ok(labels, nt)


# ----------------------------------------------------------------------------- bulk histories
def _mk_dead():
  def dead(old_only=0):
    return ('dead', old_only)
  return dead


def _mk_new(has_old):
  if has_old:
    def fresh(old_only=0, a=1):
      return ('fresh-with-old', old_only, a)
  else:
    def fresh(a=0, b=1):
      return ('fresh', a, b)
  return fresh


def _bulk_register(api, fn, name, **lists):
  if api == 'external':
    return gin.external_configurable(fn, name, module='c13bulk', **lists)
  deco = gin.configurable if api == 'configurable' else gin.register
  return deco(name, module='c13bulk', **lists)(fn)


def check_bulk(case):
  """Many registrations in one process: short-lived functions with a parameter `old_only` whose
  registrations are rejected (so nothing keeps them alive), then brand-new functions; every
  allow/deny list is judged by the function's own signature."""
  n_dead = 50 + int(case.get('n_dead', 0)) % 351
  n_new = 20 + int(case.get('n_new', 0)) % 101
  rot = int(case.get('rot', 0))
  which = case.get('list', 'mixed')
  if which not in ('allowlist', 'denylist', 'mixed'):
    raise OutOfDomain('list kind')
  labels = {'kind:bulk', 'bulk:' + which}
  dead = [_mk_dead() for _ in range(n_dead)]
  dead_ids = {id(f) for f in dead}
  for i, f in enumerate(dead):
    try:
      _bulk_register(APIS[(i + rot) % 3], f, f'dead{i}', allowlist=['nonexistent'])
    except Exception:  # pylint: disable=broad-except
      continue
    raise Violation('invalid-registration-accepted', f'dead{i}: allowlist [nonexistent]')
  del dead, f
  gc.collect()
  reused = 0
  for i in range(n_new):
    api = APIS[(i + rot) % 3]
    has_old = i % 3 == 2
    lk = which if which != 'mixed' else ('allowlist', 'denylist')[i % 2]
    fn = _mk_new(has_old)
    reused += id(fn) in dead_ids
    name = f'new{i}'
    try:
      _bulk_register(api, fn, name, **{lk: ['old_only']})
      accepted = True
    except Exception:  # pylint: disable=broad-except
      accepted = False
    sig_txt = '(old_only, a)' if has_old else '(a, b)'
    require(accepted == has_old, 'invalid-registration-accepted' if accepted else
            'valid-registration-rejected',
            lambda: f'round {i}: {api} {lk}=[old_only] for a function with parameters {sig_txt} '
                    f'was {"accepted" if accepted else "rejected"} (after {n_dead} rejected '
                    f'registrations of short-lived functions that had old_only)')
    if not accepted:
      pr = probe([f'c13bulk.{name}'], [('fn', fn)])
      require(all(v == 'unresolved' for v in pr.values()), 'rejected-registration-changed-registry',
              lambda: f'round {i}: {pr}')
      try:
        _bulk_register(api, fn, name, **{lk: ['a']})
      except Exception as e:  # pylint: disable=broad-except
        raise Violation('valid-registration-rejected', f'round {i}: {lk}=[a]: {e}')
    out = call(gin.get_configurable(f'c13bulk.{name}'), [], {})
    require(out[0] == 'ok' and out[1][0] == ('fresh-with-old' if has_old else 'fresh'),
            'name-reaches-wrong-object', lambda: f'round {i}: {out!r}')
  if reused:
    labels.add('bulk:address-of-dead-function-reused')
  nt = n_dead >= 100 and n_new >= 40
  if nt:
    labels.add('nontrivial')
  return ok(labels, nt)


# ----------------------------------------------------------------------------- unsubclassable
FINAL_SHAPES = ['final_init_subclass', 'veto_metaclass']


def final_source(shape, sig, doc):
  d, r = doc_text(doc), rec_text(sig)
  init = f'  def __init__({sig_text(sig, "self")}):\n    self.rec = {r}\n'
  if shape == 'final_init_subclass':
    body = (f'class K:\n{d}{init}  def __init_subclass__(cls, **kwargs):\n'
            "    raise TypeError('K may not be subclassed')\n")
  else:
    body = ('class _Veto(type):\n  def __new__(mcs, name, bases, ns, **kwargs):\n'
            "    if bases:\n      raise TypeError('no subclasses')\n"
            '    return super().__new__(mcs, name, bases, ns)\n\n'
            f'class K(metaclass=_Veto):\n{d}{init}')
  return 'import gin\n\n' + body + '\ndef _rec(x):\n  return dict(x.rec)\n'


def check_final(case):
  """A class that refuses to be subclassed, given to the non-mutating APIs.  Gin may reject it
  (then nothing is registered) or accept it; either way the class is the class that was written
  and direct calls see no injected value."""
  shape, api, form = case['shape'], case['api'], case['form']
  if shape not in FINAL_SHAPES or api not in ('register', 'external') or form not in FORMS:
    raise OutOfDomain('cell not in domain')
  sig = norm_sig('init', case.get('sig', {}))
  src = final_source(shape, sig, int(case.get('doc', 0)))
  mod_a, mod_t = load_module(MOD_A, src), load_module(MOD_T, src)
  orig, twin = mod_a.K, mod_t.K
  labels = {'kind:final', 'shape:' + shape, 'api:' + api, 'form:' + form, 'target:class'}
  priors = make_prior(int(case.get('prior', 0)) % 4)
  sel = expected_full_name(form, orig)
  names = sorted({x for f, _, _ in priors for x in suffixes(f)} | set(suffixes(sel)))
  objects = [(tag, f) for _, f, tag in priors] + [('class', orig)]
  before_vars, before = snap(orig), probe(names, objects)
  try:
    returned = do_register(api, form, orig)
    raised = None
  except Exception as e:  # pylint: disable=broad-except
    raised = e
  diff = snap_diff(before_vars, orig)
  require(not diff, 'original-altered',
          lambda: f'{api} of a class that cannot be subclassed '
                  f'({"rejected: " + type(raised).__name__ if raised else "accepted"}): '
                  f'vars(class) changed at {diff}')
  named = [n for grp in names_of(sig) for n in grp]
  bound = {}
  for pname in named[:2]:
    try:
      gin.bind_parameter(f'{sel}.{pname}', f'{SENTINEL}:{pname}:0')
      bound[pname] = f'{SENTINEL}:{pname}:0'
    except Exception:  # pylint: disable=broad-except
      pass            # nothing registered under that name
  if raised is not None:
    labels.add('rejected-with:' + type(raised).__name__)
    pdiff = probe_diff(before, probe(names, objects))
    require(not pdiff and not bound, 'rejected-registration-changed-registry',
            lambda: f'{type(raised).__name__} was raised, yet probes {pdiff} changed / bindings '
                    f'{sorted(bound)} for {sel} were accepted')
  else:
    labels.add('accepted')
    if api == 'register':
      require(returned is orig, 'register-returned-other-object', repr(returned))
  pos, _, kwo, _ = names_of(sig)
  args, kwargs = [], {n: 'call:' + n for n in pos + kwo}
  for a, k in ((args, kwargs), (args, {})):
    got = summary(call(orig, a, k), mod_a._rec)   # pylint: disable=protected-access
    want = summary(call(twin, a, k), mod_t._rec)  # pylint: disable=protected-access
    require(got == want and SENTINEL + ':' not in repr(got),
            'direct-call-received-injected-value' if SENTINEL + ':' in repr(got) else
            'direct-call-differs-from-untouched-twin',
            lambda: f'direct call {k}: got {got}, untouched twin {want}')
  out = call(orig, args, kwargs)
  require(out[0] == 'ok' and type(out[1]) is orig, 'direct-call-differs-from-untouched-twin',
          lambda: f'direct call built {out!r}')
  diff = snap_diff(before_vars, orig)
  require(not diff, 'original-altered', lambda: f'vars(class) changed at {diff} after use')
  return ok(labels | ({'nontrivial'} if named else set()), bool(named))


# ----------------------------------------------------------------------------- nested blocks
def _fix_program(items):
  """Makes a drawn program well-formed: explicit enter/exit only at top level, enter only when
  not explicitly entered, exit only when explicitly entered (otherwise the op becomes a try);
  depth <= 3."""
  state = {'explicit': False}

  def walk(its, depth):
    out = []
    for it in its[:6]:
      op = it[0]
      if op in ('with', 'with_raise'):
        out.append([op, walk(it[1], depth + 1)] if depth < 3 else ['try'])
      elif op == 'enter' and depth == 0 and not state['explicit']:
        state['explicit'] = True
        out.append(['enter'])
      elif op == 'exit' and depth == 0 and state['explicit']:
        state['explicit'] = False
        out.append(['exit'])
      else:
        out.append(['try'])
    return out
  return walk(items, 0)


def check_nesting(case):
  """Nested interactive blocks.  Model: the mode is on iff at least one enclosing
  interactive_mode() block is active or enter_interactive_mode() was called and not yet undone
  by exit_interactive_mode(); a re-registration of an existing name is accepted iff it is on."""
  kind, api, api0 = case['target'], case['api'], case.get('api0', 'register')
  program = case['program']
  if kind not in INVALID_TARGETS or api not in APIS or api0 not in APIS:
    raise OutOfDomain('cell not in domain')
  if _fix_program(program) != program:
    raise OutOfDomain('program not well-formed')
  labels = {'kind:nesting', 'api:' + api, 'shape:' + kind,
            'target:class' if KINDS[kind][0] else 'target:callable'}
  is_class = KINDS[kind][0]
  full = 'pk.mod.' + NM
  st_ = {'holder': build_tagged(kind, 'c13nest0'), 'n': 0, 'explicit': False, 'maxdepth': 0}
  do_register(api0, 'name_module', st_['holder'].K)

  def reaches_holder(when):
    out = call(gin.get_configurable(full), [], {})
    h = st_['holder']
    good = out[0] == 'ok' and (isinstance(out[1], h.K) if is_class else
                               out[1].get('@') == h.__name__)
    require(good, 'name-reaches-wrong-object', lambda: f'{when}: {full} -> {out!r}, expected the '
                                                       f'object of {h.__name__}')

  def attempt(depth, path):
    st_['n'] += 1
    mod = build_tagged(kind, f'c13nest{st_["n"]}')
    expected = depth > 0 or st_['explicit']
    where = (f'attempt #{st_["n"]} at {"/".join(path) or "top level"} (enclosing blocks: {depth}, '
             f'explicitly entered: {st_["explicit"]})')
    try:
      do_register(api, 'name_module', mod.K)
      accepted = True
    except ValueError:
      accepted = False
    if expected:
      require(accepted, 're-registration-rejected-inside-interactive-mode', where)
      st_['holder'] = mod
      labels.add('nest:accepted-at-depth-%d' % depth)
    else:
      require(not accepted, 're-registration-outside-interactive-mode', where)
      labels.add('nest:rejected-outside')
    reaches_holder(where)

  def run(items, depth, path):
    closed_inner = False
    for i, it in enumerate(items):
      op = it[0]
      if op == 'try':
        if closed_inner and depth > 0:
          labels.add('nest:attempt-after-inner-block-inside-outer')
        attempt(depth, path)
      elif op in ('with', 'with_raise'):
        st_['maxdepth'] = max(st_['maxdepth'], depth + 1)
        try:
          with gin.config.interactive_mode():
            run(it[1], depth + 1, path + [f'{op}#{i}'])
            if op == 'with_raise':
              raise _Marker()
        except _Marker:
          labels.add('block-left-by-exception')
        closed_inner = True
      elif op == 'enter':
        gin.enter_interactive_mode()
        st_['explicit'] = True
        labels.add('nest:explicit-enter')
      elif op == 'exit':
        gin.exit_interactive_mode()
        st_['explicit'] = False

  run(program, 0, [])
  if st_['explicit']:
    gin.exit_interactive_mode()
    st_['explicit'] = False
  attempt(0, ['after the program'])
  labels.add('nest:depth-%d' % st_['maxdepth'])
  nt = st_['maxdepth'] >= 2 or 'nest:explicit-enter' in labels
  if nt:
    labels.add('nontrivial')
  return ok(labels, nt)


def check_case(case):
  k = case.get('kind')
  if k == 'final':
    return check_final(case)
  if k == 'nesting':
    return check_nesting(case)
  if k == 'dynreg':
    return check_dynreg(case)
  if k == 'bulk':
    return check_bulk(case)
  if k == 'target':
    return check_target(case)
  if k == 'invalid':
    return check_invalid(case)
  if k == 'interactive':
    return check_interactive(case)
  raise OutOfDomain('unknown case kind')


# ----------------------------------------------------------------------------- strategies
def forms_for(kind):
  return FORMS if KINDS[kind][2] else NAMELESS_FORMS


@st.composite
def _target_case(draw):
  kind = draw(st.sampled_from(CLASS_KINDS) | st.sampled_from(list(KINDS)))
  api = draw(st.sampled_from([a for a in APIS if not excluded(kind, a)]))
  form = draw(st.sampled_from(forms_for(kind)))
  scope = draw(st.sampled_from(SCOPES + ['s', 's/t']))
  cap = KINDS[kind][1]
  sig = {'pos': 0, 'dflt': 0, 'varargs': False, 'kwo': 0, 'kwod': 0, 'varkw': False}
  if cap in ('full', 'fields', 'dc'):
    sig['pos'] = draw(st.integers(0, 2))
    sig['dflt'] = draw(st.integers(0, 2))
  if cap in ('full', 'dc'):
    sig['kwo'] = draw(st.integers(0, 2))
    sig['kwod'] = draw(st.integers(0, 2))
  if cap == 'full':
    sig['varargs'] = draw(st.booleans())
    sig['varkw'] = draw(st.booleans())
  sig = norm_sig(kind, sig)
  nparams = sig['pos'] + sig['dflt'] + sig['kwo'] + sig['kwod']
  levels = len(scope_prefixes(scope))
  if cap == 'none':
    bind, extra_kw = [], 0
  else:
    bind = draw(st.lists(st.tuples(st.integers(0, max(0, nparams - 1)),
                                   st.integers(0, levels - 1)).map(list),
                         min_size=1, max_size=4, unique_by=tuple))
    extra_kw = draw(st.integers(0, levels)) if sig['varkw'] else 0
  return {'kind': 'target', 'shape': kind, 'api': api, 'form': form, 'scope': scope, 'sig': sig,
          'doc': draw(st.integers(0, 2)), 'bind': bind, 'extra_kw': extra_kw,
          'style': draw(st.integers(0, 3))}


@st.composite
def _invalid_case(draw):
  return {'kind': 'invalid', 'target': draw(st.sampled_from(INVALID_TARGETS)),
          'api': draw(st.sampled_from(APIS)), 'fault': draw(st.sampled_from(FAULTS)),
          'variant': draw(st.integers(0, 161)), 'prior': draw(st.integers(0, 3)),
          'interactive': draw(st.booleans()), 'second': draw(st.booleans())}


@st.composite
def _interactive_case(draw):
  return {'kind': 'interactive', 'target': draw(st.sampled_from(INVALID_TARGETS)),
          'api': draw(st.sampled_from(APIS)), 'api2': draw(st.sampled_from(APIS)),
          'exit': draw(st.sampled_from(EXITS)), 'prior': draw(st.integers(0, 3)),
          'scope': draw(st.sampled_from(SCOPES[1:])), 'touch': draw(st.integers(0, 7)),
          'stray': draw(st.integers(0, 3))}


@st.composite
def _dynreg_case(draw):
  return {'kind': 'dynreg', 'target': draw(st.sampled_from(DYN_TARGETS)),
          'api': draw(st.sampled_from(APIS)),
          'statement': draw(st.sampled_from(sorted(DYN_STATEMENTS))),
          'variant': draw(st.integers(0, 2)), 'prior': draw(st.integers(0, 3))}


@st.composite
def _bulk_case(draw):
  return {'kind': 'bulk', 'n_dead': draw(st.integers(0, 350)), 'n_new': draw(st.integers(0, 100)),
          'rot': draw(st.integers(0, 2)),
          'list': draw(st.sampled_from(['allowlist', 'denylist', 'mixed']))}


@st.composite
def _final_case(draw):
  return {'kind': 'final', 'shape': draw(st.sampled_from(FINAL_SHAPES)),
          'api': draw(st.sampled_from(['register', 'external'])),
          'form': draw(st.sampled_from(FORMS)),
          'sig': {'pos': draw(st.integers(0, 2)), 'dflt': draw(st.integers(0, 2)),
                  'varargs': draw(st.booleans()), 'kwo': draw(st.integers(0, 1)),
                  'kwod': draw(st.integers(0, 1)), 'varkw': draw(st.booleans())},
          'doc': draw(st.integers(0, 2)), 'prior': draw(st.integers(0, 3))}


def _program():
  leaf = st.sampled_from([['try'], ['try'], ['enter'], ['exit']])
  items = st.recursive(
      st.lists(leaf, max_size=3),
      lambda inner: st.lists(st.one_of(leaf, st.tuples(st.sampled_from(['with', 'with',
                                                                          'with_raise']),
                                                        inner).map(list)), max_size=4),
      max_leaves=10)
  return items.map(_fix_program)


@st.composite
def _nesting_case(draw):
  return {'kind': 'nesting', 'target': draw(st.sampled_from(INVALID_TARGETS)),
          'api': draw(st.sampled_from(APIS)), 'api0': draw(st.sampled_from(APIS)),
          'program': draw(_program())}


def strategy():
  other = st.one_of(_dynreg_case(), _dynreg_case(), _final_case(), _nesting_case(),
                    _nesting_case(), _bulk_case())
  return st.one_of(_target_case(), _target_case(), _target_case(), _target_case(),
                   _invalid_case(), _invalid_case(), _interactive_case(), other)


# ----------------------------------------------------------------------------- sweeps
def sweep_cells(tier):
  del tier
  cases = []
  for kind, api, scope in itertools.product(KINDS, APIS, ['', 's/t']):
    if excluded(kind, api):
      continue
    sig = norm_sig(kind, RICH_SIG)
    nparams = sig['pos'] + sig['dflt'] + sig['kwo'] + sig['kwod']
    # bind the first defaulted parameter unscoped, override it and bind the first positional
    # and the last named parameter under the scope
    bind = [[sig['pos'], 0]]
    if scope:
      bind += [[sig['pos'], 2], [0, 1], [max(0, nparams - 1), 2]]
    cases.append({'kind': 'target', 'shape': kind, 'api': api,
                  'form': 'bare' if KINDS[kind][2] else 'name', 'scope': scope, 'sig': sig,
                  'doc': 2, 'bind': bind, 'extra_kw': 1 if sig['varkw'] else 0, 'style': 1})
  return cases, True


def sweep_forms(tier):
  del tier
  cases = []
  for kind in ('fn', 'wrapped_fn', 'init', 'nested', 'meta', 'callobj', 'namedtuple', 'methwrap',
               'bound_method', 'callobj_falsy', 'falsy_class'):
    for api, form in itertools.product(APIS, forms_for(kind)):
      sig = norm_sig(kind, RICH_SIG)
      cases.append({'kind': 'target', 'shape': kind, 'api': api, 'form': form, 'scope': 's',
                    'sig': sig, 'doc': 1, 'bind': [[0, 0], [1, 1]], 'extra_kw': 0, 'style': 0})
  return cases, True


def sweep_invalid(tier):
  cases = []
  for target, api, fault in itertools.product(['fn', 'init', 'meta', 'namedtuple', 'callobj',
                                               'wrapped_fn', 'reg_method', 'cfg_method'], APIS,
                                              FAULTS):
    # every variant of every fault for plain functions (all APIs) and for the metaclass shape
    # through external_configurable; three variants per fault for the rest
    full = target == 'fn' or (target == 'meta' and api == 'external') or tier == 'thorough'
    nvar = ({'bad_name': 2 * len(BAD_NAMES), 'bad_module': 3 * len(BAD_MODULES), 'duplicate': 27,
             'duplicate_registered': 54}.get(fault, 6) if full else
            (18 if fault == 'duplicate_registered' else 3))
    variants = list(range(nvar))
    if fault == 'bad_module' and not full:
      # dotted name + explicit invalid module: '', 'not.0k', 'pk.sub.nm\n', 'a..b'
      variants += [2 * len(BAD_MODULES) + BAD_MODULES.index(m)
                   for m in ('', 'not.0k', DOTTED + '\n', 'a..b')]
    for variant in variants:
      for interactive in ((False, True) if fault not in DUP_FAULTS and variant < 2 else (False,)):
        cases.append({'kind': 'invalid', 'target': target, 'api': api, 'fault': fault,
                      'variant': variant, 'prior': 2, 'interactive': interactive, 'second': False})
    if fault in LIST_FAULTS:
      # the same faults as a second registration of an already registered object: every first
      # API (variant // 6) x list form, inside and outside interactive mode
      for variant, interactive in itertools.product((0, 1, 6, 7, 12, 13) if full else (0, 7, 14),
                                                    (False, True)):
        cases.append({'kind': 'invalid', 'target': target, 'api': api, 'fault': fault,
                      'variant': variant, 'prior': 1, 'interactive': interactive, 'second': True})
  return cases, True


def sweep_interactive(tier):
  del tier
  cases = [{'kind': 'interactive', 'target': t, 'api': a1, 'api2': a2, 'exit': e, 'prior': 1,
            'scope': 's/t' if t == 'meta' else 's', 'touch': 7 if e != 'explicit' else 1,
            'stray': (APIS.index(a1) + EXITS.index(e)) % 4}
           for t, a1, a2, e in itertools.product(['fn', 'init', 'meta', 'callobj', 'wrapped_fn',
                                                  'reg_method'],
                                                 APIS, APIS,
                                                 EXITS)]
  return cases, True


def _known_signature_no_ctor(case, verdict):
  """gin.configurable on a class that defines no constructor changes inspect.signature(cls) from
  () to (*args, **kwargs).  Only takes effect if known_findings.json lists it as open."""
  return (case.get('kind') == 'target' and case.get('shape') == 'neither' and
          case.get('api') == 'configurable' and verdict.get('kind') == 'configurable-signature')


def _known_newline_name_after_decoration(case, verdict):
  """An undotted name ending in a newline passes IDENTIFIER_RE (anchored with `$`) and is only
  refused by the registry's SelectorMap after decoration: gin.configurable has then wrapped a
  class's constructor in place, register / external_configurable have then removed the entries
  of the class's gin.register'ed methods.  Only takes effect if known_findings.json lists it."""
  return (case.get('kind') == 'invalid' and case.get('fault') == 'bad_name' and
          int(case.get('variant', 0)) % len(BAD_NAMES) == 0 and
          verdict.get('kind') in ('rejected-registration-altered-object',
                                  'rejected-registration-changed-registry'))


KNOWN = {'configurable_signature_no_ctor': _known_signature_no_ctor,
         'newline_name_after_decoration': _known_newline_name_after_decoration}

def sweep_dynreg(tier):
  del tier
  cases = [{'kind': 'dynreg', 'target': t, 'api': a, 'statement': st_, 'variant': v, 'prior': 1}
           for t, a, st_, v in itertools.product(DYN_TARGETS, APIS, sorted(DYN_STATEMENTS),
                                                 range(3))
           if t in ('fn', 'meta') or v == DYN_TARGETS.index(t) % 3]
  return cases, True


def sweep_bulk(tier):
  sizes = [(350, 100), (250, 60)] if tier == 'quick' else [(350, 100), (250, 60), (120, 100),
                                                           (60, 30)]
  cases = [{'kind': 'bulk', 'n_dead': d, 'n_new': n, 'rot': r, 'list': l}
           for (d, n), r, l in itertools.product(sizes, range(3),
                                                 ['allowlist', 'denylist', 'mixed'])]
  return cases, False


def sweep_final(tier):
  del tier
  cases = [{'kind': 'final', 'shape': sh, 'api': a, 'form': f, 'sig': dict(RICH_SIG), 'doc': 1,
            'prior': 1}
           for sh, a, f in itertools.product(FINAL_SHAPES, ['register', 'external'], FORMS)]
  return cases, True


def _nest(d, p, k=1):
  """d nested blocks; one attempt at level p (p == d: inside the innermost block, 0 < p < d:
  after the inner block but inside the block at level p; p == 0: none inside)."""
  inner = [['with', _nest(d, p, k + 1)]] if k < d else []
  return inner + ([['try']] if k == p else [])


def sweep_nesting(tier):
  del tier
  cases = []
  for d in (1, 2, 3):
    for p in range(d + 1):
      body = [['with', _nest(d, p)]]
      for prog in (body, [['enter']] + body + [['try'], ['exit']], body + body):
        for t, a in itertools.product(['fn', 'init', 'meta'], APIS):
          cases.append({'kind': 'nesting', 'target': t, 'api': a, 'api0': 'register',
                        'program': prog})
  return cases, True


SWEEPS = {'final': sweep_final, 'nesting': sweep_nesting, 'kind-api-scope': sweep_cells, 'forms': sweep_forms, 'invalid': sweep_invalid,
          'interactive': sweep_interactive, 'dynreg': sweep_dynreg, 'bulk': sweep_bulk}
