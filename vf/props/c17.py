"""C17 — exceptions from configurables keep their type, data and traceback.

A case describes (a) an exception: a builtin class with a constructor expression, or a user class
given as a small spec that is rendered to source text; (b) a chain of configurables k0 -> ... ->
kN whose links are Python calls from the body or evaluated references (`k_i.x = @k_{i+1}()`),
the innermost (a function body, a class constructor, or a method) raising the exception; (c) an
optional config scope around the outermost call and around inner links.  The raiser keeps the
original object `e`; the oracle compares what the caller catches (`e2`) with `e`.
"""
import builtins
import copy as copy_mod
import inspect
import re
import sys
import traceback
import types

from hypothesis import strategies as st

from vf import ginenv
from vf.core import OutOfDomain, Violation, ok, require

gin = ginenv.import_gin()

ID = 'C17'
LEVEL = 'exploration'
ISOLATE = True
BUDGET = {'quick': (8, 160), 'thorough': (16, 1500)}
RULE = ('sweep: every BaseException subclass exported by builtins (69 names on 3.12, aliases '
        'included) x 2-6 class-appropriate constructor expressions (no args / message / typed '
        'fields: OSError(errno,msg,file[,None,file2]), Unicode*Error 5-tuples, SyntaxError(msg, '
        'details), StopIteration(v), ImportError(name=,path=), AttributeError(name=,obj=), '
        'KeyError, SystemExit(code), flat/nested/mixed exception groups) x raise site (function '
        'body, class __init__, registered method, function evaluated as `@f()` for an outer '
        'configurable) x depth 1..4 of nested configurable calls x without/with an active scope. '
        'generated: Hypothesis specs of user exception classes rendered to source (1-2 builtin '
        'bases incl. layout-compatible multiple inheritance, 0-3 required positional + optional '
        'keyword-only constructor arguments taken by __init__ (super().__init__ with all / first / '
        'no arguments / not called) and/or __new__ (arguments passed on or dropped), stored '
        'arguments, instance attributes set inside or after construction, __slots__, properties '
        '(over args, stored args, typed fields, slots; also raising ones), class attributes, custom '
        '__str__/__repr__, ExceptionGroup subclasses with extra __new__ arguments and derive(), '
        'BaseException-only classes) and random builtin expressions, raised through random chains '
        '(call/ref links, optional scope per link, scoped references, function/class '
        'intermediates, raiser registered with configurable/register/external_configurable, '
        'method registered with register/configurable, optional `raise .. from`). Multiple '
        'inheritance: class UExc(A, B) for every ORDERED pair over 21 representative builtin '
        'classes (all builtin classes in the thorough tier) that CPython lets be created, both '
        'orders, incl. (ValueError, OSError), (KeyError, OSError), (ValueError, ExceptionGroup), '
        '(OSError, ValueError): exhaustive sweep mi-ordered-pairs (no args / two args, depth 1 '
        'and 2) and sampled by the generator. Twin first (optional in generated cases, one extra '
        'case per builtin expression and per pair in the sweeps): before the main raise an '
        'exception of a DISTINCT class with the same __module__ and __qualname__ (the same '
        'generated source exec\'ed in a second namespace; for builtins a subclass with the '
        'identical name) is raised through a configurable and caught. Catch links (generated, '
        'and two per builtin expression in the sweep): an intermediate configurable body catches '
        'the exception coming from below, changes args / type-specific C-level fields '
        '(filename, strerror, value, name, path, reason, lineno, code, obj) / __slots__ values / '
        'a __dict__ attribute on the caught object and re-raises it with bare `raise` or `raise '
        'exc`; the recorder runs again right before the re-raise. Raiser objects with format '
        'metacharacters in their repr (sites partial / callobj, generated and in the exhaustive '
        'sweep brace-reprs: 8 callable-instance reprs and 6 functools.partial arguments with '
        '{..}, {}, {0}, {x}, unbalanced braces, %s, %(a)s, 100% x 4 link shapes x scope x 4 '
        'exceptions), registered with gin.external_configurable(obj, name=). Chaining: the '
        'raise is plain, `from other` or `from None`, optionally after e.add_note(); re-raising '
        'bodies may use `raise exc from other` (generated; three such cases per builtin '
        'expression in the sweep). Signatures of the raiser: 10 shapes (defaults only, required '
        'positional, positional-only, keyword-only with none / one defaulted, *args, **kwargs '
        'and mixes), arguments supplied by the Python caller or, for evaluated references, by '
        'bindings; exhaustive sweep signatures: 10 shapes x 6 sites x 3 link shapes x '
        '{TypeError, TypeError subclass with required arguments, KeyError, KeyboardInterrupt}; '
        'TypeError is over-sampled by the generator. Late rendering: user classes whose '
        '__str__ reads instance state, or raises TypeError until a field is filled in, with '
        'that state changed AFTER the exception crossed the configurable(s) -- by a catching '
        'configurable body (mutation strstate), by a plain non-Gin frame above all '
        'configurables that re-raises, by the final caller before str() (generated; exhaustive '
        'sweep late-str: 2 __str__ kinds x 2 class shapes x 4 late-change sets x 6 link '
        'shapes). Class hooks: user classes with a __setattr__ refusing every / dunder / other '
        'names and with __init_subclass__(cls, *, code[=None], **kw) (generated; exhaustive '
        'sweep class-hooks: 6 hook sets x 3 class shapes x 5 link shapes x plain / `from` '
        'raise), plus hooks rejecting the proxy subclass with ValueError / RuntimeError / KeyError '
        'and by-name registries that reject the SECOND subclass of a name; optional `again`: an '
        'exception of the same class crossed a configurable earlier in the process. Slots: 1-3 '
        'slots in any declaration order with any subset unset, optionally split over a base '
        'class and its subclass (exhaustive sweep slots: 6 orders x 8 subsets + 4 base/subclass '
        'orders x 15 subsets). Failing calls: configurables (a, b, **options) / (a, *, k, '
        '**options) called with too few positional arguments and keyword names given through '
        '**dict, some containing {x}, {}, {0}, }, %s (direct, from an outer configurable body, '
        'or as an evaluated reference without arguments; exhaustive sweep call-fails: 2 shapes x '
        '10 name sets x 3 x scope), the reference being the TypeError Python raises for the '
        'same call on the undecorated function. Nested classes: the exception class may be '
        'defined inside a class (Outer.UExc), inside a factory function '
        '(make_exc.<locals>.UExc) or inside one of two outer classes with an inner class of the '
        'same name, the other one crossing a configurable first (generated; sweep nested-classes '
        '3 x 6 class shapes x 3). Call shapes: besides body calls and `@f()` references, links '
        'through a singleton (`k.x = @s/gin.singleton()`, `s/gin.singleton.constructor = @f`: f '
        'is the constructor on first use) and through a macro (`M = @f()`, `k.x = %M`) '
        '(generated; sweep call-shapes: 6 rich exceptions x 2 kinds x scoped/unscoped x 3 '
        'positions x 2 sites). Non-trivial = '
        'the original has a public data attribute besides args, or its constructor has required '
        'arguments, or >=2 configurables are on the stack. Distinct = distinct case JSON.')
ASSUMPTIONS = [
    '"public attribute" = a name from dir(e) not starting with "_" whose value on the original is '
    'readable and not callable; of the dunder attributes only __traceback__, __cause__, '
    '__suppress_context__ and __notes__ are looked at (see below), __context__ and __dict__ '
    'are not',
    'the reference values (str(e), the public data of e) are recorded by the raiser immediately '
    'before the raise statement; an implementation that extended the message by mutating the '
    'original in place would still be compared with the message as raised',
    'equality of attribute values is `is` or `==`; generated values are plain data (no NaN)',
    '"names the configurable / the scope" = the registered configurable name (never equal to a '
    'Python identifier of the probe) and the scope string recorded by the raiser through '
    'gin.current_scope_str() occur in str(e2) after the prefix str(e); nothing else of the text '
    'is compared, further "In call to configurable" lines for outer configurables are accepted',
    'only the innermost configurable (the one whose body raised) is required to be named',
    '"an instance of the same exception class" includes how the class presents itself: '
    'type(e).__name__, __qualname__ and __module__ at the caller equal those of the raised class, '
    'and the first line of traceback.format_exception_only starts as it does for the original '
    '(Gin\'s extension begins on a new line)',
    'for a call that fails before the body runs (missing positional argument) the original is the '
    'TypeError Python raises for the same call on the undecorated function: same class, equal '
    'args, message = that message + an extension naming the configurable and the scope (Gin\'s '
    'additional hint text is accepted, not required); no traceback frame is required, there is '
    'no raise statement',
    'the message clause is also checked late, against what the class itself renders for the '
    'ORIGINAL object at the same moment (str(original) is Gin-independent): at every catching '
    'body after its changes, in the plain frame, at the caller and after the caller completed the '
    'exception; the extension must then name every configurable that augmented so far. This '
    'late comparison is made only while every public attribute reads the same on the original '
    'and on the caught object (state in the shared __dict__); after a body changed args / a '
    'C-level field / a slot on the object it caught, which state a rendering shows is not '
    'decided by the property and the late comparison is skipped (label '
    'late-message:not-comparable). A class whose __str__ cannot render at the time of the '
    'crossing must still arrive as the same class',
    'explicit chaining and notes are data of the exception: __cause__ (by identity) and __notes__ '
    'must read at the caller as the raise statement (`raise e from other` / `from None` / plain, '
    'also `raise exc from other` in a re-raising body) left them, and __suppress_context__ must '
    'be True after a raise with `from` and False after a plain raise (the latter found a leftover '
    'of repair 1b34a9e, fixed by 5ec59a5). __context__ is not compared at all: Python '
    'itself rewrites it when Gin re-raises from inside its except block (it becomes the '
    'original exception object), so no value is attributable to the raise site',
    'when an intermediate configurable body catches, changes and re-raises the exception, the '
    'object as it leaves that body (message, public data, scope and name of that configurable) '
    'is the original for the configurables further out, and that body is itself a caller: what '
    'it caught is compared with the previous reference in the same way',
    '"catchable by the same except clauses" is read in both directions for the twin class only: '
    'the twin is unrelated to (or a strict subclass of) the raised class, so `except Twin` does '
    'not catch the original and must not catch the object that reaches the caller',
    'the active scope is the one in force when the raising configurable was entered; probes never '
    'open a scope between entering the raising configurable and the raise',
    'generated properties do not depend on str(self)/repr(self)/type(self)/id(self): the message '
    'is extended by design, so such a property cannot read the same',
    'callable attributes (with_traceback, add_note, split, subgroup, derive) are not compared; '
    'for exception groups an `except* Leaf` clause that matches the original must run for the '
    'caught object and see the same leaf objects',
    'user classes do not override __getattr__/__getattribute__/__reduce__ and have no custom '
    'metaclass: the quantifier of C17 does not list them',
    'user classes may define __setattr__ refusing assignment (every name / dunder names / other '
    'names; their own code fills instances in through object.__setattr__): all of C17 is asserted '
    'for them. For the first two kinds the case runs without config scopes and without add_note: '
    'contextlib itself assigns exc.__traceback__ when an exception leaves a generator-based '
    'context manager (gin.config_scope is one), and add_note assigns __notes__, so Python '
    'replaces such an exception by the AttributeError regardless of Gin. The probe handlers skip '
    'the changes the class refuses',
    'user classes may define __init_subclass__ with an optional keyword (everything asserted) or '
    'a REQUIRED keyword, or a hook raising ValueError / RuntimeError / KeyError (always, or for '
    'the second subclass of a name): no subclass can be derived for these, so the same class, data, '
    'chaining and traceback are asserted, the message must still start with the original message, '
    'but the extension naming the configurable and the scope is NOT required for that class',
]
FLOORS = {
    'nontrivial': 0.5,
    # chain-shape floors are relative to the cases that vary the chain (all but mi-ordered-pairs)
    'scope:active': (0.3, 'chain:varied'),
    'link:ref': (0.15, 'chain:varied'),
    'depth>=3': (0.2, 'chain:varied'),
    'passthrough': 0.02,
    'family:group': 0.01,
    'kind:user': (0.5, 'origin:gen'),
    'user:new-required': (0.15, 'user:generated'),
    'user:init-required': (0.15, 'user:generated'),
    'user:init-nosuper': (0.05, 'user:generated'),
    'user:slots': (0.1, 'user:generated'),
    'user:props': (0.2, 'user:generated'),
    'user:mi': (0.05, 'user:generated'),
    'user:custom-str': (0.1, 'user:generated'),
    'user:group-subclass': (0.03, 'user:generated'),
    'user:mi-layout-base-not-first': (0.03, 'user:generated'),
    'twin:first': 0.03,
    'catch:reraised': 0.05,
    'raiser-repr:braces': 0.02,
    'raise-from': 0.03,
    'late-message:checked': 0.5,
    'late:plain-frame': 0.01,
    'late:caller': 0.01,
    'user:str-reads-state': (0.1, 'user:generated'),
    'user:setattr-refuses-all': (0.03, 'user:generated'),
    'user:setattr-refuses-dunder': (0.03, 'user:generated'),
    'user:setattr-refuses-public': (0.03, 'user:generated'),
    'user:init-subclass-required': (0.04, 'user:generated'),
    'user:init-subclass-rejects-non-TypeError': (0.04, 'user:generated'),
    'user:unset-slot-declared-before-a-set-one': (0.03, 'user:generated'),
    'same-class-crossed-before': 0.03,
    'callfail': 0.01,
    'link:singleton': (0.05, 'origin:gen'),
    'link:macro': (0.05, 'origin:gen'),
    'user:nested-or-local-class': (0.15, 'user:generated'),
    'callfail:brace-in-keyword-name': 0.004,
    'user:init-subclass-optional': (0.04, 'user:generated'),
    'user:str-needs-field': (0.04, 'user:generated'),
    'str-state-changed-after-crossing': 0.01,
    'raise-from-None': 0.02,
    'note-added': 0.02,
    'sig:kwonly-none-defaulted': 0.03,
    'typeerror:kwonly-none-defaulted': 0.005,
    'typeerror:non-default-signature': 0.01,
    'raiser-repr:percent': 0.005,
    'catch:mutated-outside-dict': 0.04,
}
TECHNIQUE = ('bounded exhaustive sweep over the builtin exception hierarchy x raise site x depth x '
             'scope, plus Hypothesis-generated user exception classes rendered to source, with a '
             'differential oracle: the original exception object kept by the raiser')
LEVEL_TEXT = ('Every exception class exported by builtins is raised, with typed constructor '
              'arguments, from each kind of raise site at each nesting depth 1..4 with and without '
              'a scope, and the object the caller catches is compared with the original kept by '
              'the raiser: catchable by `except type(e)`, every public data attribute equal, '
              'traceback containing the raising frame and line, message = original + an extension '
              'naming the innermost configurable and the active scope, non-Exception classes '
              'passed through as the same object. The sweep is exhaustive over the builtin class '
              'set of the running interpreter only; user classes are explored by generation, so '
              'the check shows absence of counter-examples within the generated space, not for '
              'all classes.')
LEVEL_NOTE = ('Trusted: CPython attribute lookup and `except` matching as the definition of '
              '"reads the same" / "caught by the same clause"; gin.current_scope_str() as the '
              'definition of the active scope; the renderer of user classes. Third-party exception '
              'classes implemented in C with their own tp_new are not covered.')

PROBE = 'c17probe'
PROBE_FILE = '/c17probe/chain.py'
CLASS_FILE = '/c17probe/userclass.py'


# ----------------------------------------------------------------------------- builtin classes
def builtin_names():
  return sorted(n for n, v in vars(builtins).items()
                if isinstance(v, type) and issubclass(v, BaseException))


GROUP_EXPRS = [
    "{N}('eg', [ValueError(1), TypeError('t')])",
    "{N}('nested', [ExceptionGroup('inner', [KeyError('k')]), OSError(2, 'm', 'f')])",
    "{N}('one', [ValueError('v')])",
]


def builtin_exprs(name):
  """Class-appropriate constructor expressions for the builtin exception class `name`."""
  cls = getattr(builtins, name)
  n = name
  if issubclass(cls, BaseExceptionGroup):
    out = [x.format(N=n) for x in GROUP_EXPRS]
    if cls is BaseExceptionGroup:
      out += ["BaseExceptionGroup('b', [KeyboardInterrupt()])",
              "BaseExceptionGroup('mixed', [ValueError(1), SystemExit(2)])"]
    return out
  if issubclass(cls, OSError):
    out = [f'{n}()', f"{n}('only a message')", f"{n}(2, 'No such thing')",
           f"{n}(2, 'No such thing', '/x/file')", f"{n}(13, 'denied', 'src', None, 'dst')"]
    if cls is BlockingIOError:
      out.append("BlockingIOError(11, 'would block', 7)")
    return out
  if cls is UnicodeDecodeError:
    return ["UnicodeDecodeError('utf-8', b'ab\\xff\\xfe', 2, 3, 'invalid start byte')",
            "UnicodeDecodeError('ascii', bytearray(b'\\x80'), 0, 1, 'ordinal not in range(128)')"]
  if cls is UnicodeEncodeError:
    return ["UnicodeEncodeError('ascii', 'h\\xe9llo', 1, 2, 'ordinal not in range(128)')",
            "UnicodeEncodeError('latin-1', '\\u20ac\\u20ac', 0, 2, 'r')"]
  if cls is UnicodeTranslateError:
    return ["UnicodeTranslateError('h\\xe9llo', 1, 2, 'no mapping')",
            "UnicodeTranslateError('abc', 0, 3, '')"]
  if issubclass(cls, SyntaxError):
    return [f'{n}()', f"{n}('bad syntax')",
            f"{n}('bad syntax', ('file.py', 3, 5, 'x = (\\n'))",
            f"{n}('bad syntax', ('file.py', 3, 5, 'x = (\\n', 3, 9))"]
  if issubclass(cls, (StopIteration, StopAsyncIteration)):
    return [f'{n}()', f'{n}(5)', f"{n}(['r', 1])", f"{n}('a', 2)"]
  if issubclass(cls, ImportError):
    return [f'{n}()', f"{n}('no module')", f"{n}('no module', name='modx', path='/p/modx.py')",
            f"{n}('a', 2, name='only_name')"]
  if issubclass(cls, AttributeError):
    return [f'{n}()', f"{n}('no attribute')", f"{n}('no attribute', name='attr', obj=(1, 2))"]
  if issubclass(cls, NameError):
    return [f'{n}()', f"{n}('not defined')", f"{n}('not defined', name='nm')", f"{n}('a', 2)"]
  if issubclass(cls, KeyError):
    return [f'{n}()', f"{n}('k')", f"{n}(('a', 1))", f"{n}('a', 2)"]
  if cls is SystemExit:
    return ['SystemExit()', 'SystemExit(3)', "SystemExit('bye')", 'SystemExit(1, 2)']
  return [f'{n}()', f"{n}('a message')", f"{n}('a', 2)"]


def family(cls):
  for base, fam in ((BaseExceptionGroup, 'group'), (OSError, 'oserror'), (SyntaxError, 'syntax'),
                    (UnicodeError, 'unicode'), (ImportError, 'import'),
                    (StopIteration, 'stopiteration'), (AttributeError, 'attribute'),
                    (NameError, 'name'), (KeyError, 'keyerror'), (Warning, 'warning')):
    if issubclass(cls, base):
      return fam
  return 'plain' if issubclass(cls, Exception) else 'base'


# ----------------------------------------------------------------------------- user classes
SINGLE_BASES = ['Exception', 'ValueError', 'TypeError', 'TypeError', 'TypeError', 'KeyError', 'LookupError', 'RuntimeError',
                'OSError', 'FileNotFoundError', 'ImportError', 'StopIteration', 'AttributeError',
                'NameError', 'ArithmeticError', 'UnicodeError', 'AssertionError', 'UserWarning',
                'BaseException', 'KeyboardInterrupt']
GROUP_LEAD = ["'gm'", "[ValueError(1), KeyError('k')]"]
# one representative per allocator / instance layout / constructor signature among the builtins
MI_REPRESENTATIVES = ['Exception', 'ValueError', 'TypeError', 'KeyError', 'LookupError',
                      'IndexError', 'RuntimeError', 'OSError', 'FileNotFoundError', 'ImportError',
                      'ModuleNotFoundError', 'StopIteration', 'StopAsyncIteration',
                      'AttributeError', 'NameError', 'SyntaxError', 'UnicodeError',
                      'UnicodeDecodeError', 'UserWarning', 'ExceptionGroup', 'BaseExceptionGroup']


def is_group_name(name):
  return issubclass(getattr(builtins, name), BaseExceptionGroup)


def _mi_probe(pair):
  """(creatable and constructible without extra arguments, super().__new__ usable) for
  `class T(A, B)`; decided by CPython itself ("where layouts allow")."""
  try:
    bases = tuple(getattr(builtins, b) for b in pair)
    t = type('T', bases, {})
    lead = eval('(' + ', '.join(GROUP_LEAD) + ')') if any(map(is_group_name, pair)) else ()  # pylint: disable=eval-used
    t(*lead)
  except Exception:  # pylint: disable=broad-except
    return False, False
  try:
    t2 = type('T', bases, {'__new__': lambda cls, *a: super(t2, cls).__new__(cls, *a)})
    t2(*lead)
    return True, True
  except Exception:  # pylint: disable=broad-except
    return True, False


def mi_pairs(names):
  """All ORDERED pairs of distinct classes among `names` for which the class can be created."""
  seen, uniq = set(), []
  for n in names:
    if id(getattr(builtins, n)) not in seen:       # aliases (IOError is OSError) once
      seen.add(id(getattr(builtins, n)))
      uniq.append(n)
  out = []
  for a in uniq:
    for b in uniq:
      if a != b:
        okay, new_ok = _mi_probe((a, b))
        if okay:
          out.append(([a, b], new_ok))
  return out


_MI = mi_pairs(MI_REPRESENTATIVES)
MI_BASES = [p for p, _ in _MI]
MI_NEW_OK = {','.join(p) for p, new_ok in _MI if new_ok}


def first_c_base_differs(cls):
  """The first C-implemented class in the MRO is not the one reached through __base__ (the
  one that fixes the instance layout and owns the allocator)."""
  heap = 1 << 9
  base = cls
  while base.__flags__ & heap:
    base = base.__base__
  return next(k for k in cls.__mro__ if not k.__flags__ & heap) is not base


VALUES = [0, 1, 2, -7, 13, 'v', 'some text', '', None, True, 2.5, [1, 2], ['a', ['b']],
          {'k': 1}, {'k': [1, {'z': None}]}]
ATTR_NAMES = ['detail', 'code', 'payload', 'hint', 'extra', 'value', 'name', 'status']
PROP_KINDS = ['args', 'nargs', 'const', 'stored', 'raises', 'raises2', 'attr', 'slot', 'fields']
_val = st.sampled_from(VALUES)


# __init_subclass__ hooks that reject Gin's proxy subclass with something other than TypeError;
# the registry kinds accept the first subclass of a name and reject the second
INITSUB_REJECTING = ['ValueError', 'RuntimeError', 'KeyError', 'registry-ValueError',
                     'registry-RuntimeError']


@st.composite
def _user_spec(draw):
  group = draw(st.integers(0, 11)) == 0
  mi = (not group) and draw(st.integers(0, 3)) == 0
  if group:
    bases = [draw(st.sampled_from(['ExceptionGroup', 'ExceptionGroup', 'BaseExceptionGroup']))]
  elif mi:
    bases = draw(st.sampled_from(MI_BASES))
  else:
    bases = [draw(st.sampled_from(SINGLE_BASES))]
  n = draw(st.integers(0, 3))
  new = draw(st.sampled_from([None, None, 'pass', 'drop']))
  init = draw(st.sampled_from([None, 'all', 'all', 'first', 'empty', 'nosuper']))
  if group:
    new = 'pass'
    init = draw(st.sampled_from([None, None, 'nosuper']))
  elif any(map(is_group_name, bases)):
    # a group class among two bases, no __new__ of its own: the constructor takes (message, excs)
    n, new, init = 0, None, None
  elif mi and ','.join(bases) not in MI_NEW_OK:
    new = None      # super().__new__ would be refused by CPython ("is not safe")
  kwonly = init is not None and draw(st.integers(0, 3)) == 0
  names = draw(st.lists(st.sampled_from(ATTR_NAMES), max_size=3, unique=True))
  attrs = [[a, draw(_val)] for a in names]
  post_names = draw(st.lists(st.sampled_from(['late', 'detail', 'tag']), max_size=2, unique=True))
  post = [[a, draw(_val)] for a in post_names]
  cnames = draw(st.lists(st.sampled_from(['kind', 'retryable', 'codes']), max_size=2,
                         unique=True))
  return {
      'user': True,
      'bases': bases,
      'group': group,
      'n': n,
      'kwonly': kwonly,
      'new': new,
      'init': init,
      'store': draw(st.booleans()),
      # declaration order matters (vars(cls) keeps it); any subset may be left unset
      'slots': draw(st.sampled_from([[], [], [], ['sa'], ['sa', 'sb'], ['sb', 'sa'],
                                     ['sa', 'sb', 'sc'], ['sc', 'sa', 'sb'], ['sb', 'sc', 'sa']])),
      'unset': draw(st.lists(st.sampled_from(['sa', 'sb', 'sc', 'ba', 'bb']), max_size=3,
                             unique=True).map(sorted)),
      # slots declared by an intermediate base class UBase(<bases>) of UExc
      'baseslots': draw(st.sampled_from([[], [], [], [], ['ba'], ['ba', 'bb'], ['bb', 'ba']])),
      'attrs': attrs,
      'post': post,
      'cattrs': [[c, draw(_val)] for c in cnames],
      'props': draw(st.lists(st.sampled_from(PROP_KINDS), max_size=3)),
      'str': draw(st.sampled_from([None, None, 'const', 'args', 'attr', 'state', 'state',
                                   'needs'])),
      'repr': draw(st.booleans()),
      'argv': [draw(_val) for _ in range(n)],
      'kwv': draw(_val),
      # __setattr__ refusing assignment (to every name / to dunder names / to other names), and
      # __init_subclass__ with a required / an optional keyword
      'setattr': draw(st.sampled_from([None] * 8 + ['all', 'dunder', 'public'] * 2)),
      # where the class statement stands: module level, inside a class (Outer.UExc), inside a
      # factory function (make_exc.<locals>.UExc), or inside one of two outer classes that both
      # have an inner class of this name (Outer.UExc raised, Other.UExc crossed before)
      'nest': draw(st.sampled_from([None] * 5 + ['class', 'factory', 'class-pair'])),
      'initsub': draw(st.sampled_from([None] * 12 + ['required'] * 2 + ['optional'] * 3 +
                                      INITSUB_REJECTING)),
  }


def render_user(spec):
  """Returns (class source, constructor expression, [post-construction statements])."""
  n = spec['n']
  params = [f'p{i}' for i in range(n)]
  group = spec['group']
  new, init = spec['new'], spec['init']
  lead = ['message', 'excs'] if group else []
  sig = ''.join(', ' + p for p in lead + params + (['*', 'kw'] if spec['kwonly'] else []))
  inside = bool(new or init)          # is there a constructor body to put assignments in?
  assigns = []
  if spec['store']:
    # without a constructor body the stored arguments are assigned after construction
    assigns += [f'self.{p} = {p if inside else repr(v)}' for p, v in zip(params, spec['argv'])]
  if spec['kwonly']:
    assigns.append('self.kw = kw')
  attrs = [(a, v) for a, v in spec['attrs'] if not (group and a in ('message', 'exceptions'))]
  baseslots = [] if group else list(spec.get('baseslots') or [])
  unset = set(spec.get('unset') or [])
  assigns += [f'self.{s} = {("slot-" + s)!r}' for s in baseslots + spec['slots']
              if s not in unset]
  assigns += [f'self.{a} = {v!r}' for a, v in attrs]
  body = []
  if baseslots:
    body += [f'class UBase({", ".join(spec["bases"])}):', f'  __slots__ = {tuple(baseslots)!r}']
  body.append(f'class UExc({"UBase" if baseslots else ", ".join(spec["bases"])}):')
  if spec['slots']:
    body.append(f'  __slots__ = {tuple(spec["slots"])!r}')
  for c, v in spec['cattrs']:
    body.append(f'  {c} = {v!r}')
  if new:
    passed = ', '.join(lead + (params if new == 'pass' and not group else []))
    body.append(f'  def __new__(cls{sig}):')
    body.append(f'    self = super().__new__(cls{", " + passed if passed else ""})')
    if not init:
      body += ['    ' + a for a in assigns]
    body.append('    return self')
  if init:
    body.append(f'  def __init__(self{sig}):')
    sup = {'all': ', '.join(lead + params), 'first': ', '.join((lead + params)[:1]),
           'empty': ''}.get(init)
    if sup is not None:
      body.append(f'    super().__init__({sup})')
    body += ['    ' + a for a in assigns]
    if sup is None and not assigns:
      body.append('    pass')
  first_attr = attrs[0][0] if attrs else None
  for i, kind in enumerate(spec['props']):
    expr = {
        'args': 'self.args',
        'nargs': 'len(self.args)',
        'const': "'pc'",
        'stored': "('st', self.p0)" if (spec['store'] and n) else "'pc2'",
        'attr': f'self.{first_attr}' if first_attr else "'pc3'",
        'slot': f'self.{(spec["slots"] + baseslots)[0]}' if spec['slots'] + baseslots else "'pc4'",
        'fields': "[getattr(self, f, 'absent') for f in ('errno', 'filename', 'value', 'name', "
                  "'msg', 'message', 'late')]",
    }.get(kind)
    body.append('  @property')
    body.append(f'  def pr{i}(self):')
    if kind == 'raises':
      body.append("    raise AttributeError('hidden')")
    elif kind == 'raises2':
      body.append("    raise ValueError('broken property')")
    else:
      body.append(f'    return {expr}')
  if spec['str']:
    expr = {'const': "'custom-str'", 'args': "'U:' + repr(self.args)",
            'attr': "'U<%r>' % (getattr(self, 'p0', None),)",
            # reads instance state that handlers above the configurable may still change
            'state': "'U<annot=%s>' % (getattr(self, 'annot', '-'),)",
            # cannot be rendered until somebody has filled in `line` (TypeError while None)
            'needs': "'UExc at line %d' % self.line"}[spec['str']]
    body += ['  def __str__(self):', f'    return {expr}']
  if spec['repr']:
    body += ['  def __repr__(self):', "    return 'UExc<custom repr>'"]
  if group:
    extra = ', '.join(f'self.{p}' if spec['store'] else repr(v)
                      for p, v in zip(params, spec['argv']))
    kw = (', kw=self.kw' if spec['kwonly'] else '')
    body += ['  def derive(self, excs):',
             f'    return UExc(self.message, excs{", " + extra if extra else ""}{kw})']
  refuse = {'all': 'True', 'dunder': "name.startswith('__')",
            'public': "not name.startswith('__')"}.get(spec.get('setattr'))
  if refuse:
    body += ['  def __setattr__(self, name, value):', f'    if {refuse}:',
             "      raise AttributeError('immutable')", '    super().__setattr__(name, value)']
  hook = spec.get('initsub')
  if hook in INITSUB_REJECTING:
    err = hook.split('-')[-1]
    body += ['  _registry = {}', '  def __init_subclass__(cls, **kwargs):',
             '    super().__init_subclass__(**kwargs)']
    if hook.startswith('registry'):
      # an error hierarchy registering its subclasses by name: a second one is a duplicate
      body += ['    if cls.__name__ in UExc._registry:',
               f"      raise {err}('duplicate error class name %r' % cls.__name__)",
               '    UExc._registry[cls.__name__] = cls']
    else:
      body.append(f"    raise {err}('UExc cannot be subclassed')")
  elif hook:
    kw = 'code' if spec['initsub'] == 'required' else 'code=None'
    body += [f'  def __init_subclass__(cls, *, {kw}, **kwargs):',
             '    super().__init_subclass__(**kwargs)', '    cls.code = code']
  if body[-1].startswith('class UExc('):
    body.append('  pass')
  leaf = 'KeyboardInterrupt()' if spec['bases'] == ['BaseExceptionGroup'] else "KeyError('k')"
  if group:
    cargs = ["'gm'", f'[ValueError(1), {leaf}]']
  elif any(map(is_group_name, spec['bases'])):
    cargs = list(GROUP_LEAD)
  else:
    cargs = []
  cargs += [repr(v) for v in spec['argv']]
  if spec['kwonly']:
    cargs.append(f'kw={spec["kwv"]!r}')
  ctor = f'UExc({", ".join(cargs)})'
  post = [f'e.{a} = {v!r}' for a, v in spec['post']]
  if spec['str'] == 'needs':
    post.append('e.line = None')
  if not inside:
    post = [a.replace('self.', 'e.', 1) for a in assigns] + post
  if spec.get('setattr') in ('all', 'public'):
    # the class's own code (and the raise site) fill the instance in behind its __setattr__
    fix = lambda l: re.sub(r"^(\s*)(self|e)\.(\w+) = (.*)$", r"\1object.__setattr__(\2, '\3', \4)", l)
    body, post = [fix(l) for l in body], [fix(l) for l in post]
  nest = spec.get('nest')
  if nest in ('class', 'class-pair'):
    body = ['class Outer:'] + ['  ' + l for l in body]
    if nest == 'class-pair':
      body += ['class Other:', '  class UExc(Exception):', '    pass']
    body.append('UExc = Outer.UExc')
  elif nest == 'factory':
    body = ['def make_exc():'] + ['  ' + l for l in body] + ['  return UExc', 'UExc = make_exc()']
  return '\n'.join(body) + '\n', ctor, post


def refuses_dunder(exc):
  return bool(exc.get('user')) and exc.get('setattr') in ('all', 'dunder')


def normalise(case):
  """Classes that refuse `exc.__traceback__ = ...` cannot pass through ANY generator-based
  context manager (contextlib itself assigns that attribute) nor take add_note(): for them the
  case runs without scopes and notes.  That is Python's doing, not Gin's."""
  if not refuses_dunder(case['exc']):
    return case
  case = copy_mod.deepcopy(case)
  case['scope'] = ''
  case['note'] = False
  for link in case['links']:
    link['scope'] = ''
    if link['kind'] in ('singleton', 'macro'):     # both are scoped references underneath
      link['kind'] = 'ref'
  return case


# ----------------------------------------------------------------------------- chains
SCOPES = ['', 'zsa', 'zsa/zsb']
LINK_SCOPES = ['', '', 'zm']
MUTATIONS = ['args', 'field', 'slot', 'dict', 'strstate']
_plain_link = st.builds(lambda k, s: {'kind': k, 'scope': s},
                        st.sampled_from(['call', 'call', 'call', 'ref', 'ref', 'singleton', 'singleton', 'macro', 'macro']),
                        st.sampled_from(LINK_SCOPES))
# 'catch': a call link whose body catches what comes from below, changes public state of the
# exception object and re-raises it (bare `raise` or `raise exc`)
_catch_link = st.builds(
    lambda s, m, r: {'kind': 'catch', 'scope': s, 'mut': sorted(m), 'reraise': r},
    st.sampled_from(LINK_SCOPES),
    st.lists(st.sampled_from(MUTATIONS + ['strstate']), min_size=0, max_size=4, unique=True),
    st.sampled_from(['bare', 'bare', 'named', 'from']))
_link = st.one_of(_plain_link, _plain_link, _plain_link, _catch_link)


# raisers whose repr() contains format-string metacharacters: callable instances with such a
# __repr__ and functools.partial objects carrying such arguments (registered through
# gin.external_configurable(obj, name=...)); none of the texts contains a configurable or scope name
OBJ_REPRS = ["PyObj({'a': 1})", '<PyObj {x}>', '<PyObj {}>', '<PyObj {0}>', '<PyObj {{ }>', 'PyObj(}',
             '<PyObj %s %(a)s 100%>', '<PyObj {x!r:>{w}} %d>']
PARTIAL_ARGS = ["{'a': 1}", '{1, 2}', "'{}'", "'{0} {x}'", "'%s %(a)s 100%'", "['{', '}}']"]


# signature of the raising configurable: (parameters, arguments a Python caller passes,
# bindings that supply the required named parameters when Gin evaluates it as a reference)
SIGS = [
    ('x=None', '', []),
    ('a, x=None', '1', ['a']),
    ('a, /, x=None', '1', None),                       # positional-only: not bindable, see eff_sig
    ('a, *, schema', "1, schema='s'", ['a', 'schema']),            # keyword-only, none defaulted
    ('*, schema, strict=False', "schema='s'", ['schema']),        # keyword-only, one defaulted
    ('a, b=2, *args, opt=None, **kwargs', '1, 2, 3, k=4', ['a']),
    ('*args, **kwargs', '1, k=2', []),
    ('a, *, schema, **kwargs', "1, schema='s', z=3", ['a', 'schema']),
    ('x=None, *, flag=True', '', []),
    ('*, schema', "schema='s'", ['schema']),
]
KWONLY_NO_DEFAULT = {3, 7, 9}


# link kinds in which Gin itself calls the next configurable while it evaluates a value for the
# outer one: `k.x = @next()`; `k.x = %M` with `M = @next()`; `k.x = @sk/gin.singleton()` with
# `sk/gin.singleton.constructor = @next` (next is then the singleton's constructor on first use)
BY_REFERENCE = ('ref', 'singleton', 'macro')


def eff_sig(case):
  """Index into SIGS actually used: a raiser evaluated as @f() cannot get positional-only
  arguments from Gin, so that shape falls back to the plain required parameter."""
  i = case.get('sig', 0) % len(SIGS)
  by_ref = bool(case['links']) and case['links'][-1]['kind'] in BY_REFERENCE and (
      case['site'] != 'method')
  return 1 if (by_ref and SIGS[i][2] is None) else i


def _chain(draw):
  site = draw(st.sampled_from(['fn', 'fn', 'fn', 'ctor', 'ctor', 'ctor_new', 'method', 'method',
                               'partial', 'callobj']))
  return {
      'site': site,
      'style': draw(st.integers(0, 7)),
      'sig': draw(st.sampled_from([0, 0, 0, 1, 2, 3, 3, 4, 5, 6, 7, 8, 9])),
      'how': 'register' if site == 'method' else 'external' if site in (
          'partial', 'callobj') else draw(
              st.sampled_from(['configurable', 'configurable', 'register', 'external'])),
      'mhow': draw(st.sampled_from(['register', 'configurable'])),
      'links': draw(st.lists(_link, max_size=3)),
      'inter': draw(st.sampled_from(['fn', 'fn', 'cls'])),
      'scope': draw(st.sampled_from(SCOPES)),
      'cause': draw(st.sampled_from([False, False, False, True, True, 'none'])),
      'note': draw(st.integers(0, 3)) == 0,
      # where the state read by a custom __str__ is changed AFTER the exception crossed the
      # configurable(s): in a plain (non-Gin) frame above them that re-raises, by the final caller
      'late': draw(st.sampled_from([[], [], ['plain'], ['caller'], ['caller', 'plain']])),
      'twin': draw(st.integers(0, 2)) == 0,
      'again': draw(st.integers(0, 2)) == 0,     # the same class crossed a configurable before
      'origin': 'gen',
  }


@st.composite
def _gen_case(draw):
  case = _chain(draw)
  if draw(st.integers(0, 3)) == 0:
    name = draw(st.sampled_from(builtin_names() + ['TypeError'] * 12))
    case['exc'] = {'builtin': name, 'expr': draw(st.sampled_from(builtin_exprs(name)))}
  else:
    case['exc'] = draw(_user_spec())
  return case


# ----------------------------------------------------------------------------- failing calls
# The TypeError is raised by Python's own call machinery when gin_wrapper calls the function with
# too few positional arguments (Gin then appends its "No values supplied ..." hint); the caller
# passed keyword names through **dict, some of them containing format metacharacters.
CALLFAIL_SHAPES = [('a, b, **options', '1'), ('a, *, k, **options', 'k=2')]
CALLFAIL_KWNAMES = [[], ['plain'], ['{x}'], ['{}'], ['{0}'], ['}'], ['{color}', 'plain'],
                    ['{0}', '{1}'], ['%s'], ['a b', '{x!r:>{w}}']]


@st.composite
def _callfail_case(draw):
  return {'callfail': True, 'shape': draw(st.integers(0, len(CALLFAIL_SHAPES) - 1)),
          'kwnames': draw(st.sampled_from(CALLFAIL_KWNAMES)),
          'link': draw(st.sampled_from(['direct', 'call', 'call', 'ref'])),
          'how': draw(st.sampled_from(['configurable', 'register', 'external'])),
          'scope': draw(st.sampled_from(SCOPES)), 'origin': 'gen'}


def sweep_callfail(tier):
  del tier
  cases = []
  for shape in range(len(CALLFAIL_SHAPES)):
    for kwnames in CALLFAIL_KWNAMES:
      for n, link in enumerate(('direct', 'call', 'ref')):
        for scope in ('', 'zsa/zsb'):
          cases.append({'callfail': True, 'shape': shape, 'kwnames': kwnames, 'link': link,
                        'how': ('configurable', 'register', 'external')[(n + shape) % 3],
                        'scope': scope, 'origin': 'sweep'})
  return cases, True


def check_callfail(case):
  """Differential: the same call on the undecorated function gives the reference TypeError."""
  params, supplied = CALLFAIL_SHAPES[case['shape'] % len(CALLFAIL_SHAPES)]
  kw = {k: i for i, k in enumerate(case['kwnames'])} if case['link'] != 'ref' else {}
  call = f'({supplied}, **KW)' if case['link'] != 'ref' else '()'
  how = case['how']
  target = "gin.get_configurable('zq_k1')" if how != 'configurable' else 'pyfn1'
  src = ['import gin', '', f'def plain1({params}):', '  return (a, options)', '']
  if how == 'external':
    src.append("gin.external_configurable(plain1, 'zq_k1')")
  else:
    src.append(f"pyfn1 = gin.{how}('zq_k1')(plain1)")
  src += ['', "@gin.configurable('zq_k0')", 'def pyfn0(x=None):',
          f"  return {'x' if case['link'] == 'ref' else target + call}", '',
          'def _entry():', f"  return {target + call if case['link'] == 'direct' else 'pyfn0()'}", '',
          'def _reference():', f'  return plain1{call}', '']
  src = '\n'.join(src)
  mod = types.ModuleType(PROBE)
  mod.__file__ = PROBE_FILE
  sys.modules[PROBE] = mod
  mod.KW = kw
  exec(compile(src, PROBE_FILE, 'exec'), mod.__dict__)  # pylint: disable=exec-used
  if case['link'] == 'ref':
    gin.parse_config('zq_k0.x = @zq_k1()')

  def describe():
    return f'--- source\n{src}--- KW = {kw!r}; scope {case["scope"]!r}'

  try:
    mod._reference()  # pylint: disable=protected-access
    raise OutOfDomain('the plain call does not fail')
  except TypeError as ex:
    ref = ex
  e2 = None
  try:
    if case['scope']:
      with gin.config_scope(case['scope']):
        mod._entry()  # pylint: disable=protected-access
    else:
      mod._entry()  # pylint: disable=protected-access
  except BaseException as caught:  # pylint: disable=broad-except
    e2 = caught
  require(e2 is not None, 'exception-swallowed', describe)
  require(isinstance(e2, TypeError) and type(ref) in type(e2).__mro__, 'not-same-class',
          lambda: f'the plain call raises {short(ref)}; through the configurable the caller gets '
                  f'{type(e2).__name__} {short(e2)}\n{describe()}')
  require(e2.args == ref.args, 'attribute-differs',
          lambda: f'args: plain call {short(ref.args)}, caught {short(e2.args)}\n{describe()}')
  s2, base = str(e2), str(ref)
  require(s2.startswith(base), 'message-prefix', lambda: f'{base!r} / {s2!r}\n{describe()}')
  ext = s2[len(base):]
  require('zq_k1' in ext, 'configurable-not-named',
          lambda: f'extension {ext!r} does not name zq_k1\n{describe()}')
  require(not case['scope'] or case['scope'] in ext, 'scope-not-named',
          lambda: f'extension {ext!r} does not name scope {case["scope"]!r}\n{describe()}')
  require(e2.__cause__ is None, 'chaining-differs', lambda: f'__cause__ {short(e2.__cause__)}')
  require(caught_by(e2, TypeError), 'except-clause-misses', describe)
  labels = {'callfail', 'callfail:' + case['link'], 'how:' + how, 'typeerror', 'nontrivial',
            'origin:' + case.get('origin', 'replay'), 'chain:varied',
            'scope:active' if case['scope'] else 'scope:none'}
  if any(c in k for k in kw for c in '{}'):
    labels.add('callfail:brace-in-keyword-name')
  if any('%' in k for k in kw):
    labels.add('callfail:percent-in-keyword-name')
  sys.modules.pop(PROBE, None)
  return ok(labels, True)


def strategy():
  return st.one_of(*([_gen_case()] * 11 + [_callfail_case()]))


def sweep_builtins(tier):
  del tier
  cases = []
  for name in builtin_names():
    for expr in builtin_exprs(name):
      for site in ('fn', 'ctor', 'method', 'ref'):
        for depth in (1, 2, 3, 4):
          for scope in ('', 'zsa/zsb'):
            links = [{'kind': 'call', 'scope': ''}] * (depth - 1)
            if site == 'ref':
              # the function is evaluated as @f() for the innermost of `depth` configurables
              links = links + [{'kind': 'ref', 'scope': ''}]
            cases.append({
                'exc': {'builtin': name, 'expr': expr},
                'site': 'fn' if site == 'ref' else site,
                'how': 'register' if site == 'method' else 'configurable',
                'mhow': 'register', 'links': links, 'inter': 'fn', 'scope': scope,
                'cause': False, 'origin': 'sweep'})
      # an intermediate body catches the (already augmented) exception, changes args / a typed
      # field / a __dict__ attribute and re-raises it: depth 2 (bare raise) and depth 3 (raise e)
      for links in ([{'kind': 'catch', 'scope': '', 'mut': ['args', 'dict', 'field'],
                      'reraise': 'bare'}],
                    [{'kind': 'catch', 'scope': '', 'mut': ['field'], 'reraise': 'named'},
                     {'kind': 'call', 'scope': ''}]):
        cases.append({'exc': {'builtin': name, 'expr': expr}, 'site': 'fn',
                      'how': 'configurable', 'mhow': 'register', 'links': links, 'inter': 'fn',
                      'scope': 'zsa' if len(links) == 2 else '', 'cause': False,
                      'origin': 'sweep'})
      # explicit chaining / notes set at the raise site: `raise e from other` at depth 2 in a
      # scope, `raise e from None` with a note at depth 1, and a body re-raising `from other`
      for cause, note, links, scope in (
          (True, False, [{'kind': 'call', 'scope': ''}], 'zsa'),
          ('none', True, [], ''),
          (True, True, [{'kind': 'catch', 'scope': '', 'mut': [], 'reraise': 'from'},
                        {'kind': 'call', 'scope': ''}], '')):
        cases.append({'exc': {'builtin': name, 'expr': expr}, 'site': 'fn',
                      'how': 'configurable', 'mhow': 'register', 'links': links, 'inter': 'fn',
                      'scope': scope, 'cause': cause, 'note': note, 'origin': 'sweep'})
      # 'twin first': an equally named distinct class crosses a configurable before this one
      cases.append({'exc': {'builtin': name, 'expr': expr}, 'site': 'fn', 'how': 'configurable',
                    'mhow': 'register', 'links': [], 'inter': 'fn', 'scope': '', 'cause': False,
                    'twin': True, 'origin': 'sweep'})
  return cases, True


def plain_user_spec(bases=('Exception',), argv=(), **kw):
  spec = {'user': True, 'bases': list(bases), 'group': False, 'n': len(argv), 'kwonly': False,
          'new': None, 'init': None, 'store': False, 'slots': [], 'attrs': [], 'post': [],
          'cattrs': [], 'props': ['fields'], 'str': None, 'repr': False, 'argv': list(argv),
          'kwv': None}
  spec.update(kw)
  return spec


def sweep_mi_pairs(tier):
  """class UExc(A, B) for every ordered pair of builtin exception classes CPython accepts."""
  pairs = mi_pairs(builtin_names()) if tier == 'thorough' else _MI
  cases = []
  for pair, _ in pairs:
    variants = [()] if any(map(is_group_name, pair)) else [(), (2, 'some text')]
    for argv in variants:
      shapes = ((1, '', False), (2, 'zsa/zsb', False), (1, '', True))
      for depth, scope, twin in (shapes if not argv or tier == 'thorough' else shapes[:1]):
        cases.append({'exc': plain_user_spec(pair, argv), 'site': 'fn', 'how': 'configurable',
                      'mhow': 'register', 'links': [{'kind': 'call', 'scope': ''}] * (depth - 1),
                      'inter': 'fn', 'scope': scope, 'cause': False, 'twin': twin,
                      'focus': 'class', 'origin': 'sweep'})
  return cases, True


def sweep_reprs(tier):
  """Raisers whose repr contains '{', '}' or '%': every style x depth/link shape x scope."""
  del tier
  exprs = [('KeyError', "KeyError('k')"), ('OSError', "OSError(2, 'No such thing', '/x/file')"),
           ('ExceptionGroup', "ExceptionGroup('eg', [ValueError(1), TypeError('t')])"),
           ('KeyboardInterrupt', "KeyboardInterrupt('a message')")]
  call, ref = {'kind': 'call', 'scope': ''}, {'kind': 'ref', 'scope': ''}
  catch = {'kind': 'catch', 'scope': '', 'mut': ['args'], 'reraise': 'bare'}
  cases = []
  for site, n in (('callobj', len(OBJ_REPRS)), ('partial', len(PARTIAL_ARGS))):
    for style in range(n):
      for links in ([], [call], [ref], [catch, ref]):
        for scope in ('', 'zsa/zsb'):
          for name, expr in exprs:
            cases.append({'exc': {'builtin': name, 'expr': expr}, 'site': site, 'style': style,
                          'how': 'external', 'mhow': 'register', 'links': links, 'inter': 'fn',
                          'scope': scope, 'cause': False, 'origin': 'sweep'})
  return cases, True


def sweep_signatures(tier):
  """Every signature shape of the raiser x site x link shape, for TypeError (Gin's special
  path), a TypeError subclass with required arguments, KeyError and KeyboardInterrupt."""
  del tier
  excs = [{'builtin': 'TypeError', 'expr': "TypeError('a message')"},
          plain_user_spec(['TypeError'], ('field', 3), init='all', store=True),
          {'builtin': 'KeyError', 'expr': "KeyError('k')"},
          {'builtin': 'KeyboardInterrupt', 'expr': 'KeyboardInterrupt()'}]
  call, ref = {'kind': 'call', 'scope': ''}, {'kind': 'ref', 'scope': ''}
  cases = []
  for sig in range(len(SIGS)):
    for site in ('fn', 'ctor', 'ctor_new', 'method', 'partial', 'callobj'):
      for n, links in enumerate(([], [call], [ref])):
        for exc in excs:
          cases.append({'exc': exc, 'site': site, 'style': sig, 'sig': sig,
                        'how': ('register' if site == 'method' else 'external' if site in (
                            'partial', 'callobj') else ('configurable', 'register')[sig % 2]),
                        'mhow': ('register', 'configurable')[sig % 2], 'links': links,
                        'inter': 'fn', 'scope': ('', 'zsa/zsb')[(sig + n) % 2], 'cause': False,
                        'origin': 'sweep'})
  return cases, True


def sweep_late_str(tier):
  """User classes whose __str__ reads instance state ('state') or cannot render until a field
  is filled in ('needs'), with that state changed after the exception crossed the
  configurable(s): in a catching configurable body, in a plain frame above, by the caller."""
  del tier
  call, ref = {'kind': 'call', 'scope': ''}, {'kind': 'ref', 'scope': ''}
  body = {'kind': 'catch', 'scope': '', 'mut': ['strstate'], 'reraise': 'bare'}
  body2 = {'kind': 'catch', 'scope': 'zm', 'mut': ['dict', 'strstate'], 'reraise': 'named'}
  cases = []
  for kind in ('state', 'needs'):
    for shape in (dict(bases=['Exception']), dict(bases=['OSError'], slots=['sa'], repr=True)):
      for late in ([], ['plain'], ['caller'], ['caller', 'plain']):
        for n, links in enumerate(([], [call], [body], [call, body2], [body, ref], [body2, body])):
          cases.append({'exc': plain_user_spec(argv=('u', 3), init='all', store=True, str=kind,
                                               **shape),
                        'site': 'fn', 'how': 'configurable', 'mhow': 'register', 'links': links,
                        'inter': ('fn', 'cls')[n % 2], 'scope': ('', 'zsa/zsb')[n % 2],
                        'cause': False, 'late': late, 'origin': 'sweep'})
  return cases, True


def sweep_class_hooks(tier):
  """User classes with a refusing __setattr__ or an __init_subclass__ hook."""
  del tier
  call, ref = {'kind': 'call', 'scope': ''}, {'kind': 'ref', 'scope': 'zm'}
  body = {'kind': 'catch', 'scope': '', 'mut': ['args', 'dict', 'strstate'], 'reraise': 'bare'}
  hooks = [dict(setattr='all'), dict(setattr='dunder'), dict(setattr='public'),
           dict(initsub='required'), dict(initsub='optional'),
           dict(setattr='public', initsub='optional')] + [dict(initsub=h) for h in INITSUB_REJECTING]
  shapes = [dict(bases=['Exception']),
            dict(bases=['OSError'], slots=['sa'], attrs=[['detail', 'some text']], props=['slot']),
            dict(bases=['ExceptionGroup'], group=True, new='pass', init=None)]
  cases = []
  for hook in hooks:
    for shape in shapes:
      argv = (7,) if shape.get('group') else ('u', 3)
      kw = dict(init='all', store=True)
      kw.update(shape)
      kw.update(hook)
      for n, links in enumerate(([], [call], [body], [call, ref], [body, call])):
        for cause in (False, True):
          cases.append({'exc': plain_user_spec(argv=argv, **kw), 'site': ('fn', 'ctor')[n % 2],
                        'how': 'configurable', 'mhow': 'register', 'links': links, 'inter': 'fn',
                        'scope': ('', 'zsa/zsb')[n % 2], 'cause': cause, 'note': bool(n % 2),
                        'again': cause, 'twin': n == 4,
                        'late': [[], ['caller'], ['plain']][n % 3], 'origin': 'sweep'})
  return cases, True


def sweep_slots(tier):
  """__slots__ classes: every declaration order of three slots x every set/unset subset, and
  slots split over a base class and its subclass."""
  del tier
  import itertools  # pylint: disable=g-import-not-at-top
  call = {'kind': 'call', 'scope': ''}
  layouts = []
  for order in itertools.permutations(['sa', 'sb', 'sc']):
    for k in range(4):
      for unset in itertools.combinations(['sa', 'sb', 'sc'], k):
        layouts.append(dict(slots=list(order), unset=list(unset)))
  for base in (['ba', 'bb'], ['bb', 'ba']):
    for sub in (['sa', 'sb'], ['sb', 'sa']):
      for k in range(4):
        for unset in itertools.combinations(['ba', 'bb', 'sa', 'sb'], k):
          layouts.append(dict(baseslots=base, slots=sub, unset=list(unset)))
  cases = []
  for n, layout in enumerate(layouts):
    bases = [['Exception'], ['OSError'], ['KeyError', 'AttributeError']][n % 3]
    cases.append({'exc': plain_user_spec(bases, ('u', 3), init=('all', None)[n % 2], store=True,
                                         props=['slot', 'args'], **layout),
                  'site': 'fn', 'how': 'configurable', 'mhow': 'register',
                  'links': [call] * (n % 3), 'inter': 'fn', 'scope': ('', 'zsa')[n % 2],
                  'cause': False, 'origin': 'sweep'})
  return cases, True


def sweep_nested(tier):
  """Exception classes defined inside a class / a factory function / one of two outer classes."""
  del tier
  call, ref = {'kind': 'call', 'scope': ''}, {'kind': 'ref', 'scope': ''}
  shapes = [dict(), dict(init='all', store=True, attrs=[['detail', 'some text']], str='args'),
            dict(bases=['OSError'], slots=['sa', 'sb'], unset=['sa'], props=['slot']),
            dict(bases=['ExceptionGroup'], group=True, new='pass', init=None),
            dict(initsub='registry-ValueError'), dict(setattr='dunder')]
  cases = []
  for nest in ('class', 'factory', 'class-pair'):
    for k, shape in enumerate(shapes):
      for n, links in enumerate(([], [call], [ref, call])):
        kw = dict(argv=(7,) if shape.get('group') else ('u', 3) if shape.get('init') else ())
        kw.update(shape)
        cases.append({'exc': plain_user_spec(nest=nest, **kw), 'site': ('fn', 'method')[n % 2],
                      'how': ('configurable', 'register')[n % 2], 'mhow': 'register',
                      'links': links, 'inter': 'fn', 'scope': ('', 'zsa/zsb')[(n + k) % 2],
                      'cause': n == 1, 'twin': n == 2, 'again': n == 1, 'origin': 'sweep'})
  return cases, True


def sweep_call_shapes(tier):
  """The raiser reached as a singleton constructor on first use and through a macro."""
  del tier
  call = {'kind': 'call', 'scope': ''}
  excs = [{'builtin': 'OSError', 'expr': "OSError(2, 'No such thing', '/x/file')"},
          plain_user_spec(argv=('field', 3), init='all', store=True,
                          attrs=[['detail', {'k': 1}]], post=[['late', 'v']]),
          plain_user_spec(['ValueError'], argv=(13,), new='pass', slots=['sa']),
          {'builtin': 'ExceptionGroup',
           'expr': "ExceptionGroup('eg', [ValueError(1), TypeError('t')])"},
          {'builtin': 'StopIteration', 'expr': 'StopIteration(5)'},
          {'builtin': 'KeyboardInterrupt', 'expr': "KeyboardInterrupt('a message')"}]
  cases = []
  for exc in excs:
    for kind in ('singleton', 'macro'):
      for scoped in ('', 'zm'):
        link = {'kind': kind, 'scope': scoped}
        for n, links in enumerate(([link], [call, link], [link, call])):
          for site in ('fn', 'ctor'):
            cases.append({'exc': exc, 'site': site, 'how': ('configurable', 'register')[n % 2],
                          'mhow': 'register', 'links': links, 'inter': 'fn', 'sig': (0, 3, 1)[n],
                          'scope': ('', 'zsa/zsb')[n % 2], 'cause': n == 2, 'origin': 'sweep'})
  return cases, True


SWEEPS = {'nested-classes': sweep_nested, 'call-shapes': sweep_call_shapes,
          'call-fails': sweep_callfail, 'class-hooks': sweep_class_hooks, 'slots': sweep_slots,
          'builtin-classes': sweep_builtins, 'mi-ordered-pairs': sweep_mi_pairs,
          'brace-reprs': sweep_reprs, 'signatures': sweep_signatures, 'late-str': sweep_late_str}


def build_chain(case):
  """Source of the configurable chain; returns (source, innermost name, raiser code name)."""
  links = case['links']
  n = len(links) + 1
  last = n - 1
  site, how = case['site'], case['how']
  raise_stmt = {True: "raise e from HOLD['cause']  # RAISE", 'none': 'raise e from None  # RAISE'
               }.get(case.get('cause'), 'raise e  # RAISE')
  params, callargs, bound = SIGS[eff_sig(case)]
  by_ref = bool(links) and links[-1]['kind'] in BY_REFERENCE and site != 'method'
  if by_ref:
    callargs = ''
  # the raiser keeps the original object, its message and its public data as they are at the raise
  raiser_body = ['e = _make()', "HOLD['e'] = e", "HOLD['str'] = _safe_str(e)",
                 "HOLD['data'] = _public_data(e)", "HOLD['scope'] = gin.current_scope_str()",
                 raise_stmt]
  if case.get('note'):
    raiser_body.insert(1, "e.add_note('note added at the raise site')")
  out = ['import gin', '']
  invoke = {}       # index -> expression a Python caller uses
  viaref = {}       # index -> expression over the evaluated reference value `x`

  def decorate(kind, idx, pyname):
    name = f'zq_k{idx}'
    if kind == 'external':
      return [], [f"gin.external_configurable({pyname}, '{name}')"]
    return [f"@gin.{kind}('{name}')"], []

  # innermost: the raiser
  name = f'zq_k{last}'
  if site == 'fn':
    py = f'pyfn{last}'
    pre, post = decorate(how, last, py)
    out += pre + [f'def {py}({params}):'] + ['  ' + l for l in raiser_body] + post
    invoke[last] = (f'{py}({callargs})' if how == 'configurable' else
                    f"gin.get_configurable('{name}')({callargs})")
    viaref[last] = 'x'
    inner, code_name = name, py
  elif site == 'partial':
    py = f'pyfn{last}'
    arg = PARTIAL_ARGS[case.get('style', 0) % len(PARTIAL_ARGS)]
    out = ['import functools'] + out
    out += [f'def {py}(cfg, {params}):'] + ['  ' + l for l in raiser_body]
    out += [f'pypartial = functools.partial({py}, {arg})',
            f"gin.external_configurable(pypartial, name='{name}')"]
    invoke[last] = f"gin.get_configurable('{name}')({callargs})"
    viaref[last] = 'x'
    inner, code_name = name, py
  elif site == 'callobj':
    text = OBJ_REPRS[case.get('style', 0) % len(OBJ_REPRS)]
    out += [f'class PyObj{last}:', '  def __repr__(self):', f'    return {text!r}',
            f'  def __call__(self, {params}):'] + ['    ' + l for l in raiser_body]
    out += [f'pyobj = PyObj{last}()', f"gin.external_configurable(pyobj, name='{name}')"]
    invoke[last] = f"gin.get_configurable('{name}')({callargs})"
    viaref[last] = 'x'
    inner, code_name = name, '__call__'
  elif site in ('ctor', 'ctor_new'):
    py = f'PyK{last}'
    meth = '__init__' if site == 'ctor' else '__new__'
    first = 'self' if site == 'ctor' else 'cls'
    pre, post = decorate(how, last, py)
    out += pre + [f'class {py}:', f'  def {meth}({first}, {params}):']
    out += ['    ' + l for l in raiser_body] + post
    invoke[last] = (f'{py}({callargs})' if how == 'configurable' else
                    f"gin.get_configurable('{name}')({callargs})")
    viaref[last] = 'x'
    inner, code_name = name, meth
  else:
    py = f'PyK{last}'
    out += [f"@gin.register('{name}')", f'class {py}:', '  def __init__(self, x=None):',
            '    self.x = x', f"  @gin.{case['mhow']}('zq_meth')",
            f'  def pymeth(self, {params}):']
    out += ['    ' + l for l in raiser_body]
    invoke[last] = f"gin.get_configurable('{name}')().pymeth({callargs})"
    viaref[last] = f'x.pymeth({callargs})'
    inner, code_name = 'zq_meth', 'pymeth'
  out.append('')
  bindings = []
  if by_ref:      # Gin supplies the required named parameters of the referenced raiser
    bindings += [f"zq_k{last}.{b} = {'1' if b == 'a' else repr('s')}" for b in bound]
  for i in range(last - 1, -1, -1):
    link = links[i]
    if link['kind'] in ('call', 'catch'):
      ret = [f'return {invoke[i + 1]}']
      if link['scope']:
        ret = [f"with gin.config_scope('{link['scope']}'):", '  ' + ret[0]]
      if link['kind'] == 'catch':
        ret = (['try:'] + ['  ' + l for l in ret] + ['except BaseException as exc:',
               f"  _caught(exc, {i}, {sorted(link.get('mut', []))!r}, 'zq_k{i}')",
               {'named': '  raise exc', 'from': "  raise exc from HOLD['cause2']"}.get(
                   link.get('reraise'), '  raise')])
    else:
      ret = [f'return {viaref[i + 1]}']
      sc = link['scope'] + '/' if link['scope'] else ''
      if link['kind'] == 'singleton':
        bindings += [f'zq_k{i}.x = @zsk{i}/gin.singleton()',
                     f'zsk{i}/gin.singleton.constructor = @{sc}zq_k{i + 1}']
      elif link['kind'] == 'macro':
        bindings += [f'ZM{i} = @{sc}zq_k{i + 1}()', f'zq_k{i}.x = %ZM{i}']
      else:
        bindings.append(f'zq_k{i}.x = @{sc}zq_k{i + 1}()')
    if case['inter'] == 'cls':
      out += [f"@gin.configurable('zq_k{i}')", f'class PyK{i}:', '  def __init__(self, x=None):']
      out += ['    ' + l.replace('return ', 'self.r = ') for l in ret]
      invoke[i] = f'PyK{i}().r'
      viaref[i] = 'x.r'
    else:
      out += [f"@gin.configurable('zq_k{i}')", f'def pyfn{i}(x=None):'] + ['  ' + l for l in ret]
      invoke[i] = f'pyfn{i}()'
      viaref[i] = 'x'
    out.append('')
  if 'plain' in case.get('late', ()):
    # a plain handler (no configurable) above the chain annotates the exception and re-raises
    out += ['def _entry():', '  try:', f'    return {invoke[0]}',
            '  except BaseException as exc:', '    _plain_frame(exc)', '    raise', '']
  else:
    out += ['def _entry():', f'  return {invoke[0]}', '']
  return '\n'.join(out), '\n'.join(bindings), inner, code_name


# ----------------------------------------------------------------------------- oracle helpers
def public_data(e):
  """{name: value} of public, readable, non-callable attributes of `e`."""
  res = {}
  for name in dir(e):
    if name.startswith('_'):
      continue
    try:
      v = getattr(e, name)
    except Exception:  # pylint: disable=broad-except
      continue         # not readable on the original: nothing to compare
    if callable(v):
      continue
    res[name] = v
  return res


FIELD_MUTATIONS = [('filename', '/enriched/file'), ('strerror', 'enriched strerror'),
                   ('value', ('enriched', 'value')), ('name', 'enriched_name'),
                   ('path', '/enriched/path'), ('reason', 'enriched reason'), ('lineno', 77),
                   ('code', 9), ('obj', ('enriched', 'obj'))]
_C_FIELD = (types.MemberDescriptorType, types.GetSetDescriptorType)


def mutate(e, kinds, level):
  """Changes public state of `e` the way an enriching handler would; returns what was changed."""
  applied = set()

  def stored_outside_dict(name):
    return isinstance(inspect.getattr_static(type(e), name, None), _C_FIELD)

  # a class may refuse assignment (__setattr__ raising AttributeError): a handler cannot
  # enrich it then, and the probe's handlers just carry on
  if 'args' in kinds:
    try:
      e.args = tuple(e.args) + (f'added-by-level-{level}',)
      applied.add('args')
    except AttributeError:
      pass
  if 'field' in kinds:
    for name, value in FIELD_MUTATIONS:
      if stored_outside_dict(name):
        try:
          setattr(e, name, value)
          applied.add('field')
        except (AttributeError, TypeError):
          pass       # read-only on this class
  if 'slot' in kinds:
    for name in ('sa', 'sb', 'sc', 'ba', 'bb'):
      if stored_outside_dict(name):
        try:
          setattr(e, name, f'enriched-{name}-by-level-{level}')
          applied.add('slot')
        except AttributeError:
          pass
  if 'dict' in kinds:
    try:
      e.enriched = ['by-level', level]
      applied.add('dict')
    except AttributeError:
      pass
  if 'strstate' in kinds and annotate(e, f'level-{level}'):
    applied.add('strstate')
  return sorted(applied)


def annotate(e, where):
  """Changes the instance state the generated state-reading __str__ methods look at."""
  try:
    e.annot = f'annotated-by-{where}'
    e.line = 7
    return True
  except AttributeError:      # the class refuses assignment
    return False


def safe_str(e):
  """str(e), or None when the class's own __str__ cannot render the current state."""
  try:
    return str(e)
  except Exception:  # pylint: disable=broad-except
    return None


def chain_fields(exc):
  notes = getattr(exc, '__notes__', None)
  return (exc.__cause__, exc.__suppress_context__, list(notes) if notes is not None else None)


def caught_by(exc, cls):
  """Does a real `except cls` clause catch `exc`?  (run last: re-raising extends the traceback)"""
  try:
    raise exc
  except cls:
    return True
  except BaseException:  # pylint: disable=broad-except
    return False


def leaves(exc):
  if isinstance(exc, BaseExceptionGroup):
    return [l for x in exc.exceptions for l in leaves(x)]
  return [exc]


def star_leaves(exc, leaf_cls):
  """Leaf objects handed to an `except* leaf_cls` clause when `exc` is raised; None if not run."""
  got = None
  try:
    try:
      raise exc
    except* leaf_cls as g:
      got = leaves(g)
  except BaseException:  # pylint: disable=broad-except
    pass                 # the unmatched remainder
  return got


def short(x, n=300):
  try:
    s = repr(x)
  except Exception as ex:  # pylint: disable=broad-except
    s = f'<repr failed: {type(ex).__name__}>'
  return s if len(s) <= n else s[:n] + '…'


def tb_entries(tb):
  out = []
  while tb is not None:
    out.append((tb.tb_frame.f_code.co_filename, tb.tb_frame.f_code.co_name, tb.tb_lineno))
    tb = tb.tb_next
  return out


TWIN_SRC = '''
@gin.configurable('zq_twin')
def pytwin(x=None):
  raise HOLD['twin']
'''


def make_twin(exc, cls_src, make_src, sample):
  """An exception of a distinct class with the same __module__/__qualname__ as type(sample)."""
  cls = type(sample)
  try:
    if exc.get('user'):
      twin_mod = types.ModuleType(PROBE)          # same __name__ => same __module__ of the class
      exec(compile(cls_src, CLASS_FILE, 'exec'), twin_mod.__dict__)  # pylint: disable=exec-used
      exec(compile(make_src, CLASS_FILE + ':make', 'exec'), twin_mod.__dict__)  # pylint: disable=exec-used
      twin = twin_mod._make()  # pylint: disable=protected-access
    else:
      twin_cls = type(cls.__name__, (cls,), {'__module__': cls.__module__})
      twin = twin_cls(*sample.args)
  except Exception:  # pylint: disable=broad-except
    return None
  tc = type(twin)
  if tc is cls or (tc.__module__, tc.__qualname__) != (cls.__module__, cls.__qualname__):
    return None
  return twin


# ----------------------------------------------------------------------------- the check
def check_case(case):
  if case.get('callfail'):
    return check_callfail(case)
  case = normalise(case)
  exc = case['exc']
  # the proxy subclass cannot be built for a class whose __init_subclass__ has a required
  # keyword: the original object may then arrive unchanged, without the message extension
  trailer_optional = bool(exc.get('user')) and exc.get('initsub') in (
      ['required'] + INITSUB_REJECTING)
  mod = types.ModuleType(PROBE)
  mod.__file__ = PROBE_FILE
  sys.modules[PROBE] = mod
  mod.HOLD = {'e': None, 'scope': None, 'cause': LookupError('the cause'),
              'cause2': ArithmeticError('cause given by a re-raising body')}
  mod.gin = gin
  mod._public_data = public_data  # pylint: disable=protected-access
  mod._safe_str = safe_str  # pylint: disable=protected-access
  mod._annotate = annotate  # pylint: disable=protected-access
  levels = []      # one record per catching intermediate body, innermost first

  def _caught(obj, level, kinds, name):
    # what this body (the caller of the configurables below) caught, then what leaves it: the
    # exception object as re-raised is "the original" for the configurables further out
    rec = {'seen': obj, 'seen_str': safe_str(obj), 'seen_data': public_data(obj), 'name': name,
           'seen_chain': chain_fields(obj)}
    rec['applied'] = mutate(obj, kinds, level)
    rec.update(scope=gin.current_scope_str(), str=safe_str(obj), data=public_data(obj))
    # independent of Gin: what the class itself renders for the original object right now
    rec['late'] = late_message(obj)
    levels.append(rec)

  def late_message(obj):
    """(str(obj), str(original), is the __str__ state of obj visible on the original) -- now."""
    orig_obj = mod.HOLD['e']
    # comparable only if every public attribute reads the same on both objects right now: a
    # body that changed args / a C-level field / a slot changed it on the object it caught only,
    # and which of the two states a rendering should show is not decided by the property
    mine, theirs = public_data(obj), public_data(orig_obj)
    visible = set(mine) == set(theirs) and all(
        mine[a] is theirs[a] or mine[a] == theirs[a] for a in mine)
    try:
      rendered, error = str(obj), None
    except Exception as ex:  # pylint: disable=broad-except
      rendered, error = None, f'{type(ex).__name__}: {ex}'
    return {'got': rendered, 'error': error, 'base': safe_str(orig_obj), 'visible': visible}

  def _plain_frame(obj):
    # a plain handler above all configurables: a caller of them, then a re-raiser
    rec = {'plain': True, 'seen': obj, 'seen_str': safe_str(obj), 'seen_data': public_data(obj),
           'name': 'the plain frame', 'seen_chain': chain_fields(obj), 'applied': []}
    annotate(obj, 'plain-frame')
    rec.update(data=public_data(obj), late=late_message(obj))
    levels.append(rec)

  mod._caught = _caught  # pylint: disable=protected-access
  mod._plain_frame = _plain_frame  # pylint: disable=protected-access
  labels = set()

  # (1) the exception class and its factory -------------------------------------------------
  if exc.get('user'):
    cls_src, ctor, post = render_user(exc)
    try:
      exec(compile(cls_src, CLASS_FILE, 'exec'), mod.__dict__)  # pylint: disable=exec-used
    except TypeError as ex:
      raise OutOfDomain(f'class cannot be created: {ex}')
    labels.add('kind:user')
    if case.get('origin') == 'gen':
      labels.add('user:generated')     # denominator of the user-class floors
  else:
    cls_src, ctor, post = '', exc['expr'], []
    if not hasattr(builtins, exc['builtin']):
      raise OutOfDomain('class not exported by this interpreter')
    labels.add('kind:builtin')
  make_src = '\n'.join(['def _make():', f'  e = {ctor}'] + ['  ' + p for p in post] +
                       ['  return e', ''])
  exec(compile(make_src, CLASS_FILE + ':make', 'exec'), mod.__dict__)  # pylint: disable=exec-used
  try:
    sample = mod._make()  # pylint: disable=protected-access
  except Exception as ex:  # pylint: disable=broad-except
    raise OutOfDomain(f'the exception itself cannot be constructed: {type(ex).__name__}: {ex}')
  if not isinstance(sample, BaseException):
    raise OutOfDomain('not an exception')
  if exc.get('user') and type(sample).__name__ != 'UExc':
    raise OutOfDomain('constructor returned another class')

  # (2) the chain of configurables ----------------------------------------------------------
  chain_src, bindings, inner, code_name = build_chain(case)
  raise_line = next(i for i, l in enumerate(chain_src.split('\n'), 1) if l.endswith('# RAISE'))
  exec(compile(chain_src, PROBE_FILE, 'exec'), mod.__dict__)  # pylint: disable=exec-used
  if bindings:
    gin.parse_config(bindings)

  def describe():
    return (f'exception: {ctor}\n--- class\n{cls_src}--- chain\n{chain_src}--- bindings\n'
            f'{bindings}\n--- outer scope {case["scope"]!r}; twin first: {bool(twin_cls)}')

  # (2b) 'twin first': an exception of a DISTINCT class with the same __module__ and
  # __qualname__ crosses a configurable earlier in the process (class factory, reloaded plugin)
  twin_cls = None
  if case.get('twin'):
    twin_e = make_twin(exc, cls_src, make_src, sample)
    if twin_e is not None:
      twin_cls = type(twin_e)
      mod.HOLD['twin'] = twin_e
      exec(compile(TWIN_SRC, PROBE_FILE + ':twin', 'exec'), mod.__dict__)  # pylint: disable=exec-used
      try:
        mod.pytwin()
      except BaseException:  # pylint: disable=broad-except
        pass
      labels.add('twin:first')

  if exc.get('user') and exc.get('nest') == 'class-pair' and twin_cls is None:
    # another outer class has an inner class of the same __name__ (different __qualname__)
    mod.HOLD['twin'] = mod.Other.UExc('the other inner class')
    exec(compile(TWIN_SRC, PROBE_FILE + ':twin', 'exec'), mod.__dict__)  # pylint: disable=exec-used
    try:
      mod.pytwin()
    except BaseException as caught:  # pylint: disable=broad-except
      require(type(caught).__qualname__ == 'Other.UExc' and isinstance(caught, mod.Other.UExc),
              'class-name-differs', lambda: f'Other.UExc arrived as {type(caught).__qualname__}')
    twin_cls = mod.Other.UExc
    labels.add('same-name-inner-class-crossed-before')

  # (2c) 'again': an exception of the SAME class crossed a configurable earlier in the process
  if case.get('again'):
    mod.HOLD['twin'] = sample
    if not hasattr(mod, 'pytwin'):
      exec(compile(TWIN_SRC, PROBE_FILE + ':twin', 'exec'), mod.__dict__)  # pylint: disable=exec-used
    first = None
    try:
      mod.pytwin()
    except BaseException as caught:  # pylint: disable=broad-except
      first = caught
    require(isinstance(first, type(sample)) and (
        isinstance(sample, Exception) or first is sample), 'not-same-class',
            lambda: f'first crossing: raised {short(sample)}, caught {type(first).__name__} '
                    f'{short(first)} of {type(first).__mro__}\n{describe()}')
    labels.add('same-class-crossed-before')

  # (3) drive -------------------------------------------------------------------------------
  e2 = None
  try:
    if case['scope']:
      with gin.config_scope(case['scope']):
        mod._entry()  # pylint: disable=protected-access
    else:
      mod._entry()  # pylint: disable=protected-access
  except BaseException as caught:  # pylint: disable=broad-except
    e2 = caught
  e = mod.HOLD['e']
  require(e is not None, 'raiser-not-reached',
          lambda: f'caught {short(e2)} before the raising body ran\n{describe()}')
  require(e2 is not None, 'exception-swallowed', describe)
  cls = type(e)
  scope = mod.HOLD['scope']
  str_e = mod.HOLD['str']
  orig = mod.HOLD['data']

  # (4) oracle ------------------------------------------------------------------------------
  def compare(ref, got, got_str, read, where):
    """`got` (caught at `where`) against the reference ref = (message, data, scope, name)."""
    ref_str, ref_data, ref_scope, ref_name = ref
    if not isinstance(e, Exception):
      require(got is e, 'non-Exception-not-passed-through',
              lambda: f'{where}: raised {short(e)} ({cls.__name__}), caught {short(got)} of '
                      f'{type(got).__mro__}\n{describe()}')
      require(ref_str is None or got_str == ref_str, 'passthrough-message-changed',
              lambda: f'{where}: {got_str!r} != {ref_str!r}')
    else:
      require(isinstance(got, cls) and cls in type(got).__mro__, 'not-same-class',
              lambda: f'{where}: raised {cls.__name__} {short(e)}; caught {type(got).__name__} '
                      f'{short(got)} with mro {type(got).__mro__}\n{describe()}')
      if twin_cls is not None:
        # a clause that does not catch the original must not catch the caught object either
        require(not isinstance(got, twin_cls) and twin_cls not in type(got).__mro__,
                'caught-by-unrelated-class',
                lambda: f'{where}: raised {short(e)} of {cls!r} (id {id(cls):#x}); the caught '
                        f'object is an instance of the unrelated, equally named class '
                        f'{twin_cls!r} (id {id(twin_cls):#x}) that was raised earlier; mro '
                        f'{type(got).__mro__}\n{describe()}')
      # ref_str is None when the class could not render its state at that point, or when the
      # state was changed after the reference was taken (then check_late decides the message)
      if ref_str is not None:
        require(got_str is not None, 'message-unrenderable',
                lambda: f'{where}: the original rendered {ref_str!r}, str() of the caught object '
                        f'raises\n{describe()}')
        require(got_str.startswith(ref_str), 'message-prefix',
                lambda: f'{where}: str(original)={ref_str!r}; str(caught)={got_str!r}\n'
                        f'{describe()}')
        ext = got_str[len(ref_str):]
        require(trailer_optional or ref_name in ext, 'configurable-not-named',
                lambda: f'{where}: extension {ext!r} does not name {ref_name!r}\n{describe()}')
        if ref_scope and not trailer_optional:
          require(ref_scope in ext, 'scope-not-named',
                  lambda: f'{where}: extension {ext!r} does not name the active scope '
                          f'{ref_scope!r}\n{describe()}')
    for name in sorted(ref_data):
      v = ref_data[name]
      try:
        v2 = read(name)
      except Exception as ex:  # pylint: disable=broad-except
        raise Violation('attribute-unreadable',
                        f'{where}: {cls.__name__}.{name} is {short(v)} on the original, reading '
                        f'it on the caught object raises {type(ex).__name__}: {ex}\n{describe()}')
      require(v2 is v or v2 == v, 'attribute-differs',
              lambda: f'{where}: {cls.__name__}.{name}: original {short(v)}, caught {short(v2)}'
                      f'\n{describe()}')

  # every catching intermediate body is a caller of the configurables below it; what it re-raises
  # is the original for the configurables further out
  def compare_chain(want, got, where):
    # explicit chaining and notes are data of the exception: what the raise statement (or the
    # re-raising body) set must be what the caller reads; __cause__ by identity
    for field, w, g in zip(('__cause__', '__suppress_context__', '__notes__'), want, got):
      # (__suppress_context__ after a plain raise used to read True -- a leftover of repair
      # 1b34a9e, found by this comparison and fixed by 5ec59a5; it is asserted like the others)
      require(g is w if field == '__cause__' else g == w, 'chaining-differs',
              lambda: f'{where}: {field} was set to {short(w)} where the exception was raised, '
                      f'the caught object reads {short(g)}\n{describe()}')

  ref = (str_e, orig, scope, inner)
  cause = case.get('cause')
  chain = (mod.HOLD['cause'] if cause is True else None, cause in (True, 'none'),
           ['note added at the raise site'] if case.get('note') else None)
  def check_late(late, where, named):
    """The message against what the class itself renders for the ORIGINAL object at the same
    moment (independent of Gin), after the state read by __str__ was changed above the
    configurable(s); `named` = (name, scope) of every configurable that has augmented so far."""
    if not late['visible'] or late['base'] is None:
      labels.add('late-message:not-comparable')   # state not shared / still not renderable
      return
    base = late['base']
    require(late['got'] is not None, 'late-message-unrenderable',
            lambda: f"{where}: the original renders {base!r}; str() of the caught object raises "
                    f"{late['error']}\n{describe()}")
    if not isinstance(e, Exception):
      require(late['got'] == base, 'passthrough-message-changed', f"{late['got']!r} != {base!r}")
      return
    require(late['got'].startswith(base), 'late-message-prefix',
            lambda: f"{where}: the original now renders {base!r}; the caught object renders "
                    f"{late['got']!r}\n{describe()}")
    ext = late['got'][len(base):]
    for nm, sc in ([] if trailer_optional else named):
      require(nm in ext and (not sc or sc in ext), 'late-message-trailer',
              lambda: f'{where}: extension {ext!r} does not name {nm!r} / scope {sc!r}\n'
                      f'{describe()}')
    labels.add('late-message:checked')

  catch_links = iter([l for l in reversed(case['links']) if l['kind'] == 'catch'])
  named = [(inner, scope)]
  for rec in levels:
    where = f"in the body of {rec['name']}" if not rec.get('plain') else 'in the plain frame'
    compare(ref, rec['seen'], rec['seen_str'], rec['seen_data'].__getitem__, where)
    compare_chain(chain, rec['seen_chain'], where)
    check_late(rec['late'], where + ' (after its changes)', named)
    if rec.get('plain'):
      ref = (None, rec['data'], ref[2], ref[3])   # message: check_late at the caller
      continue
    ref = (rec['str'], rec['data'], rec['scope'], rec['name'])
    named.append((rec['name'], rec['scope']))
    if next(catch_links).get('reraise') == 'from':
      chain = (mod.HOLD['cause2'], True, chain[2])
  scope = ref[2]
  compare(ref, e2, safe_str(e2), lambda name: getattr(e2, name), 'at the caller')
  compare_chain(chain, chain_fields(e2), 'at the caller')
  check_late(late_message(e2), 'at the caller', named)
  if 'caller' in case.get('late', ()):
    # the final caller completes the exception before rendering it
    if annotate(e2, 'caller'):
      labels.add('late:caller')
    check_late(late_message(e2), 'at the caller (after its changes)', named)
  if 'plain' in case.get('late', ()):
    labels.add('late:plain-frame')
  if isinstance(e, Exception):
    labels.add('augmented' if e2 is not e else 'same-object')
  else:
    labels.add('passthrough')

  # the class presents itself under the same name: type(e).__name__/__qualname__/__module__ and
  # the first line of traceback.format_exception_only (the Gin trailer starts on a new line)
  for attr in ('__name__', '__qualname__', '__module__'):
    require(getattr(type(e2), attr) == getattr(cls, attr), 'class-name-differs',
            lambda: f'type(e).{attr}: raised {getattr(cls, attr)!r}, caught '
                    f'{getattr(type(e2), attr)!r}\n{describe()}')
  try:
    want_line = ''.join(traceback.format_exception_only(e)).split('\n')[0]
  except Exception:  # pylint: disable=broad-except
    # Python's own formatter cannot print the *original* (a NameError subclass whose `name` is a
    # list makes it raise TypeError): there is no reference line to compare with
    want_line = None
    labels.add('original-not-formattable-by-python')
  if want_line is not None:
    got_line = ''.join(traceback.format_exception_only(e2)).split('\n')[0]
    # (comparable only while both objects read the same: a body that changed filename / lineno of
    # a SyntaxError on the object it caught changed what the formatter prints for that object)
    require(not late_message(e2)['visible'] or got_line.startswith(want_line.rstrip()),
            'formatted-name-differs',
            lambda: f'format_exception_only first line: original {want_line!r}, caught '
                    f'{got_line!r}\n{describe()}')

  # traceback: frame and line of the original raise
  entries = tb_entries(e2.__traceback__)
  require((PROBE_FILE, code_name, raise_line) in entries, 'traceback-lost',
          lambda: f'expected frame {(PROBE_FILE, code_name, raise_line)} in {entries}\n'
                  f'{describe()}')

  # the same except clauses (last: re-raising touches __traceback__/__context__)
  if isinstance(e, BaseExceptionGroup) and isinstance(e, Exception):
    for leaf_cls in sorted({type(l) for l in leaves(e)}, key=lambda c: c.__name__):
      # reference: what the same clause sees for the original (the group itself may match,
      # e.g. class UExc(KeyError, ExceptionGroup) under `except* KeyError`)
      want = star_leaves(e, leaf_cls)
      got = star_leaves(e2, leaf_cls)
      require(want is not None and got is not None and len(got) == len(want) and
              all(a is b for a, b in zip(got, want)), 'except-star',
              lambda: f'except* {leaf_cls.__name__}: leaves {short(got)}, original has '
                      f'{short(want)}\n{describe()}')
    labels.add('except-star')
  require(caught_by(e2, cls), 'except-clause-misses',
          lambda: f'`except {cls.__name__}` does not catch {short(e2)}\n{describe()}')

  # (5) labels ------------------------------------------------------------------------------
  n_conf = len(case['links']) + 1
  typed = sorted(set(orig) - {'args'})
  required_args = bool(exc.get('user') and (exc['n'] or exc['kwonly'] or exc['group']))
  if not exc.get('user'):
    # builtin constructors with required arguments
    required_args = issubclass(cls, BaseExceptionGroup) or (
        issubclass(cls, UnicodeError) and cls is not UnicodeError)
  nontrivial = bool(typed) or required_args or n_conf >= 2
  labels.add('origin:' + case.get('origin', 'replay'))
  if case.get('focus') != 'class':
    labels.add('chain:varied')
  labels.add('family:' + family(cls))
  labels.add('site:' + case['site'])
  if case['site'] in ('partial', 'callobj'):
    text = (PARTIAL_ARGS if case['site'] == 'partial' else OBJ_REPRS)
    text = text[case.get('style', 0) % len(text)]
    if '{' in text or '}' in text:
      labels.add('raiser-repr:braces')
    if '%' in text:
      labels.add('raiser-repr:percent')
  labels.add('how:' + case['how'])
  if case['site'] == 'method':
    labels.add('method-how:' + case['mhow'])
  labels.add(f'depth:{n_conf}')
  if n_conf >= 3:
    labels.add('depth>=3')
  labels.add('scope:active' if scope else 'scope:none')
  if scope and scope != case['scope']:
    labels.add('scope:changed-inside-chain')
  for l in case['links']:
    labels.add('link:' + l['kind'])
    if l['scope']:
      labels.add('link:scoped-' + l['kind'])
  for rec in levels:
    labels.add('catch:reraised')
    for a in rec['applied']:
      labels.add('catch:mutated-' + a)
    if set(rec['applied']) - {'dict'}:
      labels.add('catch:mutated-outside-dict')
  for l in case['links']:
    if l['kind'] == 'catch':
      labels.add('catch:' + l.get('reraise', 'bare'))
  if case['links'] and case['links'][-1]['kind'] in BY_REFERENCE:
    labels.add('raised-while-evaluating-reference')
  if case['inter'] == 'cls' and case['links']:
    labels.add('intermediate:class')
  if case.get('cause'):
    labels.add('raise-from' if case['cause'] is True else 'raise-from-None')
  if case.get('note'):
    labels.add('note-added')
  sig = eff_sig(case)
  labels.add(f'sig:{SIGS[sig][0]}')
  if sig in KWONLY_NO_DEFAULT:
    labels.add('sig:kwonly-none-defaulted')
  if isinstance(e, TypeError):
    labels.add('typeerror')
    if sig in KWONLY_NO_DEFAULT:
      labels.add('typeerror:kwonly-none-defaulted')
    if sig:
      labels.add('typeerror:non-default-signature')
  if e.args:
    labels.add('args:non-empty')
  if typed:
    labels.add('typed-fields')
  if required_args:
    labels.add('ctor-required-args')
  if nontrivial:
    labels.add('nontrivial')
  if exc.get('user'):
    if exc['new'] and (exc['n'] or exc['group']):
      labels.add('user:new-required')
    if exc['init'] and (exc['n'] or exc['kwonly']):
      labels.add('user:init-required')
    if exc['init'] in ('nosuper', 'empty', 'first'):
      labels.add('user:init-' + ('nosuper' if exc['init'] == 'nosuper' else 'partial-super'))
    if exc['new'] == 'drop':
      labels.add('user:new-drops-args')
    if exc['kwonly']:
      labels.add('user:kwonly')
    if exc['slots'] or exc.get('baseslots'):
      labels.add('user:slots')
      order = (exc.get('baseslots') or []) + exc['slots']
      state = ['unset' if x in (exc.get('unset') or []) else 'set' for x in order]
      if 'unset' in state and 'set' in state[state.index('unset'):]:
        labels.add('user:unset-slot-declared-before-a-set-one')
      if exc.get('baseslots') and exc['slots']:
        labels.add('user:slots-in-base-and-subclass')
    if exc['props']:
      labels.add('user:props')
    if any(k.startswith('raises') for k in exc['props']):
      labels.add('user:raising-property')
    if exc['attrs'] or exc['post']:
      labels.add('user:instance-attrs')
    if exc['cattrs']:
      labels.add('user:class-attrs')
    if exc['str']:
      labels.add('user:custom-str')
    if exc.get('nest'):
      labels.add('user:nested-' + exc['nest'])
      labels.add('user:nested-or-local-class')
    if exc.get('setattr'):
      labels.add('user:setattr-refuses-' + exc['setattr'])
    if exc.get('initsub'):
      labels.add('user:init-subclass-' + exc['initsub'])
      if exc['initsub'] in INITSUB_REJECTING:
        labels.add('user:init-subclass-rejects-non-TypeError')
    if exc['str'] == 'state':
      labels.add('user:str-reads-state')
    if exc['str'] == 'needs':
      labels.add('user:str-needs-field')
    if exc['str'] in ('state', 'needs') and (case.get('late') or any(
        'strstate' in r['applied'] for r in levels)):
      labels.add('str-state-changed-after-crossing')
    if exc['repr']:
      labels.add('user:custom-repr')
    if len(exc['bases']) > 1:
      labels.add('user:mi')
      if first_c_base_differs(cls):
        labels.add('user:mi-layout-base-not-first')
    if exc['group']:
      labels.add('user:group-subclass')
  if case.get('origin') == 'sweep':
    # keep the user-class floors honest: they count generated classes only
    labels = {l.replace('user:', 'sweep-user:', 1) if l.startswith('user:') else l for l in labels}
  sys.modules.pop(PROBE, None)
  return ok(labels, nontrivial)
