"""C03 — statements are recovered exactly, whatever the layout of the config text.

layout cases : a statement AST rendered in two independent layouts; (1) the ConfigParser statement
               stream of each layout must equal the AST (direct expectation); (2) gin.config_str()
               after parse_config of layout A equals that of layout B, and every binding reads
               back the AST's value.
near-miss    : a scoped name with internal whitespace / empty component / misplaced separator in a
               binding key, block header, reference, macro or import must raise SyntaxError and
               yield no statement for that line (statements before it are yielded).
"""
import re
import tokenize
import warnings

from hypothesis import strategies as st

from vf import ginenv
from vf.core import OutOfDomain, Violation, ok, require
from vf.gen import literals, statements as S

gin = ginenv.import_gin()
from gin import config_parser  # pylint: disable=g-import-not-at-top

ID = 'C03'
LEVEL = 'exploration'
ISOLATE = True
BUDGET = {'quick': (8, 250), 'thorough': (16, 6000)}
RULE = ('layout: 1-10 statements (bindings with scopes and module-qualified selectors, macro '
        'definitions, imports in 4 forms, includes; values = literals, @refs, %macros nested in '
        'containers) rendered twice from two independent layout tapes (blank/comment lines, '
        'trailing comments, spacing and backslash continuations around "=", flat vs block form with '
        '5 indentations, comment after block header, filler inside blocks, line breaks inside '
        'values, CRLF, final newline or not). Non-trivial = >=2 statements and (a block is used or '
        'the layouts differ in >=2 features). near-miss: one malformed scoped name after a valid '
        'prefix; always non-trivial. Distinct = distinct case JSON.')
ASSUMPTIONS = ['only layouts the tokenizer accepts are generated (consistent indentation)',
               'whitespace directly after "@"/"%" and before "()" is not "inside the scoped name" '
               'and is not generated as a near-miss',
               'texts with NUL are out of domain']
FLOORS = {'layout:nontrivial': (0.3, 'kind:layout'), 'feat:block': (0.2, 'kind:layout'),
          'layer2': (0.3, 'kind:layout')}
TECHNIQUE = ('grammar-based generation of statement sequences, each rendered in two random '
             'layouts; direct AST-vs-stream oracle plus metamorphic layout-A-vs-layout-B config '
             'equality; near-miss rejection sweep; atheris fuzzing of the statement parser in '
             'the thorough tier')
LEVEL_TEXT = ('For generated statement sequences every rendering must be read back as exactly '
              'the generated statements (kind, scope, selector, parameter, value, import form and '
              'alias, include path) and two renderings must yield identical gin.config_str(); '
              'malformed scoped names must be rejected with a syntax error. Exploration of the '
              'layout space listed in the property; not exhaustive.')
LEVEL_NOTE = ('Trusted: the renderer (it only emits layouts CPython\'s tokenizer accepts), '
              'ast.literal_eval for literal values. config_str equality also relies on '
              'gin.clear_config between the two layouts.')

REJECT = (SyntaxError, tokenize.TokenError)


# ------------------------------------------------------------------ registry used by layer (2)
@gin.configurable('fa')
def _fa(p=None, q=None, r=None):
  return (p, q, r)


@gin.configurable('fb', module='m1.sub')
def _fb1(p=None, q=None):
  return (p, q)


@gin.configurable('fb', module='m2')
def _fb2(p=None, q=None):
  return (p, q)


@gin.configurable('K', module='m1')
class _K:

  def __init__(self, p=None, q=None):
    self.p, self.q = p, q


@gin.configurable('fé')
def _fe(p=None, q=None):
  return (p, q)


@gin.configurable('fk')
def _fk(**kw):
  return kw


# non-ASCII identifiers are legal names too (column arithmetic in the raw-text re-check)
# fk takes **kwargs: any identifier is a parameter name, also Python's and Gin's keywords
KW_PARAMS = ['class', 'for', 'async', 'lambda', 'import', 'from', 'include', 'None', 'is']
SELECTORS = {'fk': ('fk', KW_PARAMS), 'fé': ('fé', 'pq'), 'fa': ('fa', 'pqr'), 'sub.fb': ('m1.sub.fb', 'pq'), 'm1.sub.fb': ('m1.sub.fb', 'pq'),
             'm2.fb': ('m2.fb', 'pq'), 'K': ('m1.K', 'pq'), 'm1.K': ('m1.K', 'pq')}
SCOPES = ['', '', 's', 's/t', 'S', 'a/b/c', 'sé/t']
# macro names equal to the statement keywords are legal ("from = 1" is a macro definition)
MACROS = ['M', 'mac', 'x_1', 'from', 'include', 'import', 'mé']
IMPORTS = [('import', 'math', None), ('import', 'os.path', None), ('import', 'json', 'js'),
           ('import', 'collections.abc', 'cabc'), ('from', 'os.path', None),
           ('from', 'collections.abc', None), ('from', 'xml.dom', 'xdom'),
           ('from', 'xml.dom.minidom', None), ('import', 'xml.dom.minidom', None),
           # aliases spelled like a component of the module path, or like the name bound anyway
           ('import', 'os.path', 'os'), ('import', 'xml.dom.minidom', 'xml'),
           ('import', 'xml.dom.minidom', 'minidom'), ('import', 'json', 'json'),
           ('from', 'os.path', 'path'), ('from', 'xml.dom', 'xml')]


# Virtual include files (served by a file reader registered in the forked child), each given as
# (text, equivalent statements): an include statement means "these statements, here".
_L = lambda t: ['lit', repr(t)]
VFILES = {
    'a.gin': ("fa.r = 'inc-a'\n", [['bind', '', 'fa', 'r', _L('inc-a')]]),
    'dir/b.gin': ("s/fa.p = 'inc-b'\nM = 'inc-bM'\n",
                  [['bind', 's', 'fa', 'p', _L('inc-b')], ['macro', '', 'M', _L('inc-bM')]]),
    '/abs/c.gin': ("include 'a.gin'\nm2.fb.q = 'inc-c'\n",
                   [['bind', '', 'fa', 'r', _L('inc-a')], ['bind', '', 'm2.fb', 'q', _L('inc-c')]]),
    'p.q/r.gin': ("# block form\nK:\n  p = 'inc-r'\n\n", [['bind', '', 'K', 'p', _L('inc-r')]]),
}


def _install_vfiles():
  import io  # pylint: disable=g-import-not-at-top
  gin.config.register_file_reader(lambda path: io.StringIO(VFILES[path][0]), lambda path: path in VFILES)


def expand_includes(stmts):
  out = []
  for s in stmts:
    out.extend(VFILES[s[1]][1] if s[0] == 'include' else [s])
  return out


class Ref:

  def __init__(self, sigil, name, evaluate):
    self.t = (sigil, name, bool(evaluate))

  def __eq__(self, other):
    return isinstance(other, Ref) and self.t == other.t

  def __hash__(self):
    return hash(self.t)

  def __repr__(self):
    return 'Ref%r' % (self.t,)


class Rec(config_parser.ParserDelegate):

  def configurable_reference(self, scoped_configurable_name, evaluate):
    return Ref('@', scoped_configurable_name, evaluate)

  def macro(self, macro_name):
    return Ref('%', macro_name, True)


def typed(v):
  if isinstance(v, (list, tuple)):
    return (type(v).__name__, [typed(x) for x in v])
  if isinstance(v, dict):
    return ('dict', [(typed(k), typed(x)) for k, x in v.items()])
  return (type(v).__name__, repr(v))


def stream_of(text):
  out = []
  with warnings.catch_warnings():
    warnings.simplefilter('ignore')
    for s in config_parser.ConfigParser(text, Rec()):
      out.append(s)
  return out


def describe(s):
  if isinstance(s, config_parser.BindingStatement):
    return ('bind', s.scope, s.selector, s.arg_name, typed(s.value))
  if isinstance(s, config_parser.BlockDeclaration):
    return ('block', s.scope, s.selector)
  if isinstance(s, config_parser.ImportStatement):
    return ('import', s.module, bool(s.is_from), s.alias)
  if isinstance(s, config_parser.IncludeStatement):
    return ('include', s.filename)
  return ('?', repr(s))


def expected_stream(stmts, shape):
  out = []
  for entry in shape:
    if entry[0] == 'block':
      out.append(('block', entry[1], entry[2]))
      continue
    s = stmts[entry[1]]
    if s[0] == 'bind':
      out.append(('bind', s[1], s[2], s[3], typed(S.expected_value(s[4], Ref))))
    elif s[0] == 'macro':
      out.append(('bind', s[1], s[2], '', typed(S.expected_value(s[3], Ref))))
    elif s[0] == 'import':
      out.append(('import', s[2], s[1] == 'from', s[3]))
    elif s[0] == 'include':
      out.append(('include', s[1]))
  return out


def check_layout(case):
  stmts = case['stmts']
  rendered = []
  for key in ('tapeA', 'tapeB'):
    text, feats, shape = S.render(stmts, case[key])
    if '\x00' in text:
      raise OutOfDomain('NUL')
    try:
      got = [describe(s) for s in stream_of(text)]
    except Exception as e:  # pylint: disable=broad-except
      raise Violation('valid-text-rejected', f'{type(e).__name__}: {e}\n--- text ({key}):\n{text}')
    exp = expected_stream(stmts, shape)
    if got != exp:
      diff = next((i for i, (a, b) in enumerate(zip(got, exp)) if a != b), min(len(got), len(exp)))
      raise Violation('stream-differs',
                      f'at statement {diff}: got {got[diff:diff + 2]} expected '
                      f'{exp[diff:diff + 2]}\n--- text ({key}):\n{text}')
    rendered.append((text, feats))
  (ta, fa), (tb, fb) = rendered
  labels = {'kind:layout'} | {'feat:' + f for f in fa | fb}
  semantic = True
  if semantic:
    labels.add('layer2')
    if any(s[0] == 'include' for s in stmts):
      _install_vfiles()
      labels.add('layer2:includes-applied')
      if len({s[1] for s in stmts if s[0] == 'include'}) < sum(s[0] == 'include' for s in stmts):
        labels.add('layer2:same-file-included-twice')
    outs = []
    for text in (ta, tb):
      gin.clear_config()
      try:
        if text is tb and case.get('skip_b'):
          # every name in the text is known: skip_unknown (in any form) changes nothing
          su = {1: True, 2: ['nosuch_cfg'], 3: ('fa', 'nosuch')}[case['skip_b']]
          gin.parse_config(text, skip_unknown=su)
          labels.add('layout-b-parsed-with-skip_unknown')
        else:
          gin.parse_config(text)
      except Exception as e:  # pylint: disable=broad-except
        raise Violation('valid-config-rejected', f'{type(e).__name__}: {e}\n--- text:\n{text}')
      outs.append(gin.config_str())
      # direct expectation: last writer wins per (scope, full selector, arg)
      last = {}
      for s in expand_includes(stmts):
        if s[0] == 'bind':
          last[(s[1], SELECTORS[s[2]][0], s[3])] = s[4]
        elif s[0] == 'macro':
          last[((s[1] + '/' if s[1] else '') + s[2], 'gin.macro', 'value')] = s[3]
      for (scope, full, arg), v in sorted(last.items()):
        if S.value_has_ref(v):
          continue
        got = gin.query_parameter(f"{scope + '/' if scope else ''}{full}.{arg}")
        exp = S.expected_value(v, Ref)
        require(typed(got) == typed(exp), 'binding-value',
                lambda: f'{scope}/{full}.{arg}: got {got!r} expected {exp!r}\n--- text:\n{text}')
    gin.clear_config()
    def lit_values(v):
      if v[0] == 'lit':
        yield S.expected_value(v, Ref)
      elif v[0] in ('list', 'tuple'):
        for x in v[1]:
          yield from lit_values(x)
      elif v[0] == 'dict':
        for _, x in v[1]:
          yield from lit_values(x)
    if any(literals.unorderable_keys(x) for s in stmts if s[0] in ('bind', 'macro')
           for x in lit_values(s[4] if s[0] == 'bind' else s[3])):
      # pprint orders such dict keys by memory address: the two texts may legitimately differ
      labels.add('text-compare-skipped:unorderable-dict-keys')
      outs[1] = outs[0]
    require(outs[0] == outs[1], 'layouts-disagree',
            lambda: f'--- layout A:\n{ta}\n--- config_str A:\n{outs[0]}\n--- layout B:\n{tb}\n'
                    f'--- config_str B:\n{outs[1]}')
  nt = len(stmts) >= 2 and ('block' in fa | fb or len(fa ^ fb) >= 2)
  if nt:
    labels.add('layout:nontrivial')
  for s in stmts:
    labels.add('stmt:' + s[0] + (':' + s[1] if s[0] == 'import' else ''))
  return ok(labels, nt)


def check_nearmiss(case):
  pre = case['pre']
  text, _, shape = S.render(pre, case.get('tape', []))
  bad = case['bad']
  full = text + ('' if text.endswith('\n') or not text else '\n') + bad + '\nfa.p = 1\n'
  if '\x00' in full:
    raise OutOfDomain('NUL')
  exp = expected_stream(pre, shape)
  got = []
  try:
    with warnings.catch_warnings():
      warnings.simplefilter('ignore')
      for s in config_parser.ConfigParser(full, Rec()):
        got.append(describe(s))
    raise Violation('malformed-name-accepted',
                    f'{case["why"]}: line {bad!r} accepted; stream tail {got[len(exp):]}')
  except REJECT:
    pass
  require(got == exp, 'statement-yielded-for-bad-line',
          lambda: f'{case["why"]}: line {bad!r}: yielded {got[len(exp):]} before the error')
  return ok(['kind:nearmiss', 'why:' + case['why'], 'where:' + case['where']], True)


# ------------------------------------------------------------------ arbitrary text (fuzzing)
SCOPE_RE = re.compile(r'^([a-zA-Z_]\w*(/[a-zA-Z_]\w*)*)?$')
SEL_RE = re.compile(r'^([a-zA-Z_]\w*\.)*[a-zA-Z_]\w*$')
REFNAME_RE = re.compile(r'^(([a-zA-Z_]\w*\.)*[a-zA-Z_]\w*/)*([a-zA-Z_]\w*\.)*[a-zA-Z_]\w*$')
IDENT_RE = re.compile(r'^[a-zA-Z_]\w*$')
BARE_CR = re.compile(r'\r(?!\n)')


def refs_of(v):
  if isinstance(v, Ref):
    yield v
  elif isinstance(v, (list, tuple)):
    for x in v:
      yield from refs_of(x)
  elif isinstance(v, dict):
    for k, x in v.items():
      yield from refs_of(k)
      yield from refs_of(x)


def canonical_value(v):
  if isinstance(v, Ref):
    return v.t[0] + v.t[1] + ('()' if v.t[0] == '@' and v.t[2] else '')
  if isinstance(v, list):
    return '[' + ', '.join(canonical_value(x) for x in v) + ']'
  if isinstance(v, tuple):
    return '(' + ', '.join(canonical_value(x) for x in v) + (',' if len(v) == 1 else '') + ')'
  if isinstance(v, dict):
    return '{' + ', '.join(f'{canonical_value(k)}: {canonical_value(x)}' for k, x in v.items()) + '}'
  if isinstance(v, float) and (v != v or v in (float('inf'), float('-inf'))):
    raise OutOfDomain('non-finite float has no canonical text')
  if isinstance(v, complex):
    raise OutOfDomain('complex has no canonical text')
  return repr(v)


def check_fuzz(case):
  """Invariants of the statement parser on arbitrary text (driven by atheris)."""
  text = case['text']
  if '\x00' in text or (BARE_CR.search(text) and not text.isascii()):
    raise OutOfDomain('CPython tokenizer hazard (NUL / bare CR + non-ASCII)')
  got = []
  try:
    with warnings.catch_warnings():
      warnings.simplefilter('ignore')
      for st_ in config_parser.ConfigParser(text, Rec()):
        got.append(st_)
    rejected = False
  except REJECT:
    rejected = True
  except (RecursionError, MemoryError):
    raise OutOfDomain('resource limit')
  except TypeError as e:
    if 'unhashable' in str(e):
      raise OutOfDomain('unhashable dict key (Python raises TypeError too)')
    raise Violation('wrong-exception-class', f'TypeError: {e} for text {text!r}')
  except Exception as e:  # pylint: disable=broad-except
    raise Violation('wrong-exception-class', f'{type(e).__name__}: {e} for text {text!r}')
  lines = []
  for st_ in got:
    if isinstance(st_, config_parser.BindingStatement):
      require(SCOPE_RE.match(st_.scope) and SEL_RE.match(st_.selector) and
              (st_.arg_name == '' or IDENT_RE.match(st_.arg_name)), 'malformed-name-recovered',
              lambda: f'{st_[:3]} from {text!r}')
      key = (st_.scope + '/' if st_.scope else '') + st_.selector
      require(key in text and st_.arg_name in text, 'name-not-verbatim-in-source',
              lambda: f'{key!r} / {st_.arg_name!r} not in {text!r}')
      for r in refs_of(st_.value):
        require(REFNAME_RE.match(r.t[1]) and r.t[1] in text, 'reference-name-repaired',
                lambda: f'{r.t} from {text!r}')
      lines.append(key + ('.' + st_.arg_name if st_.arg_name else '') + ' = ' +
                   canonical_value(st_.value))
    elif isinstance(st_, config_parser.BlockDeclaration):
      require(SCOPE_RE.match(st_.scope) and SEL_RE.match(st_.selector),
              'malformed-name-recovered', lambda: f'{st_[:2]} from {text!r}')
    elif isinstance(st_, config_parser.ImportStatement):
      require(SEL_RE.match(st_.module) and (st_.alias is None or IDENT_RE.match(st_.alias)),
              'malformed-import-recovered', lambda: f'{st_[:3]} from {text!r}')
      lines.append(st_.format())
    elif isinstance(st_, config_parser.IncludeStatement):
      require(isinstance(st_.filename, str), 'include-not-a-string', repr(st_.filename))
      lines.append('include ' + repr(st_.filename))
  # canonical re-rendering of what was recovered re-parses to the same statements
  canon_text = '\n'.join(lines) + '\n'
  flat = [describe(x) for x in got if not isinstance(x, config_parser.BlockDeclaration)]
  try:
    again = [describe(x) for x in stream_of(canon_text)]
  except Exception as e:  # pylint: disable=broad-except
    raise Violation('canonical-text-rejected',
                    f'{type(e).__name__}: {e}\n--- recovered from {text!r}:\n{canon_text}')
  require(again == flat, 'canonical-reparse-differs',
          lambda: f'{flat} vs {again}\n--- source {text!r}\n--- canonical:\n{canon_text}')
  labels = ['kind:fuzz', 'fuzz:rejected' if rejected else 'fuzz:accepted',
            'fuzz:statements>=1' if got else 'fuzz:no-statement']
  return ok(labels, bool(got))


def check_case(case):
  if case['kind'] == 'layout':
    return check_layout(case)
  if case['kind'] == 'fuzz':
    return check_fuzz(case)
  return check_nearmiss(case)


def fuzz_campaigns(tier, seed):
  """Coverage-guided campaigns (atheris) over arbitrary bytes with check_fuzz as the oracle."""
  from vf.fuzz import plans  # pylint: disable=g-import-not-at-top
  return plans.run('vf.fuzz.c03', lambda text: {'kind': 'fuzz', 'text': text}, check_case, tier,
                   seed, plans.C03_SEEDS, plans.C03_TOKENS, quick_runs=20000, max_len=160)


EXTRA = [fuzz_campaigns]


# ------------------------------------------------------------------------------ strategies
def _values(depth=2):
  lit = st.one_of(literals.simple_value(), literals.simple_value(),
                  literals.value(depth=1).map(lambda tf: tf[0]))
  return S.values(sorted(SELECTORS), MACROS, SCOPES, depth=depth, lit=lit)


@st.composite
def _stmt(draw, allow_include=True):
  kind = draw(st.sampled_from(['bind'] * 6 + ['macro', 'macro', 'import'] +
                              (['include', 'include'] if allow_include else [])))
  if kind == 'bind':
    sel = draw(st.sampled_from(sorted(SELECTORS)))
    arg = draw(st.sampled_from(SELECTORS[sel][1]))
    return ['bind', draw(st.sampled_from(SCOPES)), sel, arg, draw(_values())]
  if kind == 'macro':
    return ['macro', draw(st.sampled_from(['', '', 'sc', 'a/b'])), draw(st.sampled_from(MACROS)),
            draw(_values())]
  if kind == 'import':
    form, module, alias = draw(st.sampled_from(IMPORTS))
    return ['import', form, module, alias]
  return ['include', draw(st.sampled_from(['a.gin', 'dir/b.gin', '/abs/c.gin', 'p.q/r.gin']))]


@st.composite
def _stmts(draw, allow_include=True, min_size=1, max_size=10):
  out = []
  n = draw(st.integers(min_size, max_size))
  while len(out) < n:
    s = draw(_stmt(allow_include))
    out.append(s)
    if s[0] == 'include' and draw(st.booleans()):
      # what the file bound is overridden, and perhaps the file is included once more
      ov = draw(st.sampled_from(VFILES[s[1]][1]))
      out.append(ov[:-1] + [['lit', "'override'"]])
      if draw(st.booleans()):
        out.append(list(s))
    # runs of bindings for the same scope/selector make blocks with several members possible
    if s[0] == 'bind' and draw(st.integers(0, 2)) == 0:
      for _ in range(draw(st.integers(1, 3))):
        arg = draw(st.sampled_from(SELECTORS[s[2]][1]))
        out.append(['bind', s[1], s[2], arg, draw(_values(1))])
  return out[:max_size + 3]


@st.composite
def _layout_case(draw):
  inc = draw(st.integers(0, 3)) == 0
  return {'kind': 'layout', 'stmts': draw(_stmts(allow_include=inc)),
          'tapeA': draw(S.tapes()), 'tapeB': draw(S.tapes()),
          'skip_b': draw(st.sampled_from([0, 0, 1, 2, 3]))}


WS = [' ', '\t', ' \\\n', '  ']


def _inject(name, i, ws):
  return name[:i] + ws + name[i:]


@st.composite
def _nearmiss_case(draw):
  scope = draw(st.sampled_from(['s', 's/t', 'a/b/c']))
  sel = draw(st.sampled_from(['fa', 'sub.fb', 'm1.sub.fb', 'm1.K']))
  name = scope + '/' + sel
  why = draw(st.sampled_from(['ws', 'ws', 'ws', 'empty', 'misplaced']))
  where = draw(st.sampled_from(['key', 'block', 'ref', 'macro', 'macrodef', 'import', 'import']))
  if where == 'import':
    base = draw(st.sampled_from(['a.b.c', 'os.path']))
    if why == 'ws':
      i = draw(st.integers(1, len(base) - 1))
      bad_name = _inject(base, i, draw(st.sampled_from(WS)))
      if base[i - 1].isalnum() and base[i].isalnum():
        why = 'ws-splits-identifier'
    elif why == 'empty':
      bad_name = draw(st.sampled_from(['a..b', '.a', 'a.', 'a.b.']))
    else:
      bad_name = draw(st.sampled_from(['a/b', 'a/b.c', 's/os.path', 'a.b/c']))
    form = draw(st.sampled_from(['import %s', 'import %s as z', 'from %s import q',
                                 'from %s import q', 'IMPORTED-NAME', 'IMPORTED-NAME']))
    if form == 'IMPORTED-NAME':
      # the name after `from m import` is one identifier: no dots, separators or inner blanks
      tail = draw(st.sampled_from(['b.c', 'etree.ElementTree', 'b/c', '.b', 'b.', 'b .c', 'b c',
                                   '1b', 'b-c', 'b, c', '(b)', '*']))
      bad = 'from %s import %s%s' % (draw(st.sampled_from(['a', 'xml', 'os.path'])), tail,
                                     draw(st.sampled_from(['', ' as z', '  # comment'])))
      why = 'imported-name-not-an-identifier'
    else:
      bad = form % bad_name
  else:
    if where == 'macro' or where == 'macrodef':
      name = draw(st.sampled_from(['sc/M', 'a/b/mac', 'a.b/K']) if where == 'macro'
                  else st.sampled_from(['sc/M', 'a/b/mac']))
    if why == 'ws':
      i = draw(st.integers(1, len(name) - 1))
      ws = draw(st.sampled_from(WS + (['\n'] if where in ('ref', 'macro') else [])))
      if where in ('key', 'block', 'macrodef') and draw(st.integers(0, 3)) == 0:
        # a continuation inside the name whose next line is indented by exactly (or about) the
        # width already consumed: the name's two halves end up in "adjacent" columns
        ws = '\\\n' + ' ' * (i + draw(st.sampled_from([0, 0, 1, -1])))
      bad_name = _inject(name, i, ws)
      if name[i - 1].isalnum() and name[i].isalnum():
        why = 'ws-splits-identifier'
    elif why == 'empty':
      k = draw(st.integers(0, 5))
      bad_name = [name.replace('/', '//', 1), '/' + name, name.rsplit('/', 1)[0] + '/',
                  name.replace('.', '..', 1) if '.' in name else name + '..x',
                  name + '.', '/' + sel][k]
    else:
      # a period in a scope name at any level (outermost, middle, innermost) of 1-4 levels
      levels = draw(st.lists(st.sampled_from(['s', 't', 'a', 'b1', 'Sc_2']), min_size=1, max_size=4))
      k = draw(st.integers(0, len(levels) - 1))
      levels[k] = draw(st.sampled_from(['m1.x', 'a.b', 'dotted.scope', 'x.y.z']))
      bad_name = draw(st.sampled_from(['a.b/' + sel, 's/m1.x/' + sel, name + '/', 'm1.sub/' + sel,
                                       '/'.join(levels) + '/' + sel, '/'.join(levels) + '/' + sel])
                      if where in ('key', 'block', 'macrodef') else
                      st.sampled_from([sel + '/', '/' + name, name + '//x']))
    if where == 'key':
      bad = bad_name + ('.p = 1' if not bad_name.endswith('.') else ' = 1')
    elif where == 'block':
      bad = bad_name + ':\n  p = 1'
    elif where == 'ref':
      wrap = draw(st.sampled_from(['@%s', '@%s()', '[@%s()]', "{'k': (@%s,)}"]))
      if '\n' in bad_name and not wrap.startswith(('[', '{')):
        wrap = '[@%s]'
      bad = 'fa.q = ' + wrap % bad_name
    elif where == 'macro':
      wrap = draw(st.sampled_from(['%%%s', '[%%%s]', '(1, %%%s)']))
      if '\n' in bad_name and not wrap.startswith(('[', '(')):
        wrap = '[%%%s]'
      bad = 'fa.q = ' + wrap % bad_name
    else:
      bad = bad_name + ' = 1'
  pre = draw(_stmts(allow_include=True, min_size=0, max_size=3))
  return {'kind': 'nearmiss', 'pre': pre, 'tape': draw(S.tapes(20)), 'bad': bad, 'why': why,
          'where': where}


def strategy():
  return st.one_of(_layout_case(), _layout_case(), _layout_case(), _nearmiss_case())
