"""C20 - clear_config returns the configuration to its pristine state.

A case is  {history: [op...], clear_constants: bool, follow: [op...]}.

history side (a forked grandchild of the pristine runner process):
    run the history ops (failures tolerated), call gin.clear_config(clear_constants), then run the
    observation script: a fixed full snapshot (config strings incl. provenance, lock flag, every
    pool query, every constant spelling through query_parameter and through %NAME in a parsed
    binding, singleton keys, every probe under every scope), the generated follow-up ops with
    their outcomes, and the snapshot again.
reference side (the forked child itself, which has executed nothing but the import of this
module = "a fresh process with the same registrations"):
    define the constants that must survive (none when clear_constants=True), run the very same
    observation script.
oracle: clear_config did not raise, and the two observation transcripts are equal.
"""
import contextlib
import enum
import json
import os
import queue
import re
import shutil
import signal
import sys
import tempfile
import threading

from hypothesis import strategies as st

from vf import ginenv, iso
from vf.core import OutOfDomain, Violation, ok, require  # pylint: disable=unused-import

gin = ginenv.import_gin()

ID = 'C20'
LEVEL = 'exploration'
ISOLATE = True
BUDGET = {'quick': (16, 64), 'thorough': (16, 2000)}
RULE = ('Hypothesis op lists: history of 1-14 ops (parse_config of 1-4 generated statements '
        '[bindings with literal / @ref / @ref() / %macro-or-constant / @key/gin.singleton() values '
        'under scopes, macro definitions, stdlib imports in 6 forms, singleton constructors] with an '
        'optional injected failing statement and optional skip_unknown; bind_parameter str/tuple '
        'keys incl. unknown configurable/parameter; probe calls under scopes; finalize; '
        'unlock_config+bind; gin.constant outside/inside interactive_mode(), and blocks of 1-3 '
        'definitions inside one interactive_mode(), over names '
        '{X,a.X,b.a.X,Y,a.Y,c.Y,K,REQUIRED,gin.ext.SEED,gin.X,gin.REQUIRED,x.gin.REQUIRED,invalid}; singleton use through config and through '
        'singleton_value; programmatic binding (+call) of an object whose repr raises once a later '
        '"break_repr" op has run; gin.constants_from_enum on two long-lived module-level enum '
        'classes under '
        '3 module names, outside/inside interactive_mode(); parse_config_file of real temp files '
        '(2 paths, optionally including one of 2 other files, optional failing statement in the '
        'file and/or in the included file); queries; config-string reads; registration of finalize '
        'hooks that contribute a probe binding when it is not bound; singleton use / call / parse '
        'executed on one long-lived worker thread), then clear_config (on the main or on the '
        'worker thread) for '
        'clear_constants in {False,True}, spelled clear_config(clear_constants=b) / clear_config(b) '
        '/ clear_config() and called inside 0-2 nested config_scope blocks (the observation runs '
        'inside them too, the fresh side enters the same blocks; afterwards the blocks are left and '
        'current_scope(), calls and the operative config are read), then a fixed full snapshot (which also parses every pool path as a correct '
        'file with a correct include) + 0-8 generated follow-up ops (same op language, outcomes '
        'recorded) + snapshot (which finally generates every pool enum\'s constants under an '
        'unused module name). Plus a bounded sweep of all sequences of <=2 '
        '(quick) / <=3 (thorough) constant definitions over the 8 plain names, plus the gin.* names '
        'alone and in pairs among themselves (quick) or with every name (thorough), after a fixed '
        'parse(import, binding)+singleton-use+call+finalize prefix. '
        'Non-trivial = the history executed >=1 probe call, >=1 finalize or failed operation, and '
        '>=1 successful constant definition. Distinct = distinct case JSON.')
ASSUMPTIONS = [
    'a forked child of the runner that has only imported gin and registered the C20 probes is '
    '"a fresh process with the same registrations"',
    'the constants that "survive" are those whose gin.constant() call returned without raising '
    'during the history (latest value per name); in the reference they are defined inside '
    'interactive_mode(), the public way to define a name that is a dotted suffix of another',
    'gin.REQUIRED re-defined inside interactive_mode() is an ordinary surviving constant under '
    'clear_constants=False (the fresh side defines it with the same value); under '
    'clear_constants=True the fresh side has the sentinel, as the property says',
    'custom file readers, search paths, dynamic registration and a dangling '
    'enter_interactive_mode() are not part of histories: clear_config does not claim to reset them',
    'finalize hooks registered by the program are registrations ("with the same registrations"): '
    'they must survive the clear, and the fresh side registers the same hooks in the same order',
    'the worker thread is a different thread identity only: its ops run one at a time while the '
    'main thread waits (no interleaving is claimed or explored here; that is C18)',
    'config files are real files under one temp directory used by both sides (absolute paths, the '
    'default reader); every file op writes all files it reads, and the directory is emptied '
    'before the fresh side runs',
    'enum classes are module-level objects of the check (inherited by every fork), i.e. the same '
    'class object is used before and after the clear, as a long-lived program would',
    'constant / bound values include None, 0, containers, non-literal objects and the gin.REQUIRED '
    'sentinel object itself',
    'config_str()/operative_config_str() may legitimately raise while a bound or recorded object '
    'has a raising __repr__ (they do on the pristine tree); only clear_config() and what follows '
    'it are asserted, and the harness flag that makes repr raise is reset before observing on '
    'both sides',
    'a clear_config() that has not returned after 13-15 s is a violation (clear-did-not-return); '
    'a correct clear takes well under a millisecond',
    'exceptions are compared by their first builtin class in the MRO only, never by message',
    'reference cycles between bindings (f.p = @f()) are excluded by construction (references only '
    'point to probes later in a fixed order; macros hold literals only)',
]
_S = 'origin:search'
FLOORS = {'nontrivial': (0.15, _S), 'pre:locked': (0.1, _S), 'pre:singleton-cached': (0.1, _S),
          'pre:imports-recorded': (0.07, _S), 'pre:operative-nonempty': (0.4, _S),
          'pre:parsed-bindings': (0.4, _S), 'hist:const-suffix-coexist': (0.03, _S),
          'hist:const-suffix-defined-after-longer': (0.03, _S),
          'hist:const-interactive-ok': (0.1, _S), 'hist:failed-op': (0.3, _S),
          'clear:constants-kept': (0.3, _S), 'clear:constants-dropped': (0.3, _S),
          'survivors-kept>=1': (0.1, _S), 'obs:final-operative-readable': (0.6, _S),
          'clear:inside-0-scopes': (0.3, _S), 'clear:inside-1-scopes': (0.1, _S),
          'clear:inside-2-scopes': (0.1, _S), 'clear:call-pos': (0.12, _S), 'clear:call-kw': (0.12, _S),
          'clear:call-default': (0.12, _S), 'clear:on-worker-thread': (0.15, _S),
          'hist:hook-registered': (0.06, _S), 'hist:operative-read-failed': (0.03, _S), 'hist:in-worker-singleton': (0.05, _S), 'hist:const-gin-namespace': (0.05, _S),
          'hist:const-value-is-REQUIRED-sentinel': (0.03, _S),
          'hist:flaky-in-operative-record-then-broken': (0.02, _S), 'hist:enum-ok': (0.08, _S), 'hist:pfile-failed': (0.08, _S), 'hist:pfile-ok': (0.05, _S),
          'hist:pfile-failed-with-faulty-include': (0.02, _S)}
TECHNIQUE = ('model-free differential over generated operation histories: state after '
             'history+clear_config vs a fresh fork of the pristine process, compared through one '
             'shared observation script; bounded exhaustive sweep of short constant-definition '
             'sequences')
LEVEL_TEXT = ('Every generated history (including failing operations, locked configurations and '
              'constants defined inside interactive_mode()) is followed by clear_config; the '
              'process is then required to answer a long observation script (config strings with '
              'and without provenance, operative config, lock flag, all pool queries, all constant '
              'spellings, singleton keys, probe calls under all scopes, a generated follow-up of '
              'parses / binds / calls / singleton uses / constant definitions) exactly as a fresh '
              'fork of the pristine process does. Exploration: no counter-example within the '
              'generated space; the sweep is exhaustive only for its stated bound.')
LEVEL_NOTE = ('Trusted: fork() as the model of a fresh process; the describe() normaliser (object '
              'identity by first-appearance serial, addresses stripped). Both sides run Gin, so a '
              'defect that affects a fresh process and a cleared one alike is invisible here (it '
              'belongs to C01-C07). Stores clear_config does not claim to reset are not exercised.')

# ----------------------------------------------------------------------------- probes (pristine)
EPOCH = ['obs']     # 'history' while the history runs; objects born then must not be seen later


def _mk(name):
  def probe(p='dp', q='dq'):
    return {'who': name, 'p': p, 'q': q, 'scope': gin.current_scope_str()}
  probe.__name__ = probe.__qualname__ = name
  return gin.configurable(name, module='c20m')(probe)


class Ctor:

  def __init__(self, p='dp', q='dq'):
    self.p = p
    self.q = q
    self.born = EPOCH[0]

  def __repr__(self):
    return '<Ctor>'


class Token:
  """A constant value that is not literally representable."""

  def __init__(self, n):
    self.n = n

  def __repr__(self):
    return f'<Token {self.n}>'


W_F = _mk('f')
W_G = _mk('g')
W_CTOR = gin.configurable('Ctor', module='c20m')(Ctor)


@gin.configurable('cons', module='c20m')
def _cons(x='dx'):
  return x


@gin.configurable('req', module='c20m')
def _req(r=gin.REQUIRED):
  return r


class Color(enum.Enum):
  """Long-lived (module-level) enum: the same class object before and after a clear."""
  RED = 1
  GREEN = 2


class Shape(enum.Enum):
  SQ = 'sq'


ENUMS = [Color, Shape]
EMODS = ['pal', 'c20m', None]                    # None: cls.__module__ ('vf.props.c20')
MAINS = ['main.gin', 'exp.gin']                  # files live in TMP[0], shared by both sides
INCS = ['base.gin', 'other.gin']
TMP = [None]

FNS = ['c20m.f', 'c20m.g', 'c20m.Ctor']          # references only point "to the right"
WRAPPERS = {'c20m.f': W_F, 'c20m.g': W_G, 'c20m.Ctor': W_CTOR}
PARAMS = ['p', 'q']
SCOPES = ['', 's', 's/t', 'u']
KEYS = ['k1', 'k2', 's']                         # singleton keys (= scope of the reference)
CONSTS = ['X', 'a.X', 'b.a.X', 'Y', 'a.Y', 'c.Y', 'K', 'REQUIRED']
BAD_CONSTS = ['1X', 'a..X']
# operand -> name for definitions: the X family is over-represented so that suffix pairs meet
# constants in Gin's own namespace: user extensions filed under gin.*, a name that has
# gin.REQUIRED as a dotted suffix, and gin.REQUIRED itself (re-definable in interactive mode)
GIN_CONSTS = ['gin.ext.SEED', 'gin.X', 'gin.REQUIRED', 'x.gin.REQUIRED']
CONST_PICK = CONSTS + ['X', 'a.X', 'b.a.X', 'a.X'] + BAD_CONSTS + GIN_CONSTS   # append only
MACROS = ['M', 'N']
ENUM_LOOKUPS = ['pal.Color.RED', 'Color.RED', 'Color.GREEN', 'c20m.Color.GREEN', 'Shape.SQ',
                'c20.Shape.SQ']
LOOKUPS = (CONSTS + ['gin.REQUIRED', 'c.X', 'b.X'] + MACROS + ENUM_LOOKUPS +
           ['gin.ext.SEED', 'ext.SEED', 'SEED', 'gin.X', 'x.gin.REQUIRED'])         # append only
MAC_NAMES = CONSTS + MACROS + ['Color.RED', 'pal.Color.GREEN', 'SEED', 'gin.ext.SEED', 'gin.X']
IMPORTS = ['import math', 'import json as jj', 'from os import path', 'import os.path',
           'from collections import abc as cabc', 'import string']
FAULTS = ['nope.p = 1', 'c20m.f.p = 1 +', 'c20m.f.zz = 1', 'import c20_no_such_module',
          'c20m.f.p = @nope()', 'a.X = 1', 'c20m.g.q = [1, @c20m.nope]']
NVALS = 9


def norm_vi(i):
  """Operand -> canonical value index: 0-8 the pool below, 18 the gin.REQUIRED sentinel itself."""
  i %= 20
  return 18 if i >= 18 else i % NVALS


def mkval(i):
  i = norm_vi(i)
  if i == 18:
    return gin.REQUIRED            # a user constant / binding whose VALUE is the sentinel
  return [0, 1, 'v', (1, 'a'), [1, 2], {'k': 1}, None, Token(7), Token(8)][i]


BROKEN = [False]    # harness state, like EPOCH: flipped by the 'break_repr' op, reset before observing


class Flaky:
  """A bound Python object whose repr works at first and raises from some point on (a client
  that was closed in the meantime).  Formatting a config that holds it then raises - which is
  legitimate for config_str()/operative_config_str(), but clear_config() must still succeed."""

  def __repr__(self):
    if BROKEN[0]:
      raise ConnectionError('client is closed')
    return '<Flaky>'


class WorkerStuck(RuntimeError):
  pass


class ClearHung(BaseException):
  """Raised in the main thread by SIGALRM when clear_config() has not returned in time."""


CLEAR_TIMEOUT_S = 15    # a correct clear_config returns in well under a millisecond


class Worker:
  """One long-lived worker thread (a thread fed through a queue): ops marked 'worker' run there,
  one at a time, while the caller waits - no interleaving, only a different thread identity."""

  def __init__(self):
    self.q = queue.Queue()
    self.thread = threading.Thread(target=self.loop, daemon=True)
    self.thread.start()

  def loop(self):
    while True:
      fn, box, done = self.q.get()
      try:
        box.append(('ok', fn()))
      except BaseException as e:  # pylint: disable=broad-except
        box.append(('exc', e))
      done.set()

  def do(self, fn, timeout=30):
    box, done = [], threading.Event()
    self.q.put((fn, box, done))
    if not done.wait(timeout):
      raise WorkerStuck('worker thread did not answer within %ss' % timeout)
    kind, value = box[0]
    if kind == 'exc':
      raise value
    return value


WORKER = [None]     # created after the fork, in the process that needs it; lives until it exits


def worker():
  if WORKER[0] is None:
    WORKER[0] = Worker()
  return WORKER[0]


def make_hook(desc):
  """A program-registered finalize hook: contributes <scope>/<probe>.<param> = 50+n unless the
  configuration it is shown already binds that parameter.  A registration, not configuration."""
  sc, fn, pa, n = desc
  scope = SCOPES[sc % len(SCOPES)]
  name = FNS[fn % len(FNS)]
  param = PARAMS[pa % len(PARAMS)]
  key = scoped(scope, name) + '.' + param

  def hook(config):
    if param in config.get((scope, name), {}):
      return None
    return {key: 50 + n % 10}
  return hook


def survivor_value(v):
  """Rebuilds a constant value from its JSON form: pool index, or 'Class.MEMBER' of an enum."""
  if isinstance(v, str):
    cls, member = v.split('.')
    return {c.__name__: c for c in ENUMS}[cls][member]
  return mkval(v)


def tmpdir():
  if TMP[0] is None:
    TMP[0] = tempfile.mkdtemp(prefix='c20_')
  return TMP[0]


def write_file(name, lines):
  path = os.path.join(tmpdir(), name)
  with open(path, 'w') as f:
    f.write('\n'.join(lines) + '\n')
  return path


def scoped(scope, name):
  return (scope + '/' if scope else '') + name


# ----------------------------------------------------------------------------- describing values
ADDR = re.compile(r'0x[0-9a-fA-F]+')
_BUILTIN_EXC = {n for n, v in vars(__import__('builtins')).items()
                if isinstance(v, type) and issubclass(v, BaseException)}


def exc_name(e):
  for c in type(e).__mro__:
    if c.__name__ in _BUILTIN_EXC and c.__module__ == 'builtins':
      return c.__name__
  return 'Exception'


class Describer:
  """JSON description of values; object identity = serial of first appearance."""

  def __init__(self, seeded=()):
    self.ids = {}
    self.keep = []
    for o in seeded:
      self.serial(o)

  def serial(self, o):
    if id(o) not in self.ids:
      self.ids[id(o)] = len(self.ids)
      self.keep.append(o)
    return self.ids[id(o)]

  def d(self, v, depth=0):
    if depth > 6:
      return 'deep'
    if v is gin.REQUIRED:
      return 'gin.REQUIRED'
    if v is None or isinstance(v, (bool, int, float, str, bytes)):
      return repr(v)
    if isinstance(v, (list, tuple)):
      return [type(v).__name__] + [self.d(x, depth + 1) for x in v]
    if isinstance(v, dict):
      items = [[self.d(k, depth + 1), self.d(x, depth + 1)] for k, x in v.items()]
      return {'dict': sorted(items, key=lambda kv: json.dumps(kv, sort_keys=True))}
    if isinstance(v, Ctor):
      return {'Ctor': self.serial(v), 'born': v.born, 'p': self.d(v.p, depth + 1),
              'q': self.d(v.q, depth + 1)}
    if isinstance(v, Token):
      return {'Token': v.n, 'obj': self.serial(v)}
    if isinstance(v, enum.Enum):
      return 'enum:%s.%s' % (type(v).__name__, v.name)
    if isinstance(v, Flaky):
      return 'Flaky'
    for name, w in WRAPPERS.items():
      if v is w:
        return 'wrapper:' + name
    try:
      text = ADDR.sub('0x', repr(v))[:200]
    except Exception as e:  # pylint: disable=broad-except
      text = 'repr raises ' + exc_name(e)
    return {'other': type(v).__name__, 'repr': text}


# ----------------------------------------------------------------------------- op interpreter
def render_val(v):
  k = v[0]
  if k == 'int':
    return str(v[1])
  if k == 'str':
    return repr('s%d' % v[1])
  if k == 'ref':
    return '@' + scoped(SCOPES[v[1] % len(SCOPES)], FNS[v[2] % len(FNS)]) + ('()' if v[3] else '')
  if k == 'mac':
    return '%' + MAC_NAMES[v[1] % len(MAC_NAMES)]
  if k == 'sing':
    return '@%s/gin.singleton()' % KEYS[v[1] % len(KEYS)]
  if k == 'req':
    return '%gin.REQUIRED'
  if k == 'lst':
    return '[' + ', '.join(render_val(x) for x in v[1]) + ']'
  raise OutOfDomain('value kind ' + str(k))


def sanitize_val(v, fn_i, depth=0):
  """Keeps the binding graph acyclic: refs point to later probes only, singletons not on Ctor."""
  k = v[0]
  fn_i %= len(FNS)
  if k == 'ref':
    lo = fn_i + 1
    if lo >= len(FNS):
      return ['int', v[2] % 10]
    return ['ref', v[1], lo + v[2] % (len(FNS) - lo), v[3]]
  if k == 'sing' and fn_i == len(FNS) - 1:
    return ['int', v[1] % 10]
  if k == 'lst':
    if depth >= 1:
      return ['int', 0]
    return ['lst', [sanitize_val(x, fn_i, depth + 1) for x in v[1]]]
  return v


def render_stmt(s):
  k = s[0]
  if k == 'bind':
    _, sc, fn, pa, val = s
    fn %= len(FNS)
    key = scoped(SCOPES[sc % len(SCOPES)], FNS[fn]) + '.' + PARAMS[pa % len(PARAMS)]
    return [key + ' = ' + render_val(sanitize_val(val, fn))]
  if k == 'macro':
    _, mi, n = s
    names = MACROS + CONSTS[:1] + CONSTS[3:4]      # M, N, X, Y : macros that share constant names
    return ['%s = %d' % (names[mi % len(names)], n % 10)]
  if k == 'import':
    return [IMPORTS[s[1] % len(IMPORTS)]]
  if k == 'sctor':
    _, ki, sc = s
    return ['%s/gin.singleton.constructor = @%s' %
            (KEYS[ki % len(KEYS)], scoped(SCOPES[sc % len(SCOPES)], 'c20m.Ctor'))]
  if k == 'block':
    _, sc, fn, n1, n2 = s
    return ['%s:' % scoped(SCOPES[sc % len(SCOPES)], FNS[fn % len(FNS)]),
            '  p = %d' % (n1 % 10), '  q = %d' % (n2 % 10)]
  raise OutOfDomain('statement kind ' + str(k))


def render_lines(stmts, fault):
  lines = []
  for s in stmts:
    lines.extend(render_stmt(s))
  if fault is not None:
    at = fault[1] % (len(stmts) + 1)
    pos = sum(len(render_stmt(s)) for s in stmts[:at])
    lines.insert(pos, FAULTS[fault[0] % len(FAULTS)])
  return lines


class Machine:
  """Executes ops against Gin.  Used for the history (outcomes dropped) and, with the same code,
  for the follow-up on both sides (outcomes recorded)."""

  def __init__(self, desc=None):
    self.desc = desc
    self.labels = set()
    self.defined = {}       # constant name -> (value index, object), successful definitions
    self.order = []
    self.n_calls = 0
    self.n_failed = 0
    self.failed_mains = set()
    self.flaky_called = False
    self.hooks = []           # descriptors of the finalize hooks registered, in order

  def attempt(self, fn):
    try:
      res = fn()
    except Exception as e:  # pylint: disable=broad-except
      self.n_failed += 1
      return ['exc', exc_name(e)]
    return ['ok', self.desc.d(res) if self.desc is not None else None]

  def note_const(self, name, vi, obj, succeeded, interactive):
    if not succeeded:
      self.labels.add('hist:const-rejected')
      return
    if name in self.defined:
      self.labels.add('hist:const-redefined')
    else:
      self.order.append(name)
    others = [n for n in self.defined if n != name]
    if any(n.endswith('.' + name) for n in others + ['gin.REQUIRED']):
      self.labels.add('hist:const-suffix-defined-after-longer')
    if any(n.endswith('.' + name) or name.endswith('.' + n) for n in others):
      self.labels.add('hist:const-suffix-coexist')
    self.defined[name] = (norm_vi(vi) if isinstance(vi, int) else vi, obj)
    self.labels.add('hist:const-interactive-ok' if interactive else 'hist:const-ok')
    if name.startswith('gin.'):
      self.labels.add('hist:const-gin-namespace')
    if name == 'gin.REQUIRED':
      self.labels.add('hist:const-gin.REQUIRED-redefined')
    if obj is gin.REQUIRED and name != 'gin.REQUIRED':
      self.labels.add('hist:const-value-is-REQUIRED-sentinel')

  def run(self, op):
    k = op[0]
    if k == 'parse':
      _, stmts, fault, skip = op
      text = '\n'.join(render_lines(stmts, fault)) + '\n'
      out = self.attempt(lambda: (gin.parse_config(text, skip_unknown=bool(skip)), None)[1])
      self.labels.add('hist:parse-ok' if out[0] == 'ok' else 'hist:parse-failed')
      if any(s[0] == 'import' for s in stmts):
        self.labels.add('hist:import-stmt')
      return out
    if k == 'bind':
      _, sc, fn, pa, vi, mode = op
      scope = SCOPES[sc % len(SCOPES)]
      name = FNS[fn % len(FNS)]
      param = PARAMS[pa % len(PARAMS)]
      mode %= 5
      if mode == 3:
        name = 'c20m.nope'
      if mode == 4:
        param = 'zz'
      key = (scope, name, param) if mode == 1 else scoped(scope, name) + '.' + param
      val = mkval(vi)
      self.labels.add('hist:bind')
      return self.attempt(lambda: gin.bind_parameter(key, val))
    if k == 'worker':
      # the wrapped op runs on the long-lived worker thread (sequentially; the result comes back)
      inner = op[1]
      while inner[0] == 'worker':
        inner = inner[1]
      self.labels.add('hist:in-worker')
      if inner[0] in ('use_singleton', 'single_api'):
        self.labels.add('hist:in-worker-singleton')
      return worker().do(lambda: self.run(inner))
    if k == 'hook':
      desc = list(op[1:5])
      out = self.attempt(lambda: (gin.config.register_finalize_hook(make_hook(desc)), None)[1])
      if out[0] == 'ok':
        self.hooks.append(desc)
        self.labels.add('hist:hook-registered')
      return out
    if k == 'flaky':
      # programmatic binding of a Flaky object, then the call that puts it in the operative record
      # mode 0: bind only; 1: bind + call; 2: bind + call, and the repr breaks right afterwards
      _, sc, fn, pa, mode = op
      # mode 3: as 2, then operative_config_str() is read and expected to fail
      mode = int(mode) % 4
      call_it = mode >= 1
      scope = SCOPES[sc % len(SCOPES)]
      name = FNS[fn % len(FNS)]
      key = scoped(scope, name) + '.' + PARAMS[pa % len(PARAMS)]

      def bind_and_call():
        gin.bind_parameter(key, Flaky())
        if call_it:
          with gin.config_scope(scope):
            return WRAPPERS[name]()
        return None
      out = self.attempt(bind_and_call)
      if out[0] == 'ok':
        self.labels.add('hist:flaky-bound')
        if call_it:
          self.n_calls += 1
          self.flaky_called = True
          if mode >= 2:
            self.run(['break_repr'])
          if mode == 3:
            self.run(['oper'])
      return out
    if k == 'oper':
      # a read of the operative config on its own; with a recorded object whose repr raises this
      # is a FAILED operation (and must leave nothing behind that hampers the clear)
      out = self.attempt(lambda: ADDR.sub('0x', gin.operative_config_str()))
      self.labels.add('hist:operative-read-ok' if out[0] == 'ok' else 'hist:operative-read-failed')
      return out
    if k == 'break_repr':
      BROKEN[0] = True
      self.labels.add('hist:repr-broken')
      if self.flaky_called:
        self.labels.add('hist:flaky-in-operative-record-then-broken')
      return ['ok', None]
    if k == 'unlock_bind':
      _, sc, fn, pa, vi = op
      key = scoped(SCOPES[sc % len(SCOPES)], FNS[fn % len(FNS)]) + '.' + PARAMS[pa % len(PARAMS)]

      def unlock_bind():
        with gin.unlock_config():
          gin.bind_parameter(key, mkval(vi))
      self.labels.add('hist:unlock')
      return self.attempt(unlock_bind)
    if k == 'call':
      _, sc, fn = op
      scope = SCOPES[sc % len(SCOPES)]
      w = WRAPPERS[FNS[fn % len(FNS)]]

      def call():
        with gin.config_scope(scope):
          return w()
      out = self.attempt(call)
      if out[0] == 'ok':
        self.n_calls += 1
      return out
    if k == 'finalize':
      out = self.attempt(gin.finalize)
      if out[0] == 'ok':
        self.labels.add('hist:finalize')
      return out
    if k == 'const':
      _, ni, vi, interactive = op
      name = CONST_PICK[ni % len(CONST_PICK)]
      obj = mkval(vi)

      def define():
        if interactive:
          with gin.config.interactive_mode():
            gin.constant(name, obj)
        else:
          gin.constant(name, obj)
      out = self.attempt(define)
      self.note_const(name, vi, obj, out[0] == 'ok', interactive)
      return out
    if k == 'const_block':
      # several definitions inside ONE interactive_mode() block; a failing one ends the block
      done = []

      def block():
        with gin.config.interactive_mode():
          for ni, vi in op[1]:
            name = CONST_PICK[ni % len(CONST_PICK)]
            obj = mkval(vi)
            try:
              gin.constant(name, obj)
            except Exception:
              self.note_const(name, vi, obj, False, True)
              raise
            self.note_const(name, vi, obj, True, True)
            done.append(name)
        return done
      return self.attempt(block)
    if k == 'enum':
      # constants_from_enum on a long-lived enum class (same class object before/after the clear)
      _, ei, mi, interactive = op
      cls = ENUMS[ei % len(ENUMS)]
      mod = EMODS[mi % len(EMODS)]

      def generate():
        if interactive:
          with gin.config.interactive_mode():
            gin.constants_from_enum(cls, module=mod)
        else:
          gin.constants_from_enum(cls, module=mod)
      out = self.attempt(generate)
      self.labels.add('hist:enum-ok' if out[0] == 'ok' else 'hist:enum-rejected')
      for member in cls:
        full = '%s.%s.%s' % (mod or cls.__module__, cls.__name__, member.name)
        if out[0] == 'ok':
          self.note_const(full, '%s.%s' % (cls.__name__, member.name), member, True, interactive)
        elif full not in self.defined:
          # rejected half-way: members defined before the rejection exist (exact-name query)
          try:
            there = gin.query_parameter(full) is member
          except Exception:  # pylint: disable=broad-except
            there = False
          if there:
            self.note_const(full, '%s.%s' % (cls.__name__, member.name), member, True, interactive)
      return out
    if k == 'pfile':
      # parse_config_file of a real file (optionally including a second one); the op writes every
      # file it uses, so it means the same in a cleared and in a fresh process
      _, pi, stmts, fault, inc = op
      lines = render_lines(stmts, fault)
      if inc is not None:
        incpath = write_file(INCS[inc[0] % len(INCS)], render_lines(inc[1], inc[2]))
        lines.insert(0, "include '%s'" % incpath)
      main = write_file(MAINS[pi % len(MAINS)], lines)
      out = self.attempt(lambda: (gin.parse_config_file(main), None)[1])
      if out[0] == 'ok':
        self.labels.add('hist:pfile-ok')
      else:
        self.labels.add('hist:pfile-failed')
        self.failed_mains.add(MAINS[pi % len(MAINS)])
        if inc is not None and inc[2] is not None:
          self.labels.add('hist:pfile-failed-with-faulty-include')
      return out
    if k == 'use_singleton':
      # compound: constructor + a binding that references the singleton + the call that caches it
      _, ki, sc, fn, pa, csc = op
      key = KEYS[ki % len(KEYS)]
      scope = SCOPES[sc % len(SCOPES)]
      fn %= len(FNS) - 1
      name = FNS[fn]
      text = ('%s/gin.singleton.constructor = @%s\n%s.%s = @%s/gin.singleton()\n' %
              (key, scoped(SCOPES[csc % len(SCOPES)], 'c20m.Ctor'), scoped(scope, name),
               PARAMS[pa % len(PARAMS)], key))

      def use():
        gin.parse_config(text)
        with gin.config_scope(scope):
          return WRAPPERS[name]()
      out = self.attempt(use)
      if out[0] == 'ok':
        self.n_calls += 1
      return out
    if k == 'single_api':
      _, ki, with_ctor = op
      key = KEYS[ki % len(KEYS)]
      return self.attempt(lambda: gin.config.singleton_value(key, W_CTOR if with_ctor else None))
    if k == 'query':
      _, sc, fn, pa = op
      key = scoped(SCOPES[sc % len(SCOPES)], FNS[fn % len(FNS)]) + '.' + PARAMS[pa % len(PARAMS)]
      return self.attempt(lambda: gin.query_parameter(key))
    if k == 'clookup':
      _, li, via = op
      name = LOOKUPS[li % len(LOOKUPS)]
      if via:
        return self.attempt(lambda: macro_lookup(name))
      return self.attempt(lambda: gin.query_parameter(name))
    if k == 'strs':
      return self.attempt(lambda: [ADDR.sub('0x', gin.config_str()),
                                   ADDR.sub('0x', gin.operative_config_str())])
    raise OutOfDomain('op kind ' + str(k))


def macro_lookup(name):
  """Binds c20m.cons.x = %NAME and reports what that means.

  The consumer is only called when NAME resolves as a constant through query_parameter: calling a
  configurable whose binding is an *unbound macro* fails and leaves an entry without a value in
  the operative record, after which operative_config_str() raises KeyError until the next clear
  (a C07 matter) - which would blind the rest of the observation script on both sides.
  """
  gin.parse_config('c20m.cons.x = %' + name)
  bound = gin.query_parameter('c20m.cons.x')
  try:
    gin.query_parameter(name)
  except Exception:  # pylint: disable=broad-except
    return ['bound-not-called', ADDR.sub('0x', repr(bound))]
  return ['called', _cons()]


def snapshot(desc, tag, probing):
  """The fixed part of the observation script.  Returns a list of [what, outcome]."""
  out = []

  def rec(what, fn):
    try:
      res = ['ok', desc.d(fn())]
    except Exception as e:  # pylint: disable=broad-except
      res = ['exc', exc_name(e)]
    out.append([tag + ':' + what, res])

  def strings():
    rec('config_is_locked', gin.config_is_locked)
    rec('current_scope_str', gin.current_scope_str)
    rec('config_str', lambda: ADDR.sub('0x', gin.config_str()))
    rec('config_str+prov', lambda: ADDR.sub('0x', gin.config_str(show_provenance=True)))
    rec('operative_config_str', lambda: ADDR.sub('0x', gin.operative_config_str()))
    rec('operative_config_str+prov',
        lambda: ADDR.sub('0x', gin.operative_config_str(show_provenance=True)))

  strings()
  for name in FNS + ['c20m.cons', 'c20m.req']:
    rec('get_configurable ' + name, lambda: gin.get_configurable(name) is not None)
  for name in FNS:
    rec('get_configurable-is-wrapper ' + name,
        lambda: gin.get_configurable(name) is WRAPPERS[name])
  for scope in SCOPES:
    for name in FNS:
      rec('get_bindings ' + scoped(scope, name), lambda: gin.get_bindings(scoped(scope, name)))
      for param in PARAMS:
        key = scoped(scope, name) + '.' + param
        rec('query ' + key, lambda: gin.query_parameter(key))
  for m in MACROS + ['X', 'Y']:
    rec('query-macro ' + m, lambda: gin.query_parameter(m + '/gin.macro.value'))
  for key in KEYS:
    rec('query ' + key + '/gin.singleton.constructor',
        lambda: gin.query_parameter(key + '/gin.singleton.constructor'))
    rec('singleton_value ' + key, lambda: gin.config.singleton_value(key))
    rec('worker: singleton_value ' + key,
        lambda: worker().do(lambda: gin.config.singleton_value(key)))
  for name in LOOKUPS:
    rec('query-constant ' + name, lambda: gin.query_parameter(name))
  rec('REQUIRED-identity', lambda: gin.query_parameter('gin.REQUIRED') is gin.REQUIRED)
  if probing:
    # These change the configuration (identically on both sides).
    rec('call req', _req)
    rec('worker: call c20m.g', lambda: worker().do(W_G))
    for scope in SCOPES:
      for name in FNS:
        def call():
          with gin.config_scope(scope):
            return WRAPPERS[name]()
        rec('call ' + scoped(scope, name), call)
    for name in LOOKUPS:
      rec('%' + name, lambda: macro_lookup(name))
    rec('reset cons.x', lambda: gin.parse_config('c20m.cons.x = 0'))   # leave no dangling macro
    # Every pool path is parsed as a (correct) file including a (correct) file: whatever was done
    # with these paths before the clear, a fresh process just parses them.
    for n, mname in enumerate(MAINS if tag == 'A' else []):   # right after the clear only
      def fileprobe():
        incpath = write_file(INCS[n % len(INCS)], ['c20m.cons.x = 1'])
        main = write_file(mname, ["include '%s'" % incpath, 'c20m.cons.x = 0'])
        gin.parse_config_file(main)
      rec('parse_config_file ' + mname, fileprobe)
    strings()
    if tag == 'Z':
      # Last of all: the constants of every pool enum can be generated under a module name no
      # history uses, exactly as in a fresh process.
      for cls in ENUMS:
        rec('constants_from_enum zz.' + cls.__name__,
            lambda: (gin.constants_from_enum(cls, module='zz'), None)[1])
        for member in cls:
          full = 'zz.%s.%s' % (cls.__name__, member.name)
          rec('query-constant ' + full, lambda: gin.query_parameter(full))
      rec('%zz.Color.RED', lambda: macro_lookup('zz.Color.RED'))
  return out


ENCLOSING = ['s', 'u', 's/t']      # scopes of the `with config_scope(...)` blocks around the clear
CLEAR_CALLS = ['kw', 'pos', 'default']


def clear_scopes(case):
  return [ENCLOSING[i % len(ENCLOSING)] for i in (case.get('clear_scope') or [])][:2]


def call_clear(case):
  """clear_config spelled as the case says: keyword, positional, or no argument (False only)."""
  cc = bool(case['clear_constants'])
  how = case.get('clear_call') or 'kw'
  if how == 'default' and not cc:
    return gin.clear_config()
  if how in ('pos', 'default'):
    return gin.clear_config(cc)
  return gin.clear_config(clear_constants=cc)


def observe(case, seeded, first=None):
  """Enters the case's 0-2 nested config_scope blocks, runs `first` (the clear, on the history
  side; nothing on the fresh side), the observation script inside the blocks, leaves them, and
  looks at the scope stack and a few calls afterwards."""
  stack = contextlib.ExitStack()
  for scope in clear_scopes(case):
    stack.enter_context(gin.config_scope(scope))
  if first is not None:
    first()
  BROKEN[0] = False       # same harness state on both sides when the observation starts
  desc = Describer(seeded)
  out = snapshot(desc, 'A', True)
  m = Machine(desc)
  for i, op in enumerate(case['follow']):
    out.append(['follow[%d] %s' % (i, op[0]), m.run(op)])
  out.extend(snapshot(desc, 'Z', True))

  def rec(what, fn):
    try:
      res = ['ok', desc.d(fn())]
    except Exception as e:  # pylint: disable=broad-except
      res = ['exc', exc_name(e)]
    out.append(['T:' + what, res])

  rec('leave config_scope blocks', stack.close)
  rec('current_scope', lambda: list(gin.current_scope()))
  rec('current_scope_str', gin.current_scope_str)
  for scope in ('', 's'):
    def call():
      with gin.config_scope(scope):
        return W_F()
    rec('call ' + scoped(scope, 'c20m.f'), call)
  rec('operative_config_str', lambda: ADDR.sub('0x', gin.operative_config_str()))
  # Last: finalize (built-in and program-registered hooks run; may fail or be locked already,
  # identically on both sides) and what the hooks contributed.
  rec('finalize', gin.finalize)
  rec('config_is_locked', gin.config_is_locked)
  rec('config_str', lambda: ADDR.sub('0x', gin.config_str()))
  rec('call c20m.f', W_F)
  rec('worker: call s/c20m.f', lambda: worker().do(call))
  return out, m


# ----------------------------------------------------------------------------- the two sides
def history_side(case):
  """Runs in a forked grandchild: history, clear_config, observation."""
  EPOCH[0] = 'history'
  m = Machine(None)
  for op in case['history']:
    m.run(op)
  labels = set(m.labels)
  if m.n_calls:
    labels.add('hist:call')
  if m.n_failed:
    labels.add('hist:failed-op')
  # What there is to clear, seen through public API only (evidence, not oracle).
  try:
    cs = gin.config_str(show_provenance=True)
    if '\nimport ' in '\n' + cs or '\nfrom ' in '\n' + cs:
      labels.add('pre:imports-recorded')
    if ' = ' in cs:
      labels.add('pre:bindings')
    if '# Set in ' in cs:
      labels.add('pre:parsed-bindings')
  except Exception:  # pylint: disable=broad-except
    labels.add('pre:config_str-raises')
  try:
    if gin.operative_config_str().strip():
      labels.add('pre:operative-nonempty')
  except Exception:  # pylint: disable=broad-except
    labels.add('pre:operative-raises')
    labels.add('pre:operative-nonempty')
  if gin.config_is_locked():
    labels.add('pre:locked')
  for key in KEYS:
    try:
      gin.config.singleton_value(key)
      labels.add('pre:singleton-cached')
    except ValueError:
      pass
  survivors = [[n, m.defined[n][0]] for n in m.order]
  clear_constants = bool(case['clear_constants'])
  cleared = {'exc': None}

  def do_clear():
    # The clear stays on its designated thread (scope stacks and some caches are per thread); a
    # clear that does not return becomes a violation instead of a stuck child: SIGALRM interrupts
    # a main-thread clear, a bounded wait covers a worker-thread clear.
    def alarm(signum, frame):
      raise ClearHung()
    old = signal.signal(signal.SIGALRM, alarm)
    signal.setitimer(signal.ITIMER_REAL, CLEAR_TIMEOUT_S)
    try:
      if case.get('clear_thread') == 'worker':
        res = worker().do(lambda: call_clear(case), CLEAR_TIMEOUT_S - 2)
      else:
        res = call_clear(case)
      if res is not None:
        cleared['exc'] = 'returned %r' % (res,)
    except (ClearHung, WorkerStuck):
      signal.setitimer(signal.ITIMER_REAL, 0)
      raise Violation('clear-did-not-return',
                      'clear_config(clear_constants=%s) on the %s thread had not returned after '
                      '%ss; labels of the history: %s' %
                      (clear_constants, case.get('clear_thread') or 'main', CLEAR_TIMEOUT_S - 2,
                       sorted(labels)))
    except Exception as e:  # pylint: disable=broad-except
      cleared['exc'] = '%s: %s' % (type(e).__name__, str(e)[:300])
    finally:
      signal.setitimer(signal.ITIMER_REAL, 0)
      signal.signal(signal.SIGALRM, old)
    EPOCH[0] = 'obs'
  seeded = [] if clear_constants else [m.defined[n][1] for n in m.order
                                       if isinstance(m.defined[n][1], Token)]
  obs, fm = observe(case, seeded, do_clear)
  clear_exc = cleared['exc']
  labels.add('clear:inside-%d-scopes' % len(clear_scopes(case)))
  labels.add('clear:call-' + (case.get('clear_call') or 'kw'))
  labels.add('clear:on-' + (case.get('clear_thread') or 'main') + '-thread')
  if 'hist:in-worker-singleton' in m.labels and case.get('clear_thread') != 'worker':
    labels.add('worker:singleton-in-worker-cleared-from-main')
  if m.hooks and any(op[0] == 'finalize' for op in case['follow']):
    labels.add('hook:registered-then-finalize-after-clear')
  labels.update(l.replace('hist:', 'follow:') for l in fm.labels)
  if 'hist:enum-ok' in m.labels and any(op[0] == 'enum' for op in case['follow']):
    labels.add('enum:generated-before-and-after-clear')
  if any(op[0] == 'pfile' and MAINS[op[1] % len(MAINS)] in m.failed_mains for op in case['follow']):
    labels.add('pfile:path-parsed-again-after-clear')
  z_oper = [o for w, o in obs if w == 'Z:operative_config_str']
  labels.add('obs:final-operative-readable' if z_oper and z_oper[-1][0] == 'ok'
             else 'obs:final-operative-unreadable')
  nontrivial = bool(m.n_calls) and bool(m.n_failed or 'hist:finalize' in m.labels) and bool(m.order)
  return ok(sorted(labels), nontrivial, survivors=survivors, clear_exc=clear_exc, obs=obs,
            hooks=m.hooks)


def reference_side(case, survivors, hooks=()):
  """Runs in the forked child itself, which is still pristine."""
  EPOCH[0] = 'obs'
  for desc in hooks:            # "the same registrations": configurables and finalize hooks
    gin.config.register_finalize_hook(make_hook(desc))
  seeded = []
  if not case['clear_constants'] and survivors:
    with gin.config.interactive_mode():
      for name, vi in survivors:
        obj = survivor_value(vi)
        gin.constant(name, obj)
        if isinstance(obj, Token):
          seeded.append(obj)
  obs, _ = observe(case, seeded)
  return obs


def first_diff(a, b):
  for i, (x, y) in enumerate(zip(a, b)):
    if x != y:
      return i, x, y
  if len(a) != len(b):
    return min(len(a), len(b)), 'length %d' % len(a), 'length %d' % len(b)
  return None


def _validate(case):
  if not isinstance(case, dict) or not isinstance(case.get('history'), list) \
      or not isinstance(case.get('follow'), list):
    raise OutOfDomain('malformed case')


def check_case(case):
  _validate(case)
  # Pristine-state guard: this child must not have touched Gin yet.
  if gin.config_is_locked() or gin.config_str() or gin.operative_config_str():
    return {'status': 'inconclusive', 'reason': 'runner process is not pristine'}
  TMP[0] = tempfile.mkdtemp(prefix='c20_')     # one directory: both sides see the same paths
  try:
    got = iso.run(history_side, case)
    if got['status'] != 'ok':
      return got                     # violation (unexpected exception) / ood / inconclusive
    info = got['info']
    shutil.rmtree(TMP[0], ignore_errors=True)  # the fresh process starts without those files
    os.makedirs(TMP[0])
    ref = json.loads(json.dumps(reference_side(case, info['survivors'], info.get('hooks') or ())))
  finally:
    shutil.rmtree(TMP[0], ignore_errors=True)
  obs = info['obs']
  diff = first_diff(obs, ref)
  n_diff = sum(1 for x, y in zip(obs, ref) if x != y)
  if info['clear_exc'] is not None:
    extra = ''
    if diff is not None:
      extra = ('; afterwards %d observations differ from a fresh process, first: %s -> cleared '
               'process %s, fresh process %s' % (n_diff, diff[1][0], json.dumps(diff[1][1])[:300],
                                                 json.dumps(diff[2][1])[:300]))
    raise Violation('clear_config-raised', 'clear_config(clear_constants=%s) %s%s' %
                    (case['clear_constants'], info['clear_exc'], extra))
  if diff is not None:
    what = diff[1][0] if isinstance(diff[1], list) else 'transcript'
    kind = what.split(':', 1)[-1].split(' ')[0]
    raise Violation('differs-from-fresh:' + kind,
                    '%d observations differ; first at #%d %s: cleared process %s, fresh process %s '
                    '(surviving constants expected: %s)' %
                    (n_diff, diff[0], what, json.dumps(diff[1])[:600], json.dumps(diff[2])[:600],
                     info['survivors'] if not case['clear_constants'] else 'none'))
  sweep = case.get('origin') == 'sweep'
  # Sweep cases share one fixed prefix; their labels are kept apart so that the generator-health
  # floors measure the Hypothesis search only.
  labels = {'origin:sweep'} if sweep else set(got['labels']) | {'origin:search'}
  pre = 'sweep:' if sweep else ''
  labels.add(pre + ('clear:constants-dropped' if case['clear_constants'] else 'clear:constants-kept'))
  if info['survivors']:
    labels.add(pre + 'survivors>=1')
    if not case['clear_constants']:
      labels.add(pre + 'survivors-kept>=1')
  if got['nontrivial']:
    labels.add(pre + 'nontrivial')
  return ok(labels, got['nontrivial'])


# ----------------------------------------------------------------------------- generation
_i = st.integers(0, 19)
_b = st.booleans()


def _val(depth=0):
  base = st.one_of(
      st.tuples(st.just('int'), st.integers(0, 9)),
      st.tuples(st.just('str'), st.integers(0, 2)),
      st.tuples(st.just('ref'), _i, _i, _b),
      st.tuples(st.just('mac'), _i),
      st.tuples(st.just('sing'), _i),
      st.tuples(st.just('req')),
  ).map(list)
  if depth:
    return base
  return base | st.tuples(st.just('lst'), st.lists(_val(1), min_size=1, max_size=2)).map(list)


def _stmt():
  return st.one_of(
      st.tuples(st.just('bind'), _i, _i, _i, _val()),
      st.tuples(st.just('bind'), _i, _i, _i, _val()),
      st.tuples(st.just('macro'), _i, _i),
      st.tuples(st.just('import'), _i),
      st.tuples(st.just('sctor'), _i, _i),
      st.tuples(st.just('block'), _i, _i, _i, _i),
  ).map(list)


def _op():
  fault = st.none() | st.none() | st.tuples(_i, _i).map(list)
  pfault = st.none() | st.tuples(_i, _i).map(list)
  return st.one_of(
      st.tuples(st.just('parse'), st.lists(_stmt(), min_size=1, max_size=4), fault,
                st.sampled_from([False, False, False, True])),
      st.tuples(st.just('parse'), st.lists(_stmt(), min_size=1, max_size=4), fault,
                st.just(False)),
      st.tuples(st.just('bind'), _i, _i, _i, _i, st.sampled_from([0, 0, 1, 1, 3, 4])),
      st.tuples(st.just('unlock_bind'), _i, _i, _i, _i),
      st.tuples(st.just('call'), _i, _i),
      st.tuples(st.just('call'), _i, _i),
      st.tuples(st.just('finalize')),
      st.tuples(st.just('const'), _i, _i, _b),
      st.tuples(st.just('const'), _i, _i, _b),
      st.tuples(st.just('const_block'), st.lists(st.tuples(_i, _i).map(list), min_size=1, max_size=3)),
      st.tuples(st.just('enum'), _i, _i, _b),
      st.tuples(st.just('hook'), _i, _i, _i, _i),
      st.tuples(st.just('worker'), st.one_of(
          st.tuples(st.just('use_singleton'), _i, _i, _i, _i, _i),
          st.tuples(st.just('use_singleton'), _i, _i, _i, _i, _i),
          st.tuples(st.just('single_api'), _i, _b),
          st.tuples(st.just('call'), _i, _i),
          st.tuples(st.just('parse'), st.lists(_stmt(), min_size=1, max_size=2), st.none(),
                    st.just(False))).map(list)),
      st.tuples(st.just('flaky'), _i, _i, _i, st.sampled_from([1, 1, 2, 2, 3, 3, 0])),
      st.tuples(st.just('oper')),
      st.tuples(st.just('break_repr')),
      st.tuples(st.just('pfile'), _i, st.lists(_stmt(), min_size=1, max_size=3), pfault,
                st.none() | st.tuples(_i, st.lists(_stmt(), min_size=0, max_size=2),
                                      pfault | st.tuples(_i, _i).map(list)).map(list)),
      st.tuples(st.just('use_singleton'), _i, _i, _i, _i, _i),
      st.tuples(st.just('single_api'), _i, _b),
      st.tuples(st.just('query'), _i, _i, _i),
      st.tuples(st.just('clookup'), _i, _b),
      st.tuples(st.just('strs')),
  ).map(list)


def strategy():
  return st.fixed_dictionaries({
      'history': st.lists(_op(), min_size=1, max_size=6) | st.lists(_op(), min_size=5, max_size=14),
      'clear_constants': _b,
      'clear_scope': st.just([]) | st.lists(st.integers(0, 2), min_size=1, max_size=2),
      'clear_call': st.sampled_from(CLEAR_CALLS),
      'clear_thread': st.sampled_from(['main', 'main', 'worker']),
      'follow': st.lists(_op(), min_size=0, max_size=8),
  })


# ----------------------------------------------------------------------------- bounded sweep
def sweep_consts(tier):
  import itertools  # pylint: disable=g-import-not-at-top
  kmax = 3 if tier == 'thorough' else 2
  prefix = [['parse', [['import', 0], ['bind', 0, 0, 0, ['int', 1]]], None, False],
            ['use_singleton', 1, 0, 1, 0, 0], ['call', 0, 0], ['finalize']]
  follow = [['const', 0, 1, False], ['use_singleton', 0, 0, 0, 0, 0]]
  plain = [(ni, inter) for ni in range(len(CONSTS)) for inter in (False, True)]
  gin_ns = [(CONST_PICK.index(n), inter) for n in GIN_CONSTS[:3] for inter in (False, True)]
  cases = []
  seqs = []
  for k in range(1, kmax + 1):
    seqs.extend(itertools.product(plain, repeat=k))
  # the gin.* names: among themselves up to length 2 (quick), mixed with the plain names (thorough)
  both = plain + gin_ns
  seqs.extend((a,) for a in gin_ns)
  seqs.extend((a, b) for a in both for b in both
              if (a in gin_ns or b in gin_ns) and (tier == 'thorough' or (a in gin_ns and b in gin_ns)))
  for seq in seqs:
    # operands index CONST_PICK; values are two distinct Tokens
    hist = prefix + [['const', ni, 7 + (j % 2), inter] for j, (ni, inter) in enumerate(seq)]
    for cc in (False, True):
      cases.append({'history': hist, 'clear_constants': cc, 'follow': follow, 'origin': 'sweep'})
  for ni, inter in both:
    # one constant whose value is the gin.REQUIRED sentinel itself
    for cc in (False, True):
      cases.append({'history': prefix + [['const', ni, 18, inter]], 'clear_constants': cc,
                    'follow': follow, 'origin': 'sweep'})
  for n, c in enumerate(cases):
    c['clear_call'] = CLEAR_CALLS[n % 3]
    c['clear_scope'] = [n % 3] if n % 4 == 3 else []
  return cases, True


SWEEPS = {'constant-sequences': sweep_consts}


# ----------------------------------------------------------------------------- known findings
def _interactive_suffix_constant(case, verdict):
  """DESIGN 6 row 14: clear_config raised because a constant defined in interactive mode is a
  dotted suffix of an earlier one (or of gin.REQUIRED).  Only needed if the repair is not taken."""
  if verdict.get('kind') != 'clear_config-raised' or case.get('clear_constants'):
    return False
  seen = ['gin.REQUIRED']
  hit = False
  for op in case['history']:
    if op[0] == 'const':
      defs, inter = [(op[1], op[2])], op[3]
    elif op[0] == 'const_block':
      defs, inter = [tuple(d) for d in op[1]], True
    else:
      continue
    for ni, _ in defs:
      name = CONST_PICK[ni % len(CONST_PICK)]
      if inter and any(n.endswith('.' + name) for n in seen):
        hit = True
      seen.append(name)
  return hit


KNOWN = {'c20_interactive_suffix_constant': _interactive_suffix_constant}
