"""C08 — names resolve by unique dotted suffix, identically through every API.

Layer 'map': histories of insert / pop / copy / clear / query on SelectorMap objects against a
plain-list suffix model (in-process).  Layer 'api': probes and constants registered under
generated module paths, every unambiguous spelling used through every public API (forked).
"""
import copy as copy_mod
import itertools

from hypothesis import strategies as st

from vf import ginenv
from vf.core import OutOfDomain, Violation, ok, require

gin = ginenv.import_gin()
from gin import selector_map  # pylint: disable=g-import-not-at-top

ID = 'C08'
LEVEL = 'exploration'
RULE = ('map layer: Hypothesis op lists (set/pop/copy/clear/query, <=30 ops) over dotted names '
        'from components {a,b,c,A,a1,_x}, checked after every op against a list-of-names suffix '
        'model on every live map (original and copies); bounded sweep of all name sets of size '
        '<=2 (quick) / <=3 (thorough) over {a,b,c} depth<=3 with all 39 queries. api layer: 2-6 '
        'probes/constants registered under generated module paths, ops through bind(str/tuple)/'
        'parse(flat/block)/query/get_bindings/get_configurable/@ref/finalize-hooks with every '
        'spelling. Non-trivial = name set has a proper-suffix pair or a shared last component '
        'AND the history has a removal or a copy (map), or >=2 distinct spellings of one '
        'parameter were used through >=2 different APIs, or a configurable was registered after spellings had been used (api). Distinct = distinct case JSON.')
ASSUMPTIONS = ['query strings are dotted identifiers; the internal terminal marker "$" is not a '
               'name and is never generated',
               'ambiguity / unknown are accepted as ValueError or LookupError']
BUDGET = {'quick': (4, 400), 'thorough': (16, 4000)}
FLOORS = {'map:nontrivial': (0.05, 'layer:map'), 'api:nontrivial': (0.03, 'layer:api'),
          'api:late-registration': (0.1, 'layer:api')}
TECHNIQUE = ('model-based property testing: Hypothesis-generated operation histories vs a '
             'list-of-names suffix model, plus a bounded exhaustive sweep of small name sets')
LEVEL_TEXT = ('Generated histories of SelectorMap operations (insert, overwrite, pop, copy, clear, '
              'query) are compared after every step, on every live map, with a naive suffix '
              'model, including minimality of minimal_selector and independence of copies; all '
              'name sets up to size 2/3 over a 39-name universe are enumerated exhaustively. At '
              'API level every spelling of a parameter is driven through every binding/query/'
              'reference/hook path against the same model. Exploration, not proof: it shows no '
              'counter-example exists within the generated space.')
LEVEL_NOTE = ('Trusted: the 10-line suffix model; CPython dict semantics. Names are drawn from a '
              'small alphabet (6 components, depth<=4) on purpose so that suffix collisions are '
              'frequent; longer names are assumed to behave alike.')


def ISOLATE(case):  # pylint: disable=invalid-name
  return case.get('layer') == 'api'


# ----------------------------------------------------------------------------- model
def m_match(names, q):
  if q in names:
    return [q]
  return sorted(n for n in names if n.endswith('.' + q))


def suffixes(name):
  parts = name.split('.')
  return ['.'.join(parts[i:]) for i in range(len(parts))]


def valid(q):
  return bool(selector_map.SELECTOR_RE.match(q))


# ----------------------------------------------------------------------------- map layer
COMPS = ['a', 'b', 'c', 'A', 'a1', '_x']
_comp = st.sampled_from(COMPS[:3]) | st.sampled_from(COMPS)
_name = st.lists(_comp, min_size=1, max_size=4).map('.'.join)
_bad = st.sampled_from(['', '.', 'a.', '.a', 'a..b', 'a b', '1a', 'a/b', 'a.b.', '-', 'a.1', '$', '$.a',
                        '$.a.b', 'a.$', '$.b.a', '$.c'])
_idx = st.integers(0, 7)


def _map_ops():
  op = st.one_of(
      st.tuples(st.just('set'), _idx, _name, st.integers(0, 9)),
      st.tuples(st.just('set'), _idx, _name, st.integers(0, 9)),
      st.tuples(st.just('set_existing'), _idx, _idx, st.integers(0, 9)),
      st.tuples(st.just('set_bad'), _idx, _bad),
      st.tuples(st.just('pop'), _idx, _idx),
      st.tuples(st.just('pop'), _idx, _idx),
      st.tuples(st.just('pop_missing'), _idx, _name),
      st.tuples(st.just('copy'), _idx, st.sampled_from(['copy', 'copy.copy'])),
      st.tuples(st.just('clear'), _idx),
      st.tuples(st.just('query'), _idx, _name | _bad),
  ).map(list)
  return st.lists(op, min_size=1, max_size=30)


def check_map_state(real, model, extra_queries=()):
  names = sorted(model)
  require(len(real) == len(model), 'len', lambda: f'{len(real)} != {len(model)} for {names}')
  require(dict(real.items()) == model, 'items', lambda: f'{dict(real.items())} != {model}')
  queries = set(extra_queries)
  for n in names:
    queries.update(suffixes(n))
  for q in sorted(queries):
    exp = m_match(names, q) if valid(q) else []
    try:
      got = sorted(real.matching_selectors(q))
    except (ValueError, KeyError):
      if valid(q):
        raise Violation('matching_selectors-raised', f'query {q!r} on {names}')
      continue
    require(got == exp, 'matching_selectors',
            lambda: f'query {q!r} on {names}: got {got}, model {exp}')
    if not valid(q):
      continue
    sentinel = object()
    try:
      gm = real.get_match(q, sentinel)
      raised = False
    except KeyError:
      raised = True
    if len(exp) > 1:
      require(raised, 'ambiguity-not-rejected', f'get_match({q!r}) on {names} returned a value')
    elif len(exp) == 1:
      require(not raised and gm == model[exp[0]], 'get_match',
              lambda: f'get_match({q!r}) on {names}')
    else:
      require(not raised and gm is sentinel, 'unknown-not-default',
              lambda: f'get_match({q!r}) on {names} -> {gm!r}')
    am = real.get_all_matches(q)
    require(sorted(am) == sorted(model[n] for n in exp), 'get_all_matches',
            lambda: f'{q!r} on {names}: {am}')
  for n in names:
    require(n in real and real[n] == model[n] and real.get(n) == model[n], 'getitem', n)
    m = real.minimal_selector(n)
    require(m in suffixes(n), 'minimal-not-a-suffix', lambda: f'{m!r} for {n!r} in {names}')
    back = sorted(real.matching_selectors(m))
    require(back == [n], 'minimal-does-not-resolve',
            lambda: f'minimal_selector({n!r})={m!r} resolves to {back} in {names}')
    for s in suffixes(m)[1:]:
      require(m_match(names, s) != [n], 'minimal-not-minimal',
              lambda: f'minimal_selector({n!r})={m!r} but shorter {s!r} resolves uniquely; '
                      f'names={names}')


ALL39 = ['.'.join(t) for d in (1, 2, 3) for t in itertools.product('abc', repeat=d)]


def check_map(case):
  maps = [(selector_map.SelectorMap(), {})]
  labels = set()
  copied = False
  for op in case['ops']:
    kind = op[0]
    real, model = maps[op[1] % len(maps)]
    if kind == 'set':
      real[op[2]] = op[3]
      model[op[2]] = op[3]
      if copied:
        labels.add('mutate-after-copy')
    elif kind == 'set_existing':
      if model:
        n = sorted(model)[op[2] % len(model)]
        real[n] = op[3]
        model[n] = op[3]
        labels.add('overwrite')
    elif kind == 'set_bad':
      try:
        real[op[2]] = 0
        raise Violation('invalid-selector-accepted', repr(op[2]))
      except ValueError:
        labels.add('set-bad')
    elif kind == 'pop':
      if model:
        n = sorted(model)[op[2] % len(model)]
        got = real.pop(n)
        require(got == model.pop(n), 'pop-value', n)
        labels.add('pop')
        if copied:
          labels.add('mutate-after-copy')
    elif kind == 'pop_missing':
      if op[2] not in model:
        try:
          real.pop(op[2])
          raise Violation('pop-missing-no-error', op[2])
        except KeyError:
          labels.add('pop-missing')
    elif kind == 'copy':
      new = real.copy() if op[2] == 'copy' else copy_mod.copy(real)
      require(isinstance(new, selector_map.SelectorMap) and new is not real, 'copy-type', '')
      maps.append((new, dict(model)))
      copied = True
      labels.add('copy')
    elif kind == 'clear':
      real.clear()
      model.clear()
      labels.add('clear')
    elif kind == 'query':
      labels.add('query')
    elif kind == 'fullquery':
      pass
    extra = ALL39 if kind == 'fullquery' else ([op[2]] if kind == 'query' else ())
    # every live map is re-checked: a copy and its original must evolve independently
    for r, m in maps:
      check_map_state(r, m, extra)
    for _, m in maps:
      names = sorted(m)
      if any(a != b and a.endswith('.' + b) for a in names for b in names):
        labels.add('suffix-pair')
      lasts = [n.split('.')[-1] for n in names]
      if len(set(lasts)) < len(lasts):
        labels.add('shared-last')
  nt = bool(labels & {'suffix-pair', 'shared-last'}) and bool(labels & {'pop', 'copy'})
  if nt:
    labels.add('map:nontrivial')
  return ok(['map:' + l if ':' not in l else l for l in labels] + ['layer:map'], nt)


def sweep_sets(tier):
  kmax = 3 if tier == 'thorough' else 2
  cases = []
  for k in range(1, kmax + 1):
    for combo in itertools.combinations(ALL39, k):
      ops = [['set', 0, n, i] for i, n in enumerate(combo)]
      ops.append(['fullquery', 0])
      ops.append(['copy', 0, 'copy'])
      ops += [['pop', 0, 0]] * k       # empties the original; the copy must keep everything
      ops.append(['fullquery', 1])
      cases.append({'layer': 'map', 'ops': ops})
  return cases, True


SWEEPS = {'name-sets': sweep_sets}


# ----------------------------------------------------------------------------- api layer
MODS = ['', 'a', 'b', 'a.b', 'b.a', 'c.a.b', 'a.a', 'c']
FNS = ['f', 'g']
SCOPES = ['', 's', 's/t']


@st.composite
def _api_case(draw):
  fulls = draw(st.lists(st.tuples(st.sampled_from(MODS), st.sampled_from(FNS)),
                        min_size=2, max_size=6, unique=True))
  names = [(m + '.' + f) if m else f for m, f in fulls]
  consts = draw(st.lists(st.tuples(st.sampled_from(MODS), st.sampled_from(['K', 'L'])),
                         min_size=0, max_size=4, unique=True))
  cnames = [(m + '.' + k) if m else k for m, k in consts]
  # half of the operands aim at one focus parameter so that several spellings of the same
  # parameter really meet through different APIs
  f_i = st.just(draw(st.integers(0, len(names) - 1))) | st.integers(0, len(names) - 1) | _idx
  f_scope = st.just(draw(st.sampled_from(SCOPES))) | st.sampled_from(SCOPES)
  f_param = st.just(draw(st.sampled_from(['p', 'q']))) | st.sampled_from(['p', 'q'])
  op = st.one_of(
      st.tuples(st.sampled_from(['bind_str', 'bind_tuple', 'parse_flat', 'parse_block',
                                 'parse_skip', 'parse_skip_block']),
                f_i, _idx, f_scope, f_param, st.integers(0, 99)),
      st.tuples(st.sampled_from(['query', 'get_bindings', 'get_configurable', 'ref', 'ref_obj',
                                 'by_object']),
                f_i, _idx, f_scope, f_param),
      st.tuples(st.just('unknown'), st.sampled_from(['z', 'a.z', 'zz.f', 'b', 'a.b']),
                st.sampled_from(['bind_str', 'bind_tuple', 'parse_flat', 'query',
                                 'get_configurable', 'ref'])),
      st.tuples(st.sampled_from(['const_macro', 'const_query']), _idx, _idx),
      st.tuples(st.sampled_from(['const_macro', 'const_query']), st.just(0), _idx),
      st.tuples(st.just('method'), _idx, f_scope, f_param, st.integers(0, 99), _idx),
      st.tuples(st.just('conf_method'), _idx, f_scope, f_param, st.integers(0, 99)),
  ).map(list)
  late = draw(st.lists(st.tuples(st.sampled_from(MODS), st.sampled_from(FNS)), max_size=3,
                       unique=True))
  late = [(m + '.' + f) if m else f for m, f in late if ((m + '.' + f) if m else f) not in names]
  if late:
    op = st.one_of(op, op, op, st.tuples(st.just('register'), _idx).map(list))
  ops = draw(st.lists(op, min_size=1, max_size=14))
  hooks = draw(st.none() | st.tuples(_idx, _idx, _idx, st.sampled_from(SCOPES),
                                     st.sampled_from(['p', 'q']), st.booleans()).map(list))
  return {'layer': 'api', 'names': names, 'late': late, 'consts': cnames, 'ops': ops,
          'hooks': hooks}


@st.composite
def _late_scenario(draw):
  """A spelling is used while unique, then a second configurable with the same suffix is
  registered, then the same spelling is used again (through any API): it must now be rejected
  (or, if the new name equals the spelling, resolve to the new entry)."""
  fn = draw(st.sampled_from(FNS))
  m1, m2 = draw(st.lists(st.sampled_from([m for m in MODS if m]), min_size=2, max_size=2,
                         unique=True))
  first, second = m1 + '.' + fn, draw(st.sampled_from([m2 + '.' + fn, fn]))
  other = draw(st.sampled_from(['g', 'c.h'])) if fn != 'g' else 'c.h'
  names = [first, other]
  n_suffix = len(first.split('.'))
  j = draw(st.integers(1, n_suffix - 1))          # a proper suffix of `first`
  write = st.sampled_from(['bind_str', 'bind_tuple', 'parse_flat', 'parse_block', 'parse_skip',
                           'parse_skip_block'])
  read = st.sampled_from(['query', 'get_bindings', 'get_configurable', 'ref', 'ref_obj'])
  scope = draw(st.sampled_from(SCOPES))
  ops = [[draw(write), 0, j, scope, 'p', 1]]
  if draw(st.booleans()):
    ops.append([draw(read), 0, j, scope, 'p'])
  ops.append(['register', 0])
  for _ in range(draw(st.integers(1, 3))):
    if draw(st.booleans()):
      ops.append([draw(write), 0, j, scope, 'p', draw(st.integers(2, 9))])
    else:
      ops.append([draw(read), 0, j, scope, 'p'])
  return {'layer': 'api', 'names': names, 'late': [second], 'consts': [], 'ops': ops,
          'hooks': None}


@st.composite
def _skip_then_register(draw):
  """A spelling is skipped as unknown (skip_unknown), then a configurable it matches is registered,
  then the very same spelling is used again under skip_unknown: it is known now and must bind."""
  fn = draw(st.sampled_from(FNS))
  m = draw(st.sampled_from([x for x in MODS if x]))
  other = 'zq.' + ('g' if fn != 'g' else 'h')
  late = m + '.' + fn
  j = draw(st.integers(0, len(late.split('.')) - 1))
  kind = draw(st.sampled_from(['parse_skip', 'parse_skip_block']))
  scope = draw(st.sampled_from(SCOPES))
  ops = [[kind, 1, j, scope, 'p', 1], ['register', 0], [kind, 1, j, scope, 'p', 2],
         [draw(st.sampled_from(['query', 'get_bindings', 'get_configurable'])), 1, j, scope, 'p']]
  return {'layer': 'api', 'names': [other], 'late': [late], 'consts': [], 'ops': ops, 'hooks': None}


def strategy():
  return st.one_of(st.builds(lambda ops: {'layer': 'map', 'ops': ops}, _map_ops()), _api_case(),
                   _api_case(), _late_scenario(), _skip_then_register())


def _mk_probe(tag):
  def probe(p='dp', q='dq'):
    return {'who': tag, 'p': p, 'q': q}
  probe.__module__ = None
  probe.__name__ = probe.__qualname__ = tag.split('.')[-1]
  return probe


def _consumer(x=None):
  return x


AMBIG = (ValueError, LookupError)


def check_api(case):
  names = list(case['names'])          # registered so far (grows with 'register' ops)
  late = list(case.get('late', []))
  universe = names + late              # operands index into this fixed list
  labels = set()
  wrappers = {}
  for n in names:
    wrappers[n] = gin.configurable(n)(_mk_probe(n))
  cons = gin.configurable('zzcons.consumer')(_consumer)
  consts = {}
  for i, c in enumerate(case['consts']):
    # falsy values too: a constant that is None / 0 / '' is still a constant
    # (and several constants with ==-equal values -- 0, False, 0.0 -- : a spelling that matches two
    # of them is ambiguous all the same)
    obj = [None, 0, False, ('const', c, i), 0.0, ''][i % 6]
    try:
      gin.constant(c, obj)
      require(not m_match(sorted(consts), c), 'duplicate-constant-accepted',
              lambda: f'{c} while {sorted(consts)} defined')
      consts[c] = obj
    except ValueError:
      # documented: a name that already matches existing constants is a duplicate
      require(bool(m_match(sorted(consts), c)), 'constant-rejected',
              lambda: f'{c} rejected while {sorted(consts)} defined')
  model = {}    # (scope, full name) -> {param: value}
  used = {}     # (scope, full, param) -> set of (api, spelling)
  # a registered method of a registered class: addressed by 'Class.method' spellings or by the
  # function object itself -- one key
  import sys, types  # pylint: disable=g-import-not-at-top,multiple-imports
  hostmod = types.ModuleType('c08.host')
  hostmod.gin = gin
  sys.modules['c08.host'] = hostmod
  src = ('class Trainer:\n  @gin.register\n  def step(self, p="dp", q="dq"):\n'
         '    return {"who": __name__, "p": p, "q": q}\n')
  exec(src, hostmod.__dict__)  # pylint: disable=exec-used
  gin.register(hostmod.Trainer)
  # ... and a class of the same name, with a method of the same name, in another module
  othermod = types.ModuleType('c08.other')
  othermod.gin = gin
  sys.modules['c08.other'] = othermod
  exec(src, othermod.__dict__)  # pylint: disable=exec-used
  gin.register(othermod.Trainer)
  step_obj = hostmod.Trainer.__dict__['step']
  touched = {'refs': False}
  # a class decorated in place with gin.configurable that has a registered method: once the class
  # has been looked up with a scope, the method is addressed through the class name -- and stays so
  confmod = types.ModuleType('c08.conf')
  confmod.gin = gin
  sys.modules['c08.conf'] = confmod
  exec('@gin.configurable\nclass ConfTrainer:\n  @gin.register\n'  # pylint: disable=exec-used
       '  def step(self, p="dp", q="dq"):\n    return (p, q)\n', confmod.__dict__)
  mmodel = {}   # scope -> {param: value}

  def moverlay(scope):
    parts = scope.split('/') if scope else []
    res = {}
    for i in range(len(parts) + 1):
      res.update(mmodel.get('/'.join(parts[:i]), {}))
    return res

  def overlay(scope, full):
    parts = scope.split('/') if scope else []
    res = {}
    for i in range(len(parts) + 1):
      res.update(model.get(('/'.join(parts[:i]), full), {}))
    return res

  def expect_value(scope, full, param):
    return overlay(scope, full).get(param, 'd' + param)

  def spelling(i, j):
    full = universe[i % len(universe)]
    sp = suffixes(full)
    return full, sp[j % len(sp)]

  def scoped(scope, s):
    return (scope + '/' if scope else '') + s

  def state():
    # Every bound value, read through complete names (always unambiguous).  config_str() is not
    # used here: once a later registration has made the spelling of a stored @reference
    # ambiguous, config_str() itself raises (it re-parses the reference's text) -- a history the
    # listed properties do not cover.
    out = []
    for (scope, full), params in sorted(model.items()):
      for param in sorted(params):
        out.append((scope, full, param, gin.query_parameter(f'{scoped(scope, full)}.{param}')))
    return out

  def expect_error(fn, what):
    before = state()
    try:
      fn()
    except AMBIG:
      require(before == state(), 'rejected-op-changed-config', what)
      return
    raise Violation('not-rejected', what)

  for op in case['ops']:
    kind = op[0]
    if kind == 'register':
      # a configurable registered *after* spellings were already used: a spelling that was
      # unique may become ambiguous (or shadowed by an exact match) from now on
      pending = [n for n in late if n not in names]
      if pending:
        n = pending[op[1] % len(pending)]
        wrappers[n] = gin.configurable(n)(_mk_probe(n))
        names.append(n)
        labels.add('late-registration')
      continue
    if kind in ('bind_str', 'bind_tuple', 'parse_flat', 'parse_block', 'parse_skip',
                'parse_skip_block'):
      _, i, j, scope, param, val = op
      full, sp = spelling(i, j)
      res = m_match(names, sp)
      if kind == 'bind_str':
        fn = lambda: gin.bind_parameter(scoped(scope, sp) + '.' + param, val)
      elif kind == 'bind_tuple':
        fn = lambda: gin.bind_parameter((scope, sp, param), val)
      elif kind == 'parse_flat':
        fn = lambda: gin.parse_config(f'{scoped(scope, sp)}.{param} = {val}')
      elif kind == 'parse_block':
        fn = lambda: gin.parse_config(f'{scoped(scope, sp)}:\n  {param} = {val}\n')
      elif kind == 'parse_skip':
        # skip_unknown only concerns names matching nothing: an ambiguous name is still rejected
        fn = lambda: gin.parse_config(f'{scoped(scope, sp)}.{param} = {val}', skip_unknown=True)
      else:
        fn = lambda: gin.parse_config(f'{scoped(scope, sp)}:\n  {param} = {val}\n',
                                      skip_unknown=[sp])
      if not res and kind.startswith('parse_skip'):
        before = state()
        fn()          # unknown and covered: skipped silently, nothing changes
        require(state() == before, 'skipped-statement-changed-config', f'{kind} {sp!r}')
        labels.add('skip-unknown-name')
        continue
      if len(res) == 1:
        fn()
        model.setdefault((scope, res[0]), {})[param] = val
        used.setdefault((scope, res[0], param), set()).add((kind, sp))
        labels.add('bind-ok')
        if res[0] != full:
          labels.add('exact-match-precedence')
      else:
        expect_error(fn, f'{kind} {sp!r} ambiguous among {res}')
        labels.add('bind-ambiguous')
    elif kind in ('query', 'get_bindings', 'get_configurable', 'ref', 'ref_obj', 'by_object'):
      _, i, j, scope, param = op
      full, sp = spelling(i, j)
      res = m_match(names, sp)
      if kind == 'by_object':
        if full not in names:
          continue
        res = [full]
      if len(res) != 1:
        if kind == 'query':
          expect_error(lambda: gin.query_parameter(f'{scoped(scope, sp)}.{param}'), f'query {sp}')
        elif kind == 'get_bindings':
          expect_error(lambda: gin.get_bindings(scoped(scope, sp)), f'get_bindings {sp}')
        elif kind == 'get_configurable':
          expect_error(lambda: gin.get_configurable(scoped(scope, sp)), f'get_configurable {sp}')
        else:
          expect_error(lambda: gin.parse_config(f'zzcons.consumer.x = @{scoped(scope, sp)}()'),
                       f'reference {sp}')
        labels.add('read-ambiguous')
        continue
      target = res[0]
      if kind == 'query':
        if param in model.get((scope, target), {}):
          got = gin.query_parameter(f'{scoped(scope, sp)}.{param}')
          require(got == model[(scope, target)][param], 'query-value',
                  lambda: f'{scoped(scope, sp)}.{param} -> {got!r}, model '
                          f'{model[(scope, target)][param]!r}')
          used.setdefault((scope, target, param), set()).add((kind, sp))
        else:
          expect_error(lambda: gin.query_parameter(f'{scoped(scope, sp)}.{param}'),
                       f'query unbound {scoped(scope, sp)}.{param}')
      elif kind == 'get_bindings':
        got = gin.get_bindings(scoped(scope, sp))
        require(got == overlay(scope, target), 'get_bindings',
                lambda: f'{scoped(scope, sp)} -> {got}, model {overlay(scope, target)}')
        used.setdefault((scope, target, param), set()).add((kind, sp))
      elif kind == 'get_configurable':
        got = gin.get_configurable(scoped(scope, sp))()
        require(got['who'] == target and got[param] == expect_value(scope, target, param),
                'get_configurable', lambda: f'{scoped(scope, sp)} -> {got}')
        used.setdefault((scope, target, param), set()).add((kind, sp))
      elif kind == 'by_object':
        with gin.config_scope(scope):
          got = gin.get_configurable(wrappers[target])()
          got2 = wrappers[target]()
        require(got == got2 and got['who'] == target and
                got[param] == expect_value(scope, target, param), 'by-object',
                lambda: f'{target} in {scope!r} -> {got} / {got2}')
      elif kind == 'ref':
        touched['refs'] = True
        gin.parse_config(f'zzcons.consumer.x = @{scoped(scope, sp)}()')
        got = cons()
        require(got['who'] == target and got[param] == expect_value(scope, target, param),
                'reference', lambda: f'@{scoped(scope, sp)}() -> {got}')
        used.setdefault((scope, target, param), set()).add((kind, sp))
      elif kind == 'ref_obj':
        touched['refs'] = True
        gin.parse_config(f'zzcons.consumer.x = @{scoped(scope, sp)}')
        got = cons()()
        require(got['who'] == target and got[param] == expect_value(scope, target, param),
                'reference-uncalled', lambda: f'@{scoped(scope, sp)} -> {got}')
      labels.add('read-ok')
    elif kind == 'method':
      _, j, scope, param, val, how = op
      sp = ['host.Trainer.step', 'c08.host.Trainer.step'][j % 2]
      expect_error(lambda: gin.bind_parameter((scope, 'Trainer.step', param), val),
                   'Trainer.step names the method of two classes')
      if how % 3 == 0:
        gin.bind_parameter((scope, sp, param), val)
      elif how % 3 == 1:
        gin.parse_config(f'{scoped(scope, sp)}.{param} = {val}')
      else:
        gin.parse_config(f'{scoped(scope, sp)}:\n  {param} = {val}\n')
      mmodel.setdefault(scope, {})[param] = val
      want = moverlay(scope)
      with gin.config_scope(scope):
        by_obj = gin.get_bindings(step_obj)
        by_name = gin.get_bindings('host.Trainer.step')
        called = gin.get_configurable('c08.host.Trainer')().step()
      require(by_obj == want and by_name == want, 'method-by-object',
              lambda: f'scope {scope!r}: get_bindings(<function step>) -> {by_obj}, '
                      f"get_bindings('Trainer.step') -> {by_name}, model {want}")
      require({k: called[k] for k in want} == want and called['who'] == 'c08.host', 'method-call',
              lambda: f'{called} vs {want}')
      other = gin.get_configurable('c08.other.Trainer')().step()
      require(other == {'who': 'c08.other', 'p': 'dp', 'q': 'dq'}, 'method-of-other-class',
              lambda: f'{other}')
      labels.add('registered-method-by-object')
      if not touched['refs'] and not late:
        # the names config_str reports resolve back: its text parses (into the same configuration)
        text = gin.config_str()
        before = state()
        try:
          gin.parse_config(text)
        except Exception as e:  # pylint: disable=broad-except
          raise Violation('reported-name-does-not-resolve', f'{type(e).__name__}: {e}\n{text}')
        require(state() == before, 'config_str-reparse-changed-config', text)
        labels.add('config_str-names-resolve')
    elif kind == 'conf_method':
      _, k, scope, param, val = op
      for sc in ['s', 't', 's', 'u'][:1 + k % 4]:
        gin.get_configurable(f'{sc}/ConfTrainer')
      sp = ['ConfTrainer.step', 'conf.ConfTrainer.step', 'c08.conf.ConfTrainer.step'][k % 3]
      try:
        gin.bind_parameter((scope, sp, param), val)
        got = gin.query_parameter(f'{scoped(scope, "c08.conf.ConfTrainer.step")}.{param}')
      except AMBIG as e:
        raise Violation('method-of-looked-up-class-not-addressable',
                        f'{sp}.{param} after {1 + k % 4} scoped lookups of the class: '
                        f'{type(e).__name__}: {e}')
      require(got == val, 'method-of-looked-up-class', lambda: f'{got!r} vs {val!r}')
      labels.add('method-of-configurable-class-after-scoped-lookups')
    elif kind == 'unknown':
      _, sp, api = op
      if m_match(names, sp):
        continue
      fns = {
          'bind_str': lambda: gin.bind_parameter(sp + '.p', 1),
          'bind_tuple': lambda: gin.bind_parameter(('', sp, 'p'), 1),
          'parse_flat': lambda: gin.parse_config(sp + '.p = 1'),
          'query': lambda: gin.query_parameter(sp + '.p'),
          'get_configurable': lambda: gin.get_configurable(sp),
          'ref': lambda: gin.parse_config(f'zzcons.consumer.x = @{sp}()'),
      }
      expect_error(fns[api], f'unknown {sp!r} via {api}')
      labels.add('unknown')
    elif kind in ('const_macro', 'const_query'):
      if not consts:
        continue
      _, i, j = op
      cfull = sorted(consts)[i % len(consts)]
      sp = suffixes(cfull)[j % len(suffixes(cfull))]
      res = m_match(sorted(consts), sp)
      if kind == 'const_macro':
        fn = lambda: gin.parse_config(f'zzcons.consumer.x = %{sp}')
      else:
        fn = lambda: gin.query_parameter(sp)
      if len(res) == 1:
        got = fn()
        if kind == 'const_macro':
          got = cons()
        require(got is consts[res[0]], 'constant-identity',
                lambda: f'%{sp} -> {got!r}, expected {consts[res[0]]!r}')
        labels.add('const-ok')
        if not consts[res[0]]:
          labels.add('const-falsy-value')
      elif kind == 'const_macro':
        expect_error(fn, f'constant {sp!r} ambiguous among {res}')
        labels.add('const-ambiguous')
      else:
        # query_parameter falls through to configurable lookup when nothing matches; with
        # several matches it must reject.
        if len(res) > 1:
          expect_error(fn, f'constant query {sp!r} ambiguous among {res}')
          labels.add('const-ambiguous')

  # after the history: every unambiguous spelling of every bound parameter reads the same value
  for (scope, full), params in sorted(model.items()):
    for sp in suffixes(full):
      if m_match(names, sp) != [full]:
        continue
      for param, val in params.items():
        got = gin.query_parameter(f'{scoped(scope, sp)}.{param}')
        require(got == val, 'spelling-disagrees',
                lambda: f'{scoped(scope, sp)}.{param} -> {got!r}, bound {val!r}')

  # two finalize hooks returning one parameter under two spellings must conflict
  if case['hooks']:
    i, j1, j2, scope, param, tuple_key = case['hooks']
    full = names[i % len(names)]          # among the registered ones
    uniq = [s for s in suffixes(full) if m_match(names, s) == [full]]
    s1, s2 = uniq[j1 % len(uniq)], uniq[j2 % len(uniq)]
    k1 = f'{scoped(scope, s1)}.{param}'
    k2 = (scope, s2, param) if tuple_key else f'{scoped(scope, s2)}.{param}'
    if (j1 + j2 + i) % 3 == 0:
      # one hook, returning a binding under one (possibly partial) spelling: after finalize the
      # parameter has that value under every spelling, as if it had been bound through the API
      gin.config.register_finalize_hook(lambda config: {k1: 1001})
      try:
        gin.finalize()
      except Exception as e:  # pylint: disable=broad-except
        raise Violation('finalize-rejected-hook-binding', f'{k1!r}: {type(e).__name__}: {e}')
      for sp in uniq:
        got = gin.query_parameter(f'{scoped(scope, sp)}.{param}')
        require(got == 1001, 'hook-binding-not-visible-under-spelling',
                lambda: f'hook returned {k1!r}; {scoped(scope, sp)}.{param} -> {got!r}')
      with gin.config_scope(scope or None):
        got = gin.get_bindings(full).get(param)
      require(got == 1001, 'hook-binding-not-visible-under-spelling',
              lambda: f'hook returned {k1!r}; get_bindings({full!r}) under {scope!r}: {got!r}')
      labels.add('hook-single')
      if s1 != full:
        labels.add('hook-single-partial-spelling')
      return ok(['api:' + l for l in labels] + ['layer:api'], True)
    gin.config.register_finalize_hook(lambda config: {k1: 1001})
    gin.config.register_finalize_hook(lambda config: {k2: 1002})
    before = state()
    try:
      gin.finalize()
      raise Violation('hook-conflict-not-detected',
                      f'hooks returned {k1!r} and {k2!r} (same parameter of {full})')
    except ValueError:
      pass
    require(not gin.config_is_locked(), 'locked-after-rejected-finalize', '')
    require(state() == before, 'config-changed-by-rejected-finalize', '')
    labels.add('hooks')
    if s1 != s2:
      labels.add('hooks-different-spelling')

  else:
    # a macro referenced through a *partial* spelling of the macro configurable (`@M/macro()`
    # instead of `@M/gin.macro()`): finalize validates macro references by looking their
    # bindings up, which must treat every spelling as the same key
    spelled = ['macro', 'gin.macro'][len(case['ops']) % 2]
    gin.parse_config(f'c08M = 7\nzzcons.consumer.x = @c08M/{spelled}()')
    try:
      gin.finalize()
    except Exception as e:  # pylint: disable=broad-except
      raise Violation('finalize-rejected-bound-macro',
                      f'c08M is bound and evaluated (@c08M/{spelled}()): {type(e).__name__}: {e}')
    require(cons() == 7, 'macro-through-partial-spelling', f'@c08M/{spelled}()')
    labels.add('macro-reference-spelled-' + spelled)

  multi = any(len({sp for _, sp in v}) >= 2 and len({a for a, _ in v}) >= 2
              for v in used.values())
  nt = multi or 'late-registration' in labels
  if nt:
    labels.add('nontrivial')
  return ok(['api:' + l for l in labels] + ['layer:api'], nt)


def check_case(case):
  if case.get('layer') == 'map':
    return check_map(case)
  return check_api(case)
