"""C02 — literal values parse to exactly what Python evaluates them to.

grammar cases : a rendering from vf.gen.literals placed as a flat binding, a block member, after a
                continuation, or fed to parse_value; oracle = ast.literal_eval(text), compared
                type-recursively.
near-miss cases: structured mutations and random single edits of valid renderings; oracle =
                differential with Python: clean rejection (SyntaxError / TokenError), or, if Gin
                yields exactly one reference-free binding, Python must evaluate the same text to
                an equal value of the same type.
"""
import ast
import re
import tokenize
import warnings

from hypothesis import strategies as st

from vf import ginenv
from vf.core import OutOfDomain, Violation, ok, require
from vf.gen import literals

gin = ginenv.import_gin()
from gin import config_parser  # pylint: disable=g-import-not-at-top

ID = 'C02'
LEVEL = 'exploration'
ISOLATE = False   # in-process for volume; every case starts with gin.clear_config()
BUDGET = {'quick': (4, 1500), 'thorough': (16, 20000)}
RULE = ('grammar: recursive literal renderings (number forms, string prefixes/escapes/triple '
        'quotes/adjacent pieces, nested containers with trailing commas, line breaks and comments '
        'inside brackets) placed flat / in a block / after a continuation / via parse_value; '
        'non-trivial = >=2 non-canonical rendering features or nesting depth >=2. near-miss: '
        'structured mutations (operators, bare names, comprehensions, bracket/comma edits, junk '
        'tokens, unary ops, calls, broken strings/numbers) and random single-character edits of '
        'valid renderings, optionally nested in a container; every near-miss counts as '
        'non-trivial. Distinct = distinct (placement, text).')
ASSUMPTIONS = ['ast.literal_eval is the definition of "what Python evaluates the text to"',
               'texts with a bare CR and non-ASCII characters are out of domain (CPython 3.12.1 '
               'tokenize raises UnicodeDecodeError on them)',
               'texts containing NUL are out of domain (CPython 3.12 tokenizer SystemError)',
               'texts for which Python itself raises TypeError (unhashable dict key) are out of '
               'domain: neither a literal nor one of the listed near-miss classes']
FLOORS = {'grammar:nontrivial': (0.3, 'kind:grammar'), 'nearmiss:rejected': (0.5, 'kind:nearmiss'),
          'nearmiss:accepted-agrees': (0.01, 'kind:nearmiss')}
TECHNIQUE = ('differential property testing against ast.literal_eval over grammar-generated '
             'renderings and mutated near-misses; atheris coverage-guided fuzzing with the same '
             'oracle in the thorough tier')
LEVEL_TEXT = ('Every generated rendering of a literal must parse to the value and type CPython '
              'gives that text, through ConfigParser, gin.parse_config + query_parameter and '
              'parse_value; every generated near-miss must either be rejected with SyntaxError/'
              'TokenError or agree with CPython. Exploration over a grammar that covers all '
              'literal forms named in the property; it cannot show absence of a disagreeing text.')
LEVEL_NOTE = ('Trusted: ast.literal_eval and the tokenize module of the running CPython 3.12; the '
              'probe configurable c02probe.p.')

REJECT = (SyntaxError, tokenize.TokenError)


@gin.configurable('c02probe')
def _probe(p=None):
  return p


class Rec(config_parser.ParserDelegate):

  def configurable_reference(self, scoped_configurable_name, evaluate):
    return Ref('@', scoped_configurable_name, evaluate)

  def macro(self, macro_name):
    return Ref('%', macro_name, True)


class Ref:

  def __init__(self, sigil, name, evaluate):
    self.t = (sigil, name, evaluate)

  def __eq__(self, other):
    return isinstance(other, Ref) and self.t == other.t

  def __hash__(self):
    return hash(self.t)

  def __repr__(self):
    return 'Ref%r' % (self.t,)


def typed(v):
  if isinstance(v, (list, tuple)):
    return (type(v).__name__, [typed(x) for x in v])
  if isinstance(v, dict):
    return ('dict', [(typed(k), typed(x)) for k, x in v.items()])
  return (type(v).__name__, repr(v))


def has_ref(v):
  if isinstance(v, Ref) or type(v).__module__.startswith('gin.'):
    return True
  if isinstance(v, (list, tuple)):
    return any(has_ref(x) for x in v)
  if isinstance(v, dict):
    return any(has_ref(k) or has_ref(x) for k, x in v.items())
  return False


PLACEHOLDER = '\x01REF%d\x01'
REF_RE = re.compile(r'[@%][ \t]*(?P<name>[A-Za-z_][\w.]*(/[A-Za-z_][\w.]*)*)'
                    r'(?P<call>(\s|\\\n|#[^\n]*\n)*\((\s|\\\n|#[^\n]*\n)*\))?')


def subst_refs(v, refs):
  if isinstance(v, Ref):
    refs.append(v)
    return PLACEHOLDER % (len(refs) - 1)
  if isinstance(v, (list, tuple)):
    return type(v)(subst_refs(x, refs) for x in v)
  if isinstance(v, dict):
    return dict([(subst_refs(k, refs), subst_refs(x, refs)) for k, x in v.items()])
  return v


def py_eval(text):
  with warnings.catch_warnings():
    warnings.simplefilter('ignore')
    return ast.literal_eval(text)


def py_eval_rhs(text):
  """What Python evaluates `text` to as the right-hand side of one assignment statement (so that
  layout before the value, e.g. a backslash continuation right after the '=', is layout)."""
  with warnings.catch_warnings():
    warnings.simplefilter('ignore')
    tree = ast.parse('_ = ' + text + '\n')
    if len(tree.body) != 1 or not isinstance(tree.body[0], ast.Assign) or len(
        tree.body[0].targets) != 1:
      raise SyntaxError('not a single assignment')
    return ast.literal_eval(tree.body[0].value)


def place(text, placement):
  if placement in ('flat', 'lines'):
    return 'c02probe.p = ' + text + '\n'
  if placement == 'flat-noeol':
    return 'c02probe.p=' + text
  if placement == 'continuation':
    return 'c02probe.p = \\\n    ' + text + '\n'
  if placement == 'block':
    return 'c02probe:\n  p = ' + text + '\n'
  if placement == 'scoped':
    return 'a/b/c02probe.p = ' + text + '  # trailing\n'
  raise ValueError(placement)


def parse_stream(src):
  with warnings.catch_warnings():
    warnings.simplefilter('ignore')
    return list(config_parser.ConfigParser(src, Rec()))


def check_grammar(case):
  text, placement = case['text'], case['place']
  if '\x00' in text:
    raise OutOfDomain('NUL')
  try:
    expected = py_eval(text)
  except Exception as e:  # generator bug, not a Gin verdict
    raise OutOfDomain(f'generator produced a non-literal: {type(e).__name__}')
  feats = case.get('feats', [])
  if placement == 'parse_value':
    with warnings.catch_warnings():
      warnings.simplefilter('ignore')
      got = gin.config.parse_value(text)
  else:
    src = place(text, placement)
    stmts = parse_stream(src)
    binds = [s for s in stmts if isinstance(s, config_parser.BindingStatement)]
    require(len(binds) == 1, 'statement-count', lambda: f'{len(binds)} bindings from {src!r}')
    b = binds[0]
    require((b.selector, b.arg_name) == ('c02probe', 'p'), 'binding-key', repr(b[:3]))
    got = b.value
    require(typed(got) == typed(expected), 'value-differs',
            lambda: f'text {text!r} ({placement}): Gin {got!r} / Python {expected!r}')
    gin.clear_config()
    with warnings.catch_warnings():
      warnings.simplefilter('ignore')
      # ('lines': the same text handed over as the list of its lines -- lines of a multi-line
      # literal, blank or starting with '#', are part of the value)
      gin.parse_config(src.split('\n') if placement == 'lines' else src)
    key = 'a/b/c02probe.p' if placement == 'scoped' else 'c02probe.p'
    got = gin.query_parameter(key)
    gin.clear_config()
  require(typed(got) == typed(expected), 'value-differs',
          lambda: f'text {text!r} ({placement}): Gin {got!r} / Python {expected!r}')
  depth = max([int(f[5:]) for f in feats if f.startswith('depth')] or [0])
  distinct_feats = {f for f in feats if not f.startswith('depth')}
  nt = len(distinct_feats) >= 2 or depth >= 2
  labels = ['kind:grammar', 'place:' + placement] + ['feat:' + f for f in distinct_feats]
  if nt:
    labels.append('grammar:nontrivial')
  return ok(labels, nt)


BARE_CR = re.compile(r'\r(?!\n)')


def check_nearmiss(case):
  text = case['text']
  if '\x00' in text:
    raise OutOfDomain('NUL')
  if BARE_CR.search(text) and not text.isascii():
    # CPython 3.12.1: tokenize raises UnicodeDecodeError for a bare CR followed by a non-ASCII
    # character ('x = 1\rŠ'); an interpreter defect outside Gin
    raise OutOfDomain('bare CR with non-ASCII text (CPython tokenizer defect)')
  # the same text as a flat binding or as a member of a block: both must judge it alike
  block = case.get('place') == 'block'
  src = ('c02probe:\n  p = ' if block else 'c02probe.p = ') + text + '\n'
  labels = ['kind:nearmiss', 'mut:' + case.get('mutation', '?'),
            'nearmiss-place:' + ('block' if block else 'flat')]
  stmts = []
  try:
    with warnings.catch_warnings():
      warnings.simplefilter('ignore')
      for stmt in config_parser.ConfigParser(src, Rec()):
        stmts.append(stmt)
  except REJECT:
    if stmts:
      # the edit introduced a line break: a first statement was complete before the error
      raise OutOfDomain('text spells more than one statement')
    # the public entry point must reject too, and bind nothing
    gin.clear_config()
    try:
      with warnings.catch_warnings():
        warnings.simplefilter('ignore')
        gin.parse_config(src)
      raise Violation('parse_config-accepted-what-parser-rejects', repr(text))
    except REJECT:
      pass
    except Violation:
      raise
    except Exception as e:  # pylint: disable=broad-except
      if '@' not in text and '%' not in text:
        raise Violation('wrong-exception-class',
                        f'{type(e).__name__} from parse_config for {text!r}')
    try:
      gin.query_parameter('c02probe.p')
      raise Violation('rejected-text-left-a-binding', repr(text))
    except ValueError:
      pass
    finally:
      gin.clear_config()
    return ok(labels + ['nearmiss:rejected'], True)
  except RecursionError:
    raise OutOfDomain('recursion')
  except Exception as e:  # pylint: disable=broad-except
    if isinstance(e, TypeError):
      # with and without references replaced (the text may contain '@' inside a string)
      for variant in (text, REF_RE.sub("'r'", text)):
        try:
          py_eval(variant)
        except TypeError:
          raise OutOfDomain('Python raises TypeError too (unhashable key)')
        except Exception:  # pylint: disable=broad-except
          pass
    raise Violation('wrong-exception-class', f'{type(e).__name__}: {e} for text {text!r}')
  stmts = [x for x in stmts if not isinstance(x, config_parser.BlockDeclaration)]
  if len(stmts) != 1 or not isinstance(stmts[0], config_parser.BindingStatement):
    raise OutOfDomain('text spells more than one statement')
  b = stmts[0]
  if (b.scope, b.selector, b.arg_name) != ('', 'c02probe', 'p'):
    raise OutOfDomain('binding key changed by the edit')
  got_value = b.value
  if has_ref(b.value):
    # References are Gin's extension of the literal grammar.  Replace every reference in the
    # text by a unique string literal and every reference object in Gin's value by the same
    # string: what surrounds the references must still be a Python literal (so `-@f`, `@f + 1`
    # or `@a @b` may not be accepted).
    matches = list(REF_RE.finditer(text))
    refs = []
    got_value = subst_refs(b.value, refs)
    if len(refs) != len(matches):
      raise OutOfDomain('reference-looking text inside a string')
    for i, (m, r) in enumerate(zip(matches, refs)):
      name = re.sub(r'[ \t]', '', m.group('name'))
      if r.t != (m.group(0)[0], name, bool(m.group('call')) or m.group(0)[0] == '%'):
        raise Violation('reference-misread', f'text {text!r}: {m.group(0)!r} read as {r.t}')
    pieces, last = [], 0
    for i, m in enumerate(matches):
      pieces.append(text[last:m.start()])
      pieces.append(repr(PLACEHOLDER % i))
      last = m.end()
    text = ''.join(pieces) + text[last:]
    labels.append('nearmiss:with-reference')
  # Trailing blank / whitespace-only lines belong to the file layout, not to the value text
  # (ast.literal_eval calls a trailing "\n\t" an unexpected indent, and needs the newline after
  # a trailing backslash): Python is asked about the text as is, and with trailing white space
  # removed / a final newline added.
  expected = None
  stripped = text.strip(' \t\r\n\f')
  for fn, variant in ((py_eval, text), (py_eval, text.rstrip(' \t\r\n\f')), (py_eval, text + '\n'),
                      (py_eval, stripped), (py_eval_rhs, stripped),
                      # (a continuation before the value and one after it: both are layout)
                      (py_eval_rhs, stripped + '\n')):
    try:
      expected = ('ok', fn(variant))
      break
    except (TypeError, RecursionError, MemoryError):
      break
    except Exception:  # pylint: disable=broad-except
      continue
  if expected is not None:
    require(typed(got_value) == typed(expected[1]), 'value-differs',
            lambda: f'text {text!r}: Gin {b.value!r} / Python {expected[1]!r}')
    # ast.literal_eval is slightly wider than the literal grammar of the statement: it also
    # evaluates a unary plus and the sum / difference of a number and a complex (`+1`, `1+2j`).
    # Those are arithmetic ("numbers with an optional leading *minus*"): they must be rejected.
    try:
      with warnings.catch_warnings():
        warnings.simplefilter('ignore')
        tree = ast.parse('_ = ' + stripped + '\n')
    except SyntaxError:
      tree = None
    if tree is not None:
      arith = [n for n in ast.walk(tree) if isinstance(n, ast.BinOp) or
               (isinstance(n, ast.UnaryOp) and not isinstance(n.op, ast.USub))]
      require(not arith, 'accepted-arithmetic',
              lambda: f'text {case["text"]!r} yields {b.value!r}: it contains arithmetic '
                      f'({type(arith[0]).__name__} {type(getattr(arith[0], "op", None)).__name__})')
    return ok(labels + ['nearmiss:accepted-agrees'], True)
  if not has_ref(b.value) and REF_RE.search(text):
    # A reference may have been written into a dict entry that a later equal key overwrote
    # ({0: [@f], False: 0}): Gin's value then holds no reference although the text spells one.
    # Python is asked about the text with the references replaced by string literals.
    sub = REF_RE.sub(lambda m: repr(PLACEHOLDER % 0), text)
    try:
      replaced = py_eval(sub.strip(' \t\r\n\f'))
    except Exception:  # pylint: disable=broad-except
      replaced = None
    else:
      require(typed(got_value) == typed(replaced), 'value-differs',
              lambda: f'text {text!r}: Gin {b.value!r} / Python (references as strings) {replaced!r}')
      return ok(labels + ['nearmiss:accepted-agrees', 'nearmiss:reference-overwritten-by-equal-key'],
                True)
  try:
    expected = py_eval(text)
  except TypeError:
    raise OutOfDomain('Python raises TypeError (unhashable key)')
  except (RecursionError, MemoryError):
    raise OutOfDomain('python resource limit')
  except Exception as e:  # pylint: disable=broad-except
    raise Violation('accepted-non-literal',
                    f'text {case["text"]!r} yields {b.value!r} but Python rejects {text!r} '
                    f'({type(e).__name__}: {e})')
  require(typed(got_value) == typed(expected), 'value-differs',
          lambda: f'text {text!r}: Gin {b.value!r} / Python {expected!r}')
  return ok(labels + ['nearmiss:accepted-agrees'], True)


def check_case(case):
  if case['kind'] == 'grammar':
    return check_grammar(case)
  return check_nearmiss(case)


# ------------------------------------------------------------------------------ strategies
APPEND = [' + 1', ' * 2', ' - 1', ' if True else 0', ' or 1', ' and 1', ' == 1', ' < 2',
          ' is None', ' in [1]', ' 1', " 'a'", ' ;', ';', ' x', ' )', ' ]', ' }', ' =', ' = 1',
          ' ,', ',', ', 2', ' :', ' .', '.real', '[0]', '()', '.x', ' @', ' %', ' \\', ' 1 2',
          ' None', ' True', ' -1', " b'x'", " f'x'", ' -', ' (', ' [', ' {', ' "', " '''",
          # blanks that are not ASCII white space: CPython's tokenizer reads them as (invalid) names
          '\u00a0', ' \u00a0', '\u3000', ' \u2003 ', '\u00a0 1']
PREPEND = ['\u00a0', '-\u00a0 ', '+', '~', '-', '--', '- -', 'not ', '-(', '(', '[', '{', '*', '**', 'lambda: ',
           'x = ', 'await ', '= ', ': ', ', ', '. ']
WHOLE = ['[1,\u00a0]', "{'a':\u00a0-1}", '1\u00a0', '[1\u30002]', 'foo', '[foo]', "{'a': foo}", 'nan', 'inf', '-inf', 'true', 'null', 'none',
         '[x for x in [1]]', '[1 for _ in (1,)]', "{k: 1 for k in 'a'}", '(x for x in [])',
         '[1,,2]', '[,]', '(,)', '{:}', '{1}', '{1, 2}', '{1: }', '{: 1}', '{1: 2: 3}', '{1: 2,, }',
         '...', 'Ellipsis', 'int(1)', "'a'.upper()", '[1][0]', "f'a'", "f'{1}'", '1 .real',
         "'a' 'b'[0]", 'lambda: 1', '*[1]', '[*[1]]', '{**{}}', "'abc", '"abc', "'''abc",
         "b'é'", "'a' b'b'", "u'a' b'b'", "rb'a' 'b'", "'\\x4'", "'\\N{NOPE}'", "'\\u12'",
         '1__0', '0x', '1e', '1_', '0b2', '0o8', '1.2.3', '1j2', '1 000', '1_000_', '0xg', '09',
         '1l', '1L', '-True', '-None', "-'a'", '-[1]', '-(1)', '+1', '~1', '--1', '- -1',
         'not True', '1+2j', '1 + 2', '-1-2j', '(1)+(2)', '[1] + [2]', "'a' * 2", "'a' % 1",
         '1,', '1, 2', '()()', '[] []', '{} {}', '(1)(2)', '1 2', "'a' 1", "1 'a'", 'None None',
         '[1 2]', "{'a' 1}", "{'a': 1 'b': 2}", '(1 2)', '[1;2]', '[1, 2', '1]', '(1', '{1: 2',
         '1)', '[(1]', '([1)]', '{[1}]', '`1`', '$', '?', '!', '1 !', '<>', '1 <> 2', '->', ':=',
         '(x := 1)', '1 if', 'if', 'else', 'import', 'None.x', 'True()', '__debug__', '-inf',
         '0_0', '00', '0.', '.0', '.', '-.', '-', '- ', '--', "b''b''", "''''", '""""', "'''",
         "r'\\'", "'\\'", '"\\"', "''' '' '", "b'\\u00e9'", "'\\400'", "b'\\400'",
         # references are the only non-literal values; what surrounds them must be literal
         '@foo', '@foo()', '@a/b/foo()', '%m', '[@foo, %m]', "{'k': @a/f(), 'j': (%a/m,)}",
         '-@foo', '-%bar', '[-@foo()]', '- @a/b()', "{'k': -%m}", '@foo + 1', '@foo()()',
         '@foo(1)', '@foo.bar()', '%a %b', '@a @b', '[@a @b]', '@', '%', '@()', '@1', "@'a'",
         '%1', '@@a', '%%a', '@-a', '@foo() 1', '1 @foo', '@foo,', '(@foo)', '(@foo,)',
         '@a//b', '@/a', '@a/', '%a/', '@a..b', '@.a', '@a.', '@a/b.c/d()', '%a.b/c']
WRAP = ['%s', '%s', '[%s]', '(%s,)', "{'k': %s}", '{%s: 1}', '[1, %s, 2]', '(%s)', '[[%s]]',
        '[\n  %s\n]', "{'a': [%s]}"]
EDIT_CHARS = list("[](){},:'\"-+.#@%\\ \n\t=;ebxj_0179") + ['None', 'True', "''", '""', "'''"]


@st.composite
def _grammar(draw):
  text, feats = draw(literals.value(depth=3, in_brackets=False))
  placement = draw(st.sampled_from(['flat', 'flat', 'flat-noeol', 'continuation', 'block',
                                    'scoped', 'parse_value', 'lines']))
  return {'kind': 'grammar', 'text': text, 'feats': sorted(set(feats)), 'place': placement}


@st.composite
def _nearmiss(draw):
  how = draw(st.sampled_from(['append', 'prepend', 'whole', 'whole', 'edit', 'edit', 'edit',
                              'delete', 'dup', 'swap']))
  if how == 'whole':
    text = draw(st.sampled_from(WHOLE))
  else:
    base, _ = draw(literals.value(depth=2, in_brackets=False))
    if how == 'append':
      text = base + draw(st.sampled_from(APPEND))
    elif how == 'prepend':
      text = draw(st.sampled_from(PREPEND)) + base
    else:
      i = draw(st.integers(0, max(0, len(base) - 1)))
      if how == 'edit':
        ins = draw(st.sampled_from(EDIT_CHARS))
        text = base[:i] + ins + (base[i:] if draw(st.booleans()) else base[i + 1:])
      elif how == 'delete':
        text = base[:i] + base[i + 1:]
      elif how == 'dup':
        text = base[:i] + base[i:i + 1] * 2 + base[i + 1:]
      else:
        text = base[:i] + base[i + 1:i + 2] + base[i:i + 1] + base[i + 2:]
  text = draw(st.sampled_from(WRAP)) % text
  return {'kind': 'nearmiss', 'text': text, 'mutation': how,
          'place': draw(st.sampled_from(['flat', 'flat', 'block']))}


def strategy():
  return st.one_of(_grammar(), _grammar(), _nearmiss())


def sweep_whole(tier):
  cases = [{'kind': 'nearmiss', 'text': w % t, 'mutation': 'whole', 'place': place}
           for t in WHOLE for w in sorted(set(WRAP)) for place in ('flat', 'block')]
  return cases, True


SWEEPS = {'near-miss-list': sweep_whole}


def fuzz_campaigns(tier, seed):
  """Coverage-guided campaigns (atheris) over arbitrary bytes with check_nearmiss as the oracle."""
  from vf.fuzz import plans  # pylint: disable=g-import-not-at-top
  return plans.run('vf.fuzz.c02',
                   lambda text: {'kind': 'nearmiss', 'text': text, 'mutation': 'fuzz'},
                   check_case, tier, seed, plans.C02_SEEDS, plans.C02_TOKENS, quick_runs=30000,
                   max_len=96)


EXTRA = [fuzz_campaigns]
