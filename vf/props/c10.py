"""C10 — REQUIRED parameters are filled from the config or the call fails cleanly.

Case: probe shape with a subset of defaulted parameters defaulting to gin.REQUIRED (optionally an
allowlist / denylist), bindings over scopes, an active scope, and a call in which every argument is
omitted / a value / the REQUIRED marker, positionally or by keyword (incl. **kw names and overflow
into *args).  Oracle: REQUIRED-marked parameters with an applicable binding receive the bound value
in place; otherwise RuntimeError before the body naming the configurable and the unfilled names in
signature order; REQUIRED in an unnamed *args slot -> ValueError; signature-level REQUIRED on a
parameter outside the allowlist / inside the denylist -> ValueError at registration.
"""
import ast
import contextlib
import itertools
import re

from hypothesis import strategies as st

from vf import ginenv
from vf.core import OutOfDomain, Violation, ok, require
from vf.gen import signatures as G
from vf.model import bindings as M

gin = ginenv.import_gin()

ID = 'C10'
LEVEL = 'exploration'
ISOLATE = True
BUDGET = {'quick': (16, 150), 'thorough': (16, 4000)}
RULE = ('shape (as C01) with a generated subset of defaulted parameters defaulting to gin.REQUIRED '
        'and an optional allow/deny list x per-argument placement (omitted / value / REQUIRED, '
        'positional or keyword, **kw names, *args overflow) x bindings over prefix and decoy '
        'scopes x active scope. Bounded sweep: all placements x all binding subsets for shapes '
        'with <=2 (quick) / <=3 (thorough) parameters. Non-trivial = >=2 REQUIRED markers of '
        'different placement kinds with a binding set that fills some but not all, or fills all '
        'with at least one value coming from a non-root scope prefix. Distinct = distinct case JSON.')
ASSUMPTIONS = ['bindings are only made for parameters the allow/deny list permits (C11 owns the rest)',
               'the error text is only required to contain the configurable\'s name and a Python '
               'list literal of the unfilled names']
FLOORS = {'nontrivial': 0.05, 'outcome:filled': 0.15, 'outcome:missing': 0.15,
          'outcome:vararg-required': 0.004, 'outcome:registration-rejected': 0.004}
TECHNIQUE = ('model-based property testing of REQUIRED handling (generated signatures, marker '
             'placements and binding subsets vs a reference rule) plus a bounded exhaustive sweep '
             'of small signatures')
LEVEL_TEXT = ('For every generated (signature, marker placement, binding subset, scope) the call '
              'either delivers the bound value in the marked position and never the sentinel, or '
              'fails with RuntimeError before the body listing exactly the unfilled names in '
              'signature order; small signatures are enumerated exhaustively. Exploration.')
LEVEL_NOTE = ('Trusted: the C01 call model (inspect.signature.bind); the message is parsed with a '
              'regular expression for a list literal.')

REQ = '<<REQUIRED>>'


def real(v):
  return gin.REQUIRED if v == REQ else v


def contains_sentinel(x):
  if x is gin.REQUIRED:
    return True
  if isinstance(x, dict):
    return any(contains_sentinel(v) for v in x.values())
  if isinstance(x, (list, tuple)):
    return any(contains_sentinel(v) for v in x)
  return False


class _EqAny:
  """Equal to everything (unittest.mock.ANY-like); the REQUIRED marker is recognised by identity."""

  def __init__(self, tag):
    self.tag = tag

  def __eq__(self, other):
    return True

  __hash__ = None

  def __repr__(self):
    return f'<any:{self.tag}>'


def check_case(case):
  shape = case['shape']
  labels = {'kind:' + shape['kind'], 'api:' + shape['api']}
  req_defaults = list(shape.get('required_defaults') or [])
  allow, deny = shape.get('allowlist'), shape.get('denylist')
  named = G.named_params(shape)

  def configurable_param(p):
    if p in G.posonly_params(shape):
      return False      # def f(a, /, b): `a` cannot be bound (it is passed by position only)
    if allow is not None and allow and p not in allow:
      return False
    if deny is not None and deny and p in deny:
      return False
    return True

  bad_sig_required = [p for p in req_defaults if not configurable_param(p)]
  if shape.get('also_as'):
    labels.add('same-object-registered-before-without-lists')
  if G.posonly_params(shape):
    labels.add('positional-only-leading-parameters')
  if bad_sig_required:
    try:
      G.build(shape, gin)
    except ValueError:
      return ok(labels | {'outcome:registration-rejected'}, False)
    raise Violation('signature-required-on-unconfigurable-accepted',
                    f'{bad_sig_required} REQUIRED with allowlist={allow} denylist={deny}')
  built = G.build(shape, gin)
  sig = built.signature()
  # a function under a functools.wraps decorator: what Gin wraps and calls is (*args, **kwargs);
  # no positional argument has a name, so a positional marker is "REQUIRED for an unnamed variadic
  # positional argument", and bindings cannot be dropped in favour of positional arguments
  if shape.get('twin_required_defaults') is not None:
    labels.add('twin-from-same-def-registered-first')
    if sorted(shape['twin_required_defaults']) != sorted(req_defaults):
      labels.add('twin-defaults-differ')
  decorated = bool(shape.get('decorated'))
  if decorated:
    labels.add('decorated-function')
    if req_defaults or allow or deny:
      raise OutOfDomain('signature defaults / lists of a function hidden behind a decorator')
    named = []
  hidden = [] if decorated else None
  model = {}
  for scope, param, value in case['bindings']:
    if not configurable_param(param):
      continue
    gin.bind_parameter((scope, built.selector, param), value)
    model[(scope, param)] = value
  args = [real(a) for a in case['args']]
  for i in case.get('odd_args') or []:
    if i < len(args) and args[i] is not gin.REQUIRED:
      args[i] = _EqAny(args[i])
      labels.add('surplus-positional-with-odd-eq')
  kw_items = case['kwargs']
  if case.get('kwargs_order'):
    kw_items = {k: case['kwargs'][k] for k in case['kwargs_order'] if k in case['kwargs']}
    if list(kw_items) != sorted(kw_items):
      labels.add('keyword-order-varied')
  kwargs = {k: real(v) for k, v in kw_items.items()}
  with contextlib.ExitStack() as es:
    for entry in case['entries']:
      es.enter_context(gin.config_scope(entry))
    active = gin.current_scope()
    app = M.overlay(model, active)
    pos_names = [] if decorated else M.positional_names(sig, len(args))
    # --- the reference rule -------------------------------------------------------------
    vararg_required = any(a is gin.REQUIRED for a in args[len(pos_names):])
    req_pos = [(i, pos_names[i]) for i in range(len(pos_names)) if args[i] is gin.REQUIRED]
    req_kw = [k for k, v in kwargs.items() if v is gin.REQUIRED]
    req_sig = [p for p in req_defaults if p not in pos_names and p not in kwargs]
    marked = [p for _, p in req_pos] + req_kw + req_sig
    missing = [p for p in marked if p not in app]
    n_before = len(built.log)
    try:
      rec = built.call(args, kwargs)
      raised = None
    except (RuntimeError, ValueError, TypeError) as e:
      raised = e
    ran = len(built.log) > n_before
    kinds = set(['pos'] * bool(req_pos) + ['kw'] * bool(req_kw) + ['sig'] * bool(req_sig))
    for k in kinds:
      labels.add('marker:' + k)
    if vararg_required:
      require(isinstance(raised, ValueError) and not ran, 'required-in-varargs-not-rejected',
              lambda: f'args={case["args"]} raised={raised!r} ran={ran}')
      return ok(labels | {'outcome:vararg-required'}, False)
    if missing:
      require(isinstance(raised, RuntimeError), 'missing-required-not-reported',
              lambda: f'missing={missing} raised={raised!r} args={case["args"]} '
                      f'kwargs={case["kwargs"]} applicable={app}')
      require(not ran, 'body-ran-before-required-error', f'missing={missing}')
      msg = str(raised)
      name = built.selector.split('.')[-1]
      require(name in msg, 'error-does-not-name-configurable', msg)
      m = re.search(r'\[[^\]]*\]', msg)
      require(m is not None, 'error-lists-no-names', msg)
      listed = ast.literal_eval(m.group(0))
      order = [p for p in named if p in missing]
      extra = [p for p in missing if p not in named]
      require(listed[:len(order)] == order and sorted(listed[len(order):]) == sorted(set(extra))
              and len(listed) == len(order) + len(set(extra)), 'missing-list',
              lambda: f'listed {listed}; model: {order} then {sorted(extra)} (any order)')
      labels.add('outcome:missing')
      # the same call once more: the verdict is a function of the call and the configuration, not
      # of how often the configurable was called before
      try:
        built.call(args, kwargs)
        raised_again = None
      except (RuntimeError, ValueError, TypeError) as e:
        raised_again = e
      require(isinstance(raised_again, RuntimeError) and len(built.log) == n_before and
              str(raised_again) == msg, 'second-identical-call-differs',
              lambda: f'first: {msg!r}\nsecond: {raised_again!r}, body ran: '
                      f'{len(built.log) > n_before}')
      if case.get('namesake'):
        # a configurable with the same short name is registered in another module, and the call
        # fails once more: the error still *names* the configurable, i.e. the name it reports
        # resolves to this configurable and to nothing else
        short = built.selector.split('.')[-1]
        gin.external_configurable(lambda: None, short, module='c10namesake.pkg')
        try:
          built.call(args, kwargs)
          raised3 = None
        except (RuntimeError, ValueError, TypeError) as e:
          raised3 = e
        require(isinstance(raised3, RuntimeError), 'missing-required-not-reported',
                lambda: f'after a namesake was registered: {raised3!r}')
        reported = re.search(r'`([^`]+)`', str(raised3))
        require(reported is not None, 'error-does-not-name-configurable', str(raised3))
        try:
          target = gin.get_configurable(reported.group(1))
        except Exception as e:  # pylint: disable=broad-except
          raise Violation('error-names-an-unresolvable-configurable',
                          f'{str(raised3)!r}: {type(e).__name__}: {e}')
        rep = reported.group(1)
        require(built.selector == rep or built.selector.endswith('.' + rep),
                'error-names-another-configurable',
                lambda: f'{str(raised3)!r} names {rep!r} (-> {target!r}), the call was to '
                        f'{built.selector}')
        labels.add('namesake-registered-between-two-failures')
      partial = any(p in app for p in marked)
      nt = len(kinds) >= 2 and partial
      if nt:
        labels.add('nontrivial')
      # second act: bind what was missing (where the lists permit) and repeat the call -- the
      # failure must not have left anything behind
      if all(configurable_param(p) for p in missing):
        for p in missing:
          gin.bind_parameter(('', built.selector, p), 'LATE:' + p)
          model[('', p)] = 'LATE:' + p
        app2 = M.overlay(model, active)
        new_args = list(args)
        for i, p in req_pos:
          new_args[i] = app2[p]
        new_kwargs = {k: v for k, v in kwargs.items() if v is not gin.REQUIRED}
        verdict2, exp2 = M.expected_call(sig, new_args, new_kwargs, app2, hidden)
        try:
          rec2 = built.call(args, kwargs)
          raised2 = None
        except (RuntimeError, ValueError, TypeError) as e:
          raised2 = e
        if verdict2 == 'ok':
          require(raised2 is None, 'still-failing-after-binding',
                  lambda: f'{raised2!r} after binding {missing}')
          got2 = {k: rec2[k] for k in ('named', 'args', 'kw')}
          require(got2 == exp2 and not contains_sentinel(got2), 'arguments-differ-after-binding',
                  lambda: f'got {got2}\n model {exp2}')
          labels.add('outcome:filled-after-late-binding')
      return ok(labels, nt)
    # every REQUIRED is filled: substitute and fall back to the plain call model
    new_args = list(args)
    for i, p in req_pos:
      new_args[i] = app[p]
    new_kwargs = {k: v for k, v in kwargs.items() if v is not gin.REQUIRED}
    verdict, exp = M.expected_call(sig, new_args, new_kwargs, app, hidden)
    if verdict == 'TypeError':
      require(isinstance(raised, TypeError) and not ran, 'typeerror-expected',
              lambda: f'{exp}; raised={raised!r}')
      return ok(labels | {'outcome:typeerror'}, False)
    require(raised is None, 'filled-call-raised',
            lambda: f'{raised!r}\nargs={case["args"]} kwargs={case["kwargs"]} applicable={app} '
                    f'marked={marked}')
    got = {k: rec[k] for k in ('named', 'args', 'kw')}
    require(not contains_sentinel(got), 'sentinel-leaked', lambda: f'{got}')
    require(got == exp, 'arguments-differ',
            lambda: f'args={case["args"]} kwargs={case["kwargs"]} applicable={app}\n got  {got}\n'
                    f' model {exp}')
    labels.add('outcome:filled' if marked else 'outcome:no-marker')
    nonroot = any(any(s == sc and pp == p for (sc, pp) in model if sc) for p in marked
                  for s in ['/'.join(active[:i]) for i in range(1, len(active) + 1)])
    nt = len(kinds) >= 2 and nonroot
    if nt:
      labels.add('nontrivial')
    return ok(labels, nt)


# ------------------------------------------------------------------------------ strategies
SCOPES = ['', '', 's', 's/t', 't', 'u/s']


@st.composite
def strategy(draw):
  shape = draw(G.shapes(kinds=('function', 'function', 'class_init', 'class_new', 'method',
                               'callobj', 'boundmethod')))
  if shape['kind'] in ('callobj', 'boundmethod') and shape['api'] == 'configurable':
    shape['api'] = 'external'
  if shape['kind'] in ('class_init', 'class_new') and shape['api'] == 'configurable' and draw(
      st.integers(0, 2)) == 0:
    # the class inherits its constructor from one or two configurable base classes
    shape['configurable_base'] = draw(st.sampled_from([1, 2]))
  defaulted = shape['dflt'] + shape['kwdflt']
  shape['required_defaults'] = draw(st.lists(st.sampled_from(defaulted), unique=True)
                                    if defaulted else st.just([]))
  named = G.named_params(shape)
  lists = draw(st.sampled_from(['none', 'none', 'none', 'allow', 'deny']))
  if lists != 'none' and named and shape['kind'] != 'method':
    subset = draw(st.lists(st.sampled_from(named), unique=True, min_size=1))
    # mostly keep signature-REQUIRED parameters configurable so registration succeeds
    if draw(st.integers(0, 4)) != 0:
      if lists == 'allow':
        subset = sorted(set(subset) | set(shape['required_defaults']))
      else:
        subset = [p for p in subset if p not in shape['required_defaults']]
    if subset:
      shape['allowlist' if lists == 'allow' else 'denylist'] = subset
      if shape['kind'] == 'function' and shape['api'] != 'configurable' and draw(st.booleans()):
        # the same function object was registered before under another name, without lists: the
        # lists of *this* registration still decide
        shape['also_as'] = 'c10first'
        if shape['required_defaults'] and draw(st.booleans()):
          # ... and they exclude a parameter the signature marks REQUIRED: rejected all the same
          bad = shape['required_defaults'][0]
          if lists == 'allow':
            shape['allowlist'] = [p for p in shape['allowlist'] if p != bad] or [
                p for p in named if p != bad][:1] or ['zz']
          else:
            shape['denylist'] = sorted(set(shape['denylist']) | {bad})
  if (shape['kind'] == 'function' and defaulted and 'allowlist' not in shape and
      'denylist' not in shape and draw(st.integers(0, 4)) == 0):
    shape['twin_required_defaults'] = draw(st.lists(st.sampled_from(defaulted), unique=True))
  elif shape['kind'] == 'function' and draw(st.integers(0, 5)) == 0:
    shape['decorated'] = draw(st.integers(1, 2))
    shape['required_defaults'] = []
    shape.pop('allowlist', None)
    shape.pop('denylist', None)
  if (shape['kind'] == 'function' and shape['pos'] and not shape.get('decorated') and
      'allowlist' not in shape and 'denylist' not in shape and draw(st.integers(0, 3)) == 0):
    # def f(a, /, b, c=...): positional arguments still count from `a`, which is never bound
    shape['posonly_pos'] = draw(st.integers(1, len(shape['pos'])))
  entries = draw(st.lists(st.sampled_from(['s', 't', 's/t', None, ['s', 't'], ['u']]),
                          max_size=3))
  pool = ([p for p in named if p not in G.posonly_params(shape)] +
          (G.EXTRA if shape['varkw'] else []))
  bindings = []
  if pool:
    for i in range(draw(st.integers(0, 8))):
      # falsy bound values too: a binding of None / 0 / '' is still a binding
      bindings.append([draw(st.sampled_from(SCOPES)), draw(st.sampled_from(pool)),
                       draw(st.sampled_from(['B%d' % i, 'B%d' % i, None, 0, '', False, []]))])
  positional = shape['pos'] + shape['dflt']
  n_pos = draw(st.integers(len(G.posonly_params(shape)) if draw(st.integers(0, 7)) else 0,
                           len(positional) + (2 if shape['varargs'] else 0)))
  val = lambda i: st.sampled_from([REQ, REQ, 'C%d' % i, 'C%d' % i, 'C%d' % i])
  args = [draw(val(i)) for i in range(n_pos)]
  for i in range(min(n_pos, len(G.posonly_params(shape)))):
    # a marker in a positional-only position can never be filled: keep that outcome rare
    if args[i] == REQ and draw(st.integers(0, 3)) != 0:
      args[i] = 'C%d' % i
  if n_pos > len(positional) and draw(st.integers(0, 3)) != 0:
    args[len(positional):] = ['V%d' % i for i in range(n_pos - len(positional))]
  rest = [p for p in pool if p not in positional[:n_pos]]
  kwargs = {}
  for p in rest:
    how = draw(st.sampled_from(['omit', 'omit', 'value', 'req']))
    if p in shape['pos'] + shape['kwonly'] and how == 'omit' and draw(st.booleans()):
      how = 'req'
    if how != 'omit':
      kwargs[p] = REQ if how == 'req' else 'K:' + p
  if draw(st.integers(0, 3)) == 0:
    # make sure every marked parameter has a (root-scope) binding: the filled outcome
    marked = [positional[i] for i in range(min(n_pos, len(positional))) if args[i] == REQ]
    marked += [p for p, v in kwargs.items() if v == REQ]
    marked += [p for p in shape['required_defaults'] if p not in positional[:n_pos] and p not in kwargs]
    for p in marked:
      if p in pool and not any(b[0] == '' and b[1] == p for b in bindings):
        bindings.append(['', p, 'BF:' + p])
  # keyword arguments in any order (a **kwargs-absorbed name may come before a named one)
  order = draw(st.permutations(sorted(kwargs)))
  kwargs = {k: kwargs[k] for k in order}
  odd = []
  if n_pos > len(positional) and draw(st.integers(0, 2)) == 0:
    # a surplus positional argument with an unhelpful == (mock.ANY, an array): it is not the marker
    odd = [draw(st.integers(len(positional), n_pos - 1))]
  return {'shape': shape, 'entries': entries, 'bindings': bindings, 'args': args,
          'kwargs': kwargs, 'kwargs_order': list(order), 'odd_args': odd,
          'namesake': draw(st.integers(0, 2)) == 0}


def sweep(tier):
  kmax = 3 if tier == 'thorough' else 2
  cases = []
  for pos_n, dflt_n, kwd_n, varargs, varkw in itertools.product((0, 1, 2), (0, 1, 2), (0, 1),
                                                                (False, True), (False, True)):
    if pos_n + dflt_n + kwd_n > kmax or pos_n + dflt_n + kwd_n == 0:
      continue
    pos, dflt, kwd = G.POS[:pos_n], G.DFLT[:dflt_n], G.KWDFLT[:kwd_n]
    defaulted = dflt + kwd
    for r in range(len(defaulted) + 1):
      for req_defaults in itertools.combinations(defaulted, r):
        shape = {'pos': pos, 'dflt': dflt, 'varargs': varargs, 'kwonly': [], 'kwdflt': kwd,
                 'varkw': varkw, 'kind': 'function', 'api': 'configurable',
                 'required_defaults': list(req_defaults)}
        positional = pos + dflt
        named = positional + kwd
        for n_pos in range(len(positional) + 1):
          for pos_vals in itertools.product(['C', REQ], repeat=n_pos):
            rest = named[n_pos:]
            for kw_how in itertools.product(['omit', 'value', 'req'], repeat=len(rest)):
              kwargs = {p: (REQ if h == 'req' else 'K:' + p)
                        for p, h in zip(rest, kw_how) if h != 'omit'}
              for b in range(len(named) + 1):
                for bound in itertools.combinations(named, b):
                  cases.append({'shape': shape, 'entries': [],
                                'bindings': [['', p, None if (len(cases) % 5 == 0) else 'B:' + p]
                                             for p in bound],
                                'args': list(pos_vals), 'kwargs': kwargs})
  if tier != 'thorough':
    cases = cases[::3]
    return cases, False
  return cases, True


SWEEPS = {'small-signatures': sweep}
