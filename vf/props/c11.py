"""C11 — only configurable parameters of registered configurables can ever be bound.

Case: a probe (generated signature, optional allowlist or denylist, function / class / registered
method), a prior configuration, and 1-5 binding attempts, each = (API path, configurable spelling,
scope, parameter class).  Oracle: acceptance model
    registered and (name in signature or **kw) and (no allowlist or listed) and not denylisted
    [and, for a registered method, the spelling contains the class].
Accepted => stored under the complete name, visible to queries and injected on call.
Rejected => raises, and config_str / every prior query / probe results are unchanged.
"""
import contextlib

from hypothesis import strategies as st

from vf import ginenv
from vf.core import OutOfDomain, Violation, ok, require
from vf.gen import signatures as G
from vf.model import bindings as M

gin = ginenv.import_gin()

ID = 'C11'
LEVEL = 'exploration'
ISOLATE = True
BUDGET = {'quick': (16, 150), 'thorough': (16, 3000)}
RULE = ('probe shape (with/without **kw; function, class __init__/__new__, registered method) with '
        'no list / allowlist / denylist x prior configuration x 1-5 attempts over API path '
        '{bind_parameter str key, tuple key, parse_config flat, block member, multi-statement text, '
        'finalize hook with str/tuple key} x spelling {full, short, bare, bare method name, unknown '
        'configurable} x scope x parameter class {in signature, unknown, **kw-only name, listed, '
        'unlisted}. The API x parameter-class x list-kind product is also swept with fixed names. '
        'Non-trivial = a rejected attempt through a path other than bind_parameter(str) on a '
        'non-empty prior configuration, or an accepted **kw-only name. Distinct = distinct case JSON.')
ASSUMPTIONS = ['"self"/"cls" are not user parameters and are not generated',
               'empty allow/deny lists are not generated (falsy == no list)',
               'rejection = ValueError or LookupError (RuntimeError only for the lock)']
FLOORS = {'nontrivial': 0.1, 'verdict:accepted': 0.2, 'verdict:rejected': 0.2,
          'api:hook_str': 0.03, 'api:block': 0.05, 'kind:method': 0.05}
TECHNIQUE = ('model-based property testing: every binding API path x parameter class x list kind '
             'against an acceptance model, with before/after state comparison on rejection; '
             'bounded sweep of the path x class x list product')
LEVEL_TEXT = ('For generated probes and prior configurations, each binding attempt through each '
              'public path is accepted exactly when the acceptance model says so; accepted values '
              'are injected, rejected attempts raise and leave config_str, queries and probe '
              'results byte-identical. The finite product of paths x parameter classes x list '
              'kinds is enumerated. Exploration.')
LEVEL_NOTE = 'Trusted: the acceptance model (5 lines); inspect.signature for probe calls.'

REJECT = (ValueError, LookupError)
APIS = ['bind_str', 'bind_tuple', 'parse_flat', 'block', 'multi', 'hook_str', 'hook_tuple',
        # skip_unknown concerns unknown *configurables* only: what a known one refuses is still an error
        'parse_skip', 'block_skip',
        # a key of four elements is no key form at all (it is what Gin's parsed keys look like inside)
        'bind_tuple4',
        # a parameter "name" that is not a string names no parameter, whether or not there is **kwargs
        'bind_tuple_nonstr']


DYN_SRC = ('class Pipeline:\n'
           '  def __init__(self, name=None):\n    self.name = name\n\n'
           '  def run(self, steps=1, rate=2):\n    return {"steps": steps, "rate": rate}\n\n'
           '  def other(self, x=0):\n    return x\n')
DYN_CONFIG = ('from __gin__ import dynamic_registration\nimport c11dyn.mod as dm\n'
              'dm.Pipeline.run.steps = 3\n')


def check_dyn(case):
  """A method registered through dynamic registration, then addressed from outside that file."""
  import os, shutil, sys, tempfile  # pylint: disable=g-import-not-at-top,multiple-imports
  tmp = tempfile.mkdtemp(prefix='c11-')
  try:
    os.makedirs(os.path.join(tmp, 'c11dyn'))
    open(os.path.join(tmp, 'c11dyn', '__init__.py'), 'w').close()
    with open(os.path.join(tmp, 'c11dyn', 'mod.py'), 'w') as f:
      f.write(DYN_SRC)
    sys.path.insert(0, tmp)
    gin.parse_config(DYN_CONFIG)
    import c11dyn.mod as mod  # pylint: disable=g-import-not-at-top,import-error
    model = {('', 'steps'): 3}
    labels = {'kind:dynamic-method'}
    spell = {'full': 'c11dyn.dm.Pipeline.run', 'short': 'dm.Pipeline.run', 'bare': 'run',
             'class_dot': 'Pipeline.run', 'unknown': 'nosuch_run', 'unknown_mod': 'nosuch.run'}

    def observe():
      out = {}
      for scope in ('', 's'):
        with gin.config_scope(scope or None):
          out[scope] = gin.get_configurable(mod.Pipeline)().run()
        app = M.overlay(model, scope.split('/') if scope else [])
        exp = {'steps': app.get('steps', 1), 'rate': app.get('rate', 2)}
        require(out[scope] == exp, 'injected-values',
                lambda: f'scope {scope!r}: got {out[scope]} model {exp}')
      return out, gin.config_str()

    for api, sp_kind, scope, param, value in case['attempts']:
      sp = spell[sp_kind]
      key = (scope + '/' if scope else '') + sp
      accepted = sp_kind in ('full', 'short', 'class_dot') and param in ('steps', 'rate')
      before = observe()
      if api == 'bind_str':
        fn = lambda: gin.bind_parameter(f'{key}.{param}', value)
      elif api == 'bind_tuple':
        fn = lambda: gin.bind_parameter((scope, sp, param), value)
      elif api in ('parse_flat', 'multi'):
        fn = lambda: gin.parse_config(f'{key}.{param} = {value!r}\n')
      elif api == 'block':
        fn = lambda: gin.parse_config(f'{key}:\n  {param} = {value!r}\n')
      else:
        hk = f'{key}.{param}' if api == 'hook_str' else (scope, sp, param)
        gin.config.register_finalize_hook(lambda config, hk=hk: {hk: value})
        fn = gin.finalize
      try:
        fn()
        raised = None
      except REJECT as e:
        raised = e
      labels.add('api:' + api)
      labels.add('spelling:' + sp_kind)
      if accepted:
        require(raised is None, 'valid-binding-rejected', lambda: f'{api} {key}.{param}: {raised!r}')
        model[(scope, param)] = value
        observe()
        labels.add('verdict:accepted')
      else:
        require(raised is not None, 'invalid-binding-accepted',
                lambda: f'{api} {key}.{param} accepted for a method registered through dynamic '
                        f'registration (bare method name or unknown parameter)')
        require(observe() == before, 'rejected-binding-changed-config', f'{api} {key}.{param}')
        labels.add('verdict:rejected')
        labels.add('nontrivial')
      if api.startswith('hook'):
        break
    return ok(labels, 'nontrivial' in labels)
  finally:
    if tmp in sys.path:
      sys.path.remove(tmp)
    shutil.rmtree(tmp, ignore_errors=True)


CORNER_SOURCES = {
    # kind: (source, {parameter: acceptable?})
    'posonly': ('def {n}(a, b=2, /, c=3, *, d=4):\n  return (a, b, c, d)\n',
                {'a': False, 'b': False, 'c': True, 'd': True, 'zz': False}),
    'posonly_varkw': ('def {n}(a, /, c=3, **kw):\n  return (a, c, kw)\n',
                      {'a': True, 'c': True, 'zz': True}),       # a=... lands in **kw: fine
    'noctor': ('class {n}:\n  pass\n', {'anything': False, 'self': False, 'args': False,
                                          'kwargs': False}),
    'class_self': ('class {n}:\n  def __init__(self, x=1):\n    self.x = x\n',
                   {'self': False, 'x': True, 'zz': False}),
    'class_new_cls': ('class {n}:\n  def __new__(cls, x=1):\n    o = object.__new__(cls)\n'
                      '    o.x = x\n    return o\n', {'cls': False, 'x': True}),
}


def check_corner(case):
  """Signature corners: a parameter the call cannot take by keyword is not a parameter to bind --
  positional-only parameters, the implicit self / cls of a constructor, and anything at all on a
  class that defines no constructor."""
  import sys, types  # pylint: disable=g-import-not-at-top,multiple-imports
  kind, api_reg = case['corner'], case['reg']
  src, verdicts = CORNER_SOURCES[kind]
  mod = types.ModuleType('c11corner')
  mod.gin = gin
  sys.modules['c11corner'] = mod
  exec(src.format(n='probe'), mod.__dict__)  # pylint: disable=exec-used
  obj = mod.probe
  if api_reg == 'configurable':
    gin.configurable(obj)
  elif api_reg == 'register':
    gin.register(obj)
  else:
    gin.external_configurable(obj, module='c11corner')
  labels = {'kind:corner', 'corner:' + kind, 'reg:' + api_reg}
  for api, param in case['attempts']:
    if param not in verdicts:
      continue
    key = f"{case['scope'] + '/' if case['scope'] else ''}c11corner.probe"
    fn = {'bind_str': lambda: gin.bind_parameter(f'{key}.{param}', 1),
          'bind_tuple': lambda: gin.bind_parameter((case['scope'], 'c11corner.probe', param), 1),
          'parse_flat': lambda: gin.parse_config(f'{key}.{param} = 1\n'),
          'block': lambda: gin.parse_config(f'{key}:\n  {param} = 1\n')}[api]
    before = gin.config_str()
    try:
      fn()
      raised = None
    except REJECT as e:
      raised = e
    if verdicts[param]:
      require(raised is None, 'valid-binding-rejected', lambda: f'{kind} {api} {param}: {raised!r}')
      with gin.unlock_config():
        gin.clear_config()
    else:
      require(raised is not None, 'invalid-binding-accepted',
              lambda: f'{kind}: {api} {key}.{param} accepted although the call cannot take '
                      f'{param!r} by keyword')
      require(gin.config_str() == before, 'rejected-binding-changed-config', '')
    labels.add('verdict:' + ('accepted' if verdicts[param] else 'rejected'))
  return ok(labels, True)


def check_case(case):
  if case.get('corner'):
    return check_corner(case)
  if case.get('dyn'):
    return check_dyn(case)
  res = check_static(case)
  if case.get('rereg'):
    # The same selector is re-registered (interactive mode, as in a re-run notebook cell) with a
    # different signature / lists, the configuration is cleared, and binding attempts continue:
    # acceptance must follow the *current* registration, whatever was accepted before.
    with gin.config.interactive_mode():
      built2 = G.build(case['rereg'], gin)
    gin.clear_config()
    res2 = check_static({'shape': case['rereg'], 'prior': case['prior'],
                         'attempts': case['attempts2']}, built2)
    return ok(set(res['labels']) | set(res2['labels']) | {'re-registered', 'nontrivial'}, True)
  return res


def check_static(case, prebuilt=None):
  shape = case['shape']
  built = prebuilt or G.build(shape, gin)
  sig = built.signature()
  named = G.named_params(shape)
  allow, deny = shape.get('allowlist'), shape.get('denylist')
  labels = {'kind:' + shape['kind'], 'lists:' + ('allow' if allow else 'deny' if deny else 'none')}
  if shape.get('decorated'):
    labels.add('decorated-function')
  if shape.get('far_ctor'):
    labels.add('class-with-other-constructor-in-a-base')
  if shape.get('first_lists') is not None:
    labels.add('same-object-registered-before-with-other-lists')
  if shape.get('nested_host') and shape['kind'] == 'method':
    labels.add('method-of-a-nested-or-local-class')
  full = built.selector
  parts = full.split('.')
  is_method = shape['kind'] == 'method'
  spell = {'full': full, 'short': '.'.join(parts[1:]), 'bare': parts[-1],
           'class_dot': '.'.join(parts[-2:]) if is_method else parts[-1],
           # the name a method had before its class was registered: module.method
           'mod_meth': '.'.join(parts[:-2] + parts[-1:]) if is_method else full,
           'unknown': 'nosuch_' + parts[-1], 'unknown_mod': 'nosuch.' + parts[-1]}

  def accept(param, sp):
    if sp.startswith('unknown'):
      return False
    if is_method and sp in ('bare', 'mod_meth'):
      return False
    if param not in named and not shape['varkw']:
      return False
    if allow and param not in allow:
      return False
    if deny and param in deny:
      return False
    return True

  model = {}
  # prior configuration: only acceptable bindings, through the tuple API
  for scope, param, value in case['prior']:
    if accept(param, 'full'):
      gin.bind_parameter((scope, full, param), value)
      model[(scope, param)] = value
  prior_nonempty = bool(model)

  def probe_results():
    out = []
    for scope in ('', 's', 's/t'):
      with gin.config_scope(scope or None):
        app = M.overlay(model, scope.split('/') if scope else [])
        # supply required parameters the config does not provide, so the call succeeds
        kwargs = {p: 'K:' + p for p in shape['pos'] + shape['kwonly'] if p not in app}
        rec = built.call([], kwargs)
        out.append((scope, rec['named'], rec['kw']))
        verdict, exp = M.expected_call(sig, [], kwargs, app)
        require(verdict == 'ok' and exp['named'] == rec['named'] and exp['kw'] == rec['kw'],
                'injected-values', lambda: f'scope={scope!r} got {rec} model {exp} bindings={model}')
    return out

  def snapshot():
    queries = {}
    for (scope, param) in model:
      queries[(scope, param)] = gin.query_parameter(
          f"{scope + '/' if scope else ''}{full}.{param}")
    return gin.config_str(), queries

  for att in case['attempts']:
    api, sp_kind, scope, param, value = att
    sp = spell[sp_kind]
    key = (scope + '/' if scope else '') + sp
    accepted = accept(param, sp_kind)
    labels.add('api:' + api)
    labels.add('spelling:' + sp_kind)
    before = snapshot()
    before_probe = probe_results()
    if api == 'bind_str':
      fn = lambda: gin.bind_parameter(f'{key}.{param}', value)
    elif api == 'bind_tuple':
      fn = lambda: gin.bind_parameter((scope, sp, param), value)
    elif api == 'bind_tuple4':
      fn = lambda: gin.bind_parameter((scope, sp, full, param), value)
      accepted = False
    elif api == 'bind_tuple_nonstr':
      nonstr = [3, None, ('p',), 1.5][len(param) % 4]
      fn = lambda: gin.bind_parameter((scope, sp, nonstr), value)
      accepted = False
    elif api == 'parse_flat':
      fn = lambda: gin.parse_config(f'{key}.{param} = {value!r}\n')
    elif api == 'block':
      fn = lambda: gin.parse_config(f'{key}:\n  {param} = {value!r}\n')
    elif api in ('parse_skip', 'block_skip'):
      su = [True, [sp], (sp, 'nosuch'), {sp}][len(key + param) % 4]
      text = (f'{key}.{param} = {value!r}\n' if api == 'parse_skip'
              else f'{key}:\n  {param} = {value!r}\n')
      fn = lambda: gin.parse_config(text, skip_unknown=su)
    elif api == 'multi':
      # a valid statement before, one after: prefix applied, suffix not (C16), middle per model
      first = shape['dflt'][0] if shape['dflt'] and accept(shape['dflt'][0], 'full') else None
      pre = f"{full}.{first} = 'PRE'\n" if first else ''
      post = f"{full}.{first} = 'POST'\n" if first else ''
      fn = lambda: gin.parse_config(pre + f'{key}.{param} = {value!r}\n' + post)
    elif api in ('hook_str', 'hook_tuple'):
      hk = f'{key}.{param}' if api == 'hook_str' else (scope, sp, param)
      proposals = {hk: value}
      ok_first = next((p for p in named if accept(p, 'full') and p != param), None)
      if not accepted and ok_first is not None:
        # an acceptable proposal precedes the one that must be rejected: nothing may be applied
        proposals = {('zhook', full, ok_first): 'HOOK-OK', hk: value}
        labels.add('hook-with-valid-and-invalid-proposal')
      gin.config.register_finalize_hook(lambda config, proposals=proposals: dict(proposals))
      fn = gin.finalize
    else:
      raise OutOfDomain(api)
    new_model = dict(model)
    multi_prefix = api == 'multi' and first
    if multi_prefix:
      new_model[('', first)] = 'PRE'
    if accepted:
      new_model[(scope, param)] = value
      if multi_prefix:
        new_model[('', first)] = 'POST'
    try:
      fn()
      raised = None
    except REJECT as e:
      raised = e
    if api in ('parse_skip', 'block_skip') and is_method and sp_kind in ('bare', 'mod_meth'):
      # a spelling without the class name matches no configurable: rejected, or (being "unknown")
      # skipped -- in both cases nothing may change
      require(snapshot() == before and probe_results() == before_probe,
              'unaddressable-method-binding-changed-config', f'{api} {key}.{param}')
      labels.add('verdict:rejected-or-skipped')
      continue
    if api in ('parse_skip', 'block_skip') and sp_kind.startswith('unknown'):
      # an unknown configurable is what skip_unknown is for: dropped silently, nothing changes
      require(raised is None, 'covered-unknown-configurable-rejected', lambda: f'{raised!r}')
      require(snapshot() == before and probe_results() == before_probe,
              'skipped-binding-changed-config', f'{api} {key}.{param}')
      labels.add('verdict:skipped')
      continue
    if accepted:
      require(raised is None, 'valid-binding-rejected',
              lambda: f'{api} {key}.{param}: {raised!r}; allow={allow} deny={deny}')
    else:
      require(raised is not None, 'invalid-binding-accepted',
              lambda: f'{api} {key}.{param} accepted; allow={allow} deny={deny} named={named} '
                      f'varkw={shape["varkw"]} method={is_method}')
    model.clear()
    model.update(new_model)
    after = snapshot()
    require(after[1] == model, 'stored-values',
            lambda: f'after {api} {key}.{param} (accepted={accepted}): queries {after[1]} '
                    f'model {model}')
    if not accepted and not multi_prefix:
      require(after == before, 'rejected-binding-changed-config',
              lambda: f'{api} {key}.{param}\n--- before:\n{before[0]}\n--- after:\n{after[0]}')
      require(probe_results() == before_probe, 'rejected-binding-changed-calls', '')
    else:
      probe_results()
    labels.add('verdict:accepted' if accepted else 'verdict:rejected')
    if accepted and param not in named:
      labels.add('accepted-kw-only-name')
    if not accepted and api != 'bind_str' and prior_nonempty:
      labels.add('nontrivial')
    if api.startswith('hook'):
      require(gin.config_is_locked() == accepted, 'lock-state-after-finalize',
              lambda: f'accepted={accepted} locked={gin.config_is_locked()}')
      break
  if 'accepted-kw-only-name' in labels:
    labels.add('nontrivial')
  return ok(labels, 'nontrivial' in labels)


# ------------------------------------------------------------------------------ strategies
SCOPES = ['', '', 's', 's/t', 'other']


def _param_classes(shape):
  named = G.named_params(shape)
  # 'args' / 'kw' are the names of the variadic parameters in the generated signatures: they are
  # not parameters a binding can name (unless **kw accepts any name)
  return (named + ['zz_unknown'] + G.EXTRA[:1] + ['args', 'kw'] +
          (['zz_base', 'zz_base'] if shape.get('far_ctor') else []) +
          # the already bound `self` of a callable object / bound method is no parameter
          (['self', 'self'] if shape['kind'] in ('callobj', 'boundmethod') and not shape['varkw']
           else []))


@st.composite
def _dyn_case(draw):
  attempts = []
  for i in range(draw(st.integers(1, 4))):
    attempts.append([draw(st.sampled_from(APIS[:7])),
                     draw(st.sampled_from(['full', 'short', 'bare', 'bare', 'class_dot', 'unknown'])),
                     draw(st.sampled_from(['', '', 's'])),
                     draw(st.sampled_from(['steps', 'rate', 'zz_unknown'])), 'A%d' % i])
  return {'dyn': True, 'attempts': attempts}


@st.composite
def _corner_case(draw):
  kind = draw(st.sampled_from(sorted(CORNER_SOURCES)))
  params = sorted(CORNER_SOURCES[kind][1])
  return {'corner': kind, 'reg': draw(st.sampled_from(['configurable', 'register', 'external'])),
          'scope': draw(st.sampled_from(['', 's'])),
          'attempts': draw(st.lists(st.tuples(
              st.sampled_from(['bind_str', 'bind_tuple', 'parse_flat', 'block']),
              st.sampled_from(params)).map(list), min_size=1, max_size=4))}


def strategy():
  return st.one_of(_static_case(), _static_case(), _static_case(), _static_case(), _dyn_case(),
                   _corner_case())


@st.composite
def _static_case(draw):
  shape = draw(G.shapes(kinds=('function', 'function', 'class_init', 'class_new', 'method',
                               'callobj', 'boundmethod')))
  if shape['kind'] in ('callobj', 'boundmethod') and shape['api'] == 'configurable':
    shape['api'] = 'external'
  shape['method_api'] = 'register'
  if shape['kind'] == 'boundmethod' and draw(st.booleans()):
    shape['plain_function_first'] = True
  if shape['kind'] == 'method':
    shape['method_contains_class'] = draw(st.booleans())
    shape['nested_host'] = draw(st.sampled_from([None, None, 'class', 'function']))
    if shape['nested_host'] is None and draw(st.booleans()):
      # a later class of the same module has a registered method of the same name: what is bound
      # (and injected) for this method is not affected by it
      shape['later_sibling'] = True
  if shape['kind'] == 'function' and draw(st.integers(0, 2)) == 0:
    # the function is wrapped by 1-2 functools.wraps decorators before it is registered: its
    # configurable parameters are still those of the real signature
    shape['decorated'] = draw(st.integers(1, 2))
  if shape['kind'] in ('class_init', 'class_new') and draw(st.integers(0, 2)) == 0:
    shape['far_ctor'] = True
  named = G.named_params(shape)
  lists = draw(st.sampled_from(['none', 'allow', 'deny']))
  pool = named + (G.EXTRA if shape['varkw'] else [])
  if lists != 'none' and pool:
    subset = draw(st.lists(st.sampled_from(pool), unique=True, min_size=1, max_size=4))
    shape['allowlist' if lists == 'allow' else 'denylist'] = subset
  if (shape['kind'] == 'function' and shape['api'] != 'configurable' and not shape.get('decorated')
      and named and draw(st.integers(0, 3)) == 0):
    # registered before under the same name with other lists (which no longer count)
    other = draw(st.lists(st.sampled_from(named), unique=True, min_size=1, max_size=3))
    shape['first_lists'] = {draw(st.sampled_from(['allowlist', 'denylist'])): other}
  params = _param_classes(shape)
  prior = []
  for i in range(draw(st.integers(0, 5))):
    prior.append([draw(st.sampled_from(SCOPES[:4])), draw(st.sampled_from(params)), 'P%d' % i])
  attempts = []
  for i in range(draw(st.integers(1, 5))):
    sp = draw(st.sampled_from(['full', 'full', 'short', 'bare', 'class_dot', 'mod_meth', 'unknown',
                               'unknown_mod']))
    # whether a binding is accepted never depends on the value: falsy values included
    attempts.append([draw(st.sampled_from(APIS)), sp, draw(st.sampled_from(SCOPES)),
                     draw(st.sampled_from(params)),
                     draw(st.sampled_from(['A%d' % i, 'A%d' % i, None, 0, '', False]))])
  case = {'shape': shape, 'prior': prior, 'attempts': attempts}
  if shape['kind'] == 'function' and draw(st.integers(0, 3)) == 0:
    # re-registration scenario: fixed selector c11m.pr, no finalize-hook paths (hooks would
    # outlive the first registration)
    shape.update(name='pr', gin_module='c11m')
    shape2 = draw(G.shapes(kinds=('function',)))
    shape2.update(name='pr', gin_module='c11m')
    if draw(st.booleans()) and G.named_params(shape2):
      shape2['denylist'] = draw(st.lists(st.sampled_from(G.named_params(shape2)), unique=True,
                                         min_size=1, max_size=2))
    params2 = G.named_params(shape) + G.named_params(shape2) + ['zz_unknown']
    no_hooks = [a for a in APIS if not a.startswith('hook')]
    case['attempts'] = [a for a in attempts if not a[0].startswith('hook')] or [
        ['bind_str', 'full', '', params2[0], 'A0']]
    case['rereg'] = shape2
    case['attempts2'] = [[draw(st.sampled_from(no_hooks)),
                          draw(st.sampled_from(['full', 'short', 'bare'])),
                          draw(st.sampled_from(SCOPES)), draw(st.sampled_from(params2)), 'B%d' % i]
                         for i in range(draw(st.integers(1, 4)))]
  return case


def sweep(tier):
  cases = []
  base = {'pos': ['w'], 'dflt': ['v', 'e'], 'varargs': True, 'kwonly': [], 'kwdflt': ['t'],
          'method_api': 'register'}
  for kind in ('function', 'class_init', 'method'):
    for api_reg in ('configurable', 'register', 'external'):
      for varkw in (False, True):
        for lists in (None, ('allowlist', ['v', 't']), ('denylist', ['v']),
                      ('allowlist', ['x']) if varkw else None):
          if lists is None and False:
            continue
          shape = dict(base, kind=kind, api=api_reg, varkw=varkw)
          if kind == 'function' and api_reg == 'configurable':
            shape['decorated'] = 1
          if kind == 'method' and api_reg == 'register':
            shape['method_contains_class'] = True
          if lists:
            shape[lists[0]] = lists[1]
          for api in APIS:
            for sp in ('full', 'bare', 'mod_meth', 'unknown'):
              for param in ('v', 'e', 'w', 'zz_unknown', 'x', 'args'):
                cases.append({'shape': shape, 'prior': [['', 't', 'P0'], ['s', 'e', 'P1']],
                              'attempts': [[api, sp, 's', param, 'A0']]})
  seen, out = set(), []
  from vf.core import canon  # pylint: disable=g-import-not-at-top
  for c in cases:
    k = canon(c)
    if k not in seen:
      seen.add(k)
      out.append(c)
  if tier != 'thorough':
    out = out[::2]
    return out, False
  return out, True


SWEEPS = {'path-x-class-x-list': sweep}
