"""C09 — config scopes nest, are restored on every exit path, and are private to a thread.

single : a program tree of config_scope entries (name, a/b shorthand, fresh list, previously
         captured scope, None, '', and invalid values of many kinds) with normal / exceptional
         exits, probe calls and current_scope() reads at every point, against a model stack.
         Bounded sweep: every chain of depth <=2 (quick) / <=3 (thorough) over all entry x exit kinds.
threads: 2-4 such programs, one per thread, under a harness-owned schedule (vf/sched.py); every
         thread must observe exactly what it observes when run alone.
"""
import os
import random

from hypothesis import strategies as st

from vf import ginenv, sched
from vf.core import OutOfDomain, Violation, ok, require
from vf.model import bindings as M

gin = ginenv.import_gin()

ID = 'C09'
LEVEL = 'exploration'
ISOLATE = True
BUDGET = {'quick': (8, 150), 'thorough': (16, 3000)}
RULE = ('single: trees of depth <=6, <=14 nodes, of with-blocks over 6 valid entry kinds (name, '
        'a/b, list, captured scope, None, "") and 16 invalid values (wrong types, empty / blank / '
        'invalid components, lists with bad members, objects whose truth value or == raises incl. '
        'a 2-element numpy array), exits normal, by an Exception or a BaseException raised in the body, or by closing a generator suspended inside the block; calls of scoped configurables / scoped references shared between threads; after every '
        'step current_scope()/current_scope_str() and a scoped probe call are compared with a model '
        'stack. Sweep: all chains of nesting depth <=2/<=3 x exit kinds (exhaustive). threads: 2-4 '
        'programs under a generated schedule (line granularity inside gin/). Non-trivial (single) = '
        'depth>=3 with an exceptional exit (body or invalid entry) and a replace/clear entry; '
        '(threads) = >=2 context switches while another thread is inside a with block. Distinct = '
        'distinct case JSON.')
ASSUMPTIONS = ['an invalid entry must raise (ValueError or TypeError for plain wrong values; '
               'whatever the object raises for values whose truth value / equality raises) and '
               'leave the active scope as before the attempt',
               'captured scope lists are re-entered, never mutated by the program',
               'threads: sampled line-granularity schedules; absence of a race is not established']
# the exhaustive depth<=2 sweep (never non-trivial: the rule asks for depth >= 3) is part of the
# kind:single denominator
FLOORS = {'single:nontrivial': (0.04, 'kind:single'), 'successive:nontrivial': (0.5, 'kind:successive'), 'entry:invalid': (0.3, 'kind:single'),
          'entry:raising-object': (0.08, 'kind:single'), 'exit:raise': (0.3, 'kind:single'),
          'threads:nontrivial': (0.3, 'kind:threads')}
TECHNIQUE = ('model-based property testing of scope-entry programs (generated trees + exhaustive '
             'sweep of short chains) and schedule-controlled multi-thread runs against per-thread '
             'sequential expectations')
LEVEL_TEXT = ('Generated and exhaustively enumerated nesting programs are checked step by step '
              'against a model stack (scope, scope string and the bindings a probe receives), '
              'including exceptional exits and invalid entries of many kinds; multi-thread programs '
              'run under generated deterministic interleavings and each thread must observe what '
              'it observes alone. Exploration; schedules are sampled.')
LEVEL_NOTE = 'Trusted: the 10-line model stack; vf/sched.py; overlay model of vf/model/bindings.py.'


@gin.configurable('c09probe')
def _probe(p='default'):
  return p


BINDINGS = {('', 'p'): 'root', ('a', 'p'): 'in-a', ('a/b', 'p'): 'in-a/b', ('x', 'p'): 'in-x',
            ('x/y', 'p'): 'in-x/y', ('b', 'p'): 'in-b', ('a/x', 'p'): 'in-a/x'}
CONFIG = '\n'.join(f"{s + '/' if s else ''}c09probe.p = {v!r}" for (s, _), v in BINDINGS.items())


class _BodyError(Exception):
  pass


class _BaseBodyError(BaseException):
  """Leaves a block the way KeyboardInterrupt / SystemExit / GeneratorExit do."""


@gin.configurable('c09user')
def _user(x=None):
  return x


SHARED_SCOPES = ['a', 'x/y', 'a/b', 'b']
SHARED = []      # scoped callables shared by all threads of a case (built per case)


def build_shared():
  del SHARED[:]
  for sc in SHARED_SCOPES:
    SHARED.append((sc, gin.get_configurable(f'{sc}/c09probe')))
  gin.parse_config('c09user.x = @a/b/c09probe()')
  SHARED.append(('a/b', _user))


class _BoolRaises:

  def __bool__(self):
    raise RuntimeError('truth value is undefined')


class _EqRaises:
  __hash__ = None

  def __eq__(self, other):
    raise RuntimeError('comparison is undefined')

  def __bool__(self):
    return False


class _StrSub(str):
  pass


class _ListSub(list):
  pass


def bad_value(i):
  vals = [
      lambda: 3, lambda: 0, lambda: 1.5, lambda: ('a', 'b'), lambda: {'a': 1}, lambda: b'a',
      lambda: 'a//b', lambda: ' ', lambda: 'a b', lambda: '1x', lambda: 'a/', lambda: '/a',
      lambda: ['a', '1x'], lambda: ['a', ''], lambda: ['a', 3],
      _BoolRaises, _EqRaises, lambda: object(), lambda: True, lambda: 'a.b/c d',
  ]
  f = vals[i % (len(vals) + 1)] if i % (len(vals) + 1) < len(vals) else None
  if f is None:
    try:
      import numpy  # pylint: disable=g-import-not-at-top
      return numpy.array([1, 2]), 'numpy-array'
    except ImportError:
      return _BoolRaises(), 'raising-object'
  v = f()
  kind = 'raising-object' if isinstance(v, (_BoolRaises, _EqRaises)) else 'plain-invalid'
  return v, kind


N_BAD = 21


def run_program(nodes, observe, captured, labels, yield_now=lambda: None, depth=0):
  """Executes the program against Gin; the model is tracked in `stack` (closure of observe)."""
  for node in nodes:
    yield_now()
    kind = node[0]
    if kind == 'check':
      observe(call=False)
    elif kind == 'call':
      observe(call=True)
    elif kind == 'by-object':
      # the configurable obtained by *object* (no scope in sight) while some scope is active: it
      # is the version for the scope active now, whatever was active the last time it was asked for
      got = gin.get_configurable(_probe)()
      want = M.overlay(BINDINGS, observe.stack.current).get('p', 'default')
      require(got == want, 'lookup-by-object',
              lambda: f'get_configurable(probe)() under {observe.stack.current}: {got!r}, '
                      f'expected {want!r}')
      labels.add('lookup-by-object-under-a-scope')
    elif kind == 'decorated':
      # config_scope(name) as a decorator on a function that calls itself: every level enters the
      # scope once more and leaves it again, whether it returns or raises
      _, name, levels, how = node
      model = observe.stack

      @gin.config_scope(name)
      def rec(d):
        model.enter(name)
        try:
          observe(call=True, what=f'decorated level {d}')
          if d > 1:
            try:
              rec(d - 1)
            except _BodyError:
              if how != 'raise-caught':
                raise
            observe(call=True, what=f'decorated level {d} after the inner call')
          elif how in ('raise', 'raise-caught'):
            raise _BodyError()
        finally:
          model.exit()

      try:
        rec(levels)
      except _BodyError:
        pass
      labels.add('config_scope-as-decorator-on-recursive-function')
      observe(call=True, what='after the decorated recursion')
    elif kind == 'reload':
      # the configuration is cleared and loaded again inside whatever scopes are open: clearing
      # the bindings has nothing to do with the scopes that are active
      gin.clear_config()
      gin.parse_config(CONFIG)
      gin.parse_config('c09user.x = @a/b/c09probe()')
      labels.add('clear_config-inside-open-scopes')
      observe(call=True, what='after clear_config + parse inside the open scopes')
    elif kind == 'make':
      # a scope manager created here and entered later, possibly inside another scope: what counts
      # is the scope active when it is *entered*
      observe.stash.append((node[1], gin.config_scope(node[1])))
      labels.add('manager-created-ahead')
    elif kind == 'scribble':
      # what current_scope() returns is the caller's to edit: the active scope is not affected
      lst = gin.current_scope()
      lst.append('zz')
      lst.reverse()
      del lst[1:]
      labels.add('edit-returned-scope-list')
      observe(call=True, what='after editing the list returned by current_scope()')
    elif kind == 'scoped-call':
      # a scoped configurable / a scoped reference shared with the other threads: it must run
      # under exactly its own scope, whatever is active here or elsewhere, and change nothing
      sc, fn = SHARED[node[1] % len(SHARED)]
      got = fn()
      want = M.overlay(BINDINGS, sc.split('/')).get('p', 'default')
      require(got == want, 'scoped-callable',
              lambda: f'callable scoped {sc!r} returned {got!r}, expected {want!r} '
                      f'(active scope {observe.stack.current})')
      labels.add('scoped-call')
      observe(call=False, what='after scoped call')
    elif kind == 'with':
      _, spec, exit_kind, children = node
      model = observe.stack
      stored_cm = None
      if spec[0] == 'name':
        entry, valid = spec[1], True
      elif spec[0] == 'list':
        entry, valid = list(spec[1]), True
      elif spec[0] == 'captured':
        if captured:
          entry, valid = captured[spec[1] % len(captured)], True
        else:
          entry, valid = [], True
      elif spec[0] == 'strsub':
        # an instance of a str subclass (a `class Mode(str, Enum)` member, a path-like str) is a name
        entry, valid = _StrSub(spec[1]), True
      elif spec[0] == 'listsub':
        # ... and an instance of a list subclass is an explicit scope
        entry, valid = _ListSub(spec[1]), True
      elif spec[0] == 'stored':
        if observe.stash:
          entry, stored_cm = observe.stash.pop(spec[1] % len(observe.stash))
          labels.add('entry:stored-manager')
          if model.current:
            labels.add('stored-manager-entered-inside-a-scope')
        else:
          entry, stored_cm = 'a', None
        valid = True
      elif spec[0] == 'derived':
        # a child (or sibling) scope derived by editing the list current_scope() returned, then
        # entered as an explicit list
        entry, valid = gin.current_scope(), True
        if spec[2] and entry:
          entry[-1] = spec[1]
        else:
          entry.append(spec[1])
      elif spec[0] == 'none':
        entry, valid = None, True
      elif spec[0] == 'empty':
        entry, valid = '', True
      else:
        (entry, bad_kind), valid = bad_value(spec[1]), False
        labels.add('entry:invalid')
        labels.add('entry:' + bad_kind)
      labels.add('entry:' + spec[0])
      before = model.current
      if not valid:
        try:
          with gin.config_scope(entry):
            raise Violation('invalid-scope-accepted', f'{spec}: {entry!r}')
        except Violation:
          raise
        except Exception as e:  # pylint: disable=broad-except
          if bad_kind == 'plain-invalid':
            require(isinstance(e, (ValueError, TypeError)), 'invalid-scope-exception-class',
                    lambda: f'{entry!r}: {type(e).__name__}: {e}')
        observe(call=True, what=f'after rejected entry {spec}')
        labels.add('exit:invalid-entry')
        continue
      entered = [False]

      def body():
        """The with block, as a generator so that it can also be left by GeneratorExit."""
        with (stored_cm if stored_cm is not None else gin.config_scope(entry)) as yielded:
          entered[0] = True
          model.enter(list(entry) if isinstance(entry, list) else str(entry) if entry else entry)
          require(yielded == model.current, 'yielded-scope',
                  lambda: f'{spec}: yielded {yielded} model {model.current}')
          captured.append(yielded)
          observe.snaps.append((yielded, list(model.current)))
          if isinstance(entry, list):
            observe.snaps.append((entry, list(model.current)))
          del observe.snaps[:-24]
          observe(call=True, what=f'inside {spec}')
          run_program(children, observe, captured, labels, yield_now, depth + 1)
          observe(call=False, what=f'end of body {spec}')
          if exit_kind == 'raise':
            labels.add('exit:raise')
            raise _BodyError()
          if exit_kind == 'raise-base':
            labels.add('exit:raise-base')
            raise _BaseBodyError()
          yield

      try:
        g = body()
        try:
          next(g)          # runs the block up to its end; the scope is still active here
          if exit_kind == 'genclose':
            labels.add('exit:generator-close')
            observe(call=True, what=f'suspended inside {spec}')
            g.close()      # GeneratorExit is thrown at the yield: the block is left by it
          else:
            for _ in g:    # resume: leave the block normally
              pass
        finally:
          g.close()
      except _BodyError:
        if exit_kind != 'raise':
          raise
      except _BaseBodyError:
        if exit_kind != 'raise-base':
          raise
      finally:
        if entered[0]:
          model.exit()
      require(model.current == before, 'model-error', '')
      observe(call=True, what=f'after leaving {spec} ({exit_kind})')
      if depth + 1 >= 3:
        labels.add('depth>=3')


def make_observer(log, label):
  stack = M.ScopeStack()

  def observe(call=True, what=''):
    cur = gin.current_scope()
    exp = stack.current
    require(cur == exp, 'active-scope',
            lambda: f'{label}{what}: current_scope()={cur} model={exp}')
    s = gin.current_scope_str()
    require(s == '/'.join(exp), 'active-scope-str', lambda: f'{label}{what}: {s!r} vs {exp}')
    if call:
      got = _probe()
      want = M.overlay(BINDINGS, exp).get('p', 'default')
      require(got == want, 'scoped-binding',
              lambda: f'{label}{what}: probe got {got!r}, model {want!r} under {exp}')
    # Scope lists the program holds (yielded by `with ... as s`, or passed in as an explicit list)
    # and never edits: nothing Gin does later -- entering a nested scope, leaving one, another
    # activation of the same list -- may change them.
    for obj, snap in snaps:
      require(list(obj) == snap, 'held-scope-list-changed',
              lambda: f'{label}{what}: a scope list held by the program reads {list(obj)}, '
                      f'it was {snap} when obtained (active scope {exp})')
    log.append(tuple(cur))

  snaps = []
  observe.stack = stack
  observe.stash = []
  observe.snaps = snaps
  return observe


def check_single(case):
  gin.clear_config()
  gin.parse_config(CONFIG)
  build_shared()
  labels = {'kind:single'}
  log = []
  observe = make_observer(log, '')
  try:
    run_program(case['program'], observe, [], labels)
  except IndexError as e:
    raise Violation('scope-stack-corrupted', f'IndexError: {e}')
  require(gin.current_scope() == [], 'scope-not-restored-at-end', str(gin.current_scope()))
  nt = ('depth>=3' in labels and bool(labels & {'exit:raise', 'exit:raise-base', 'exit:generator-close', 'exit:invalid-entry'}) and
        bool(labels & {'entry:list', 'entry:captured', 'entry:derived', 'entry:stored-manager',
                       'entry:none', 'entry:empty'}))
  if nt:
    labels.add('single:nontrivial')
  return ok(labels, nt)


def check_threads(case):
  gin.clear_config()
  gin.parse_config(CONFIG)
  build_shared()
  tape = case['schedule']
  choices = sched.expand_schedule(tape)
  s = sched.Scheduler(choices, [os.path.dirname(gin.__file__)], watch=('config_scope',))
  sched.install_coop_locks(gin.config, s)
  n = len(case['programs'])
  labels = {'kind:threads', f'threads:{n}'}
  failures = [None] * n

  def program(i):
    def run():
      log = []
      observe = make_observer(log, f'thread {i}: ')
      try:
        run_program(case['programs'][i], observe, [], set(), s.yield_now)
        require(gin.current_scope() == [], 'scope-not-restored-at-end',
                f'thread {i}: {gin.current_scope()}')
      except Violation as v:
        failures[i] = v
    return run

  try:
    _, errors = s.run([program(i) for i in range(n)])
  except sched.Deadlock as e:
    raise Violation('deadlock', str(e))
  except sched.Stuck as e:
    raise OutOfDomain(f'inconclusive: {e}')
  for i in range(n):
    if failures[i] is not None:
      raise Violation('thread:' + failures[i].kind,
                      failures[i].detail + f'\ntrace tail: {s.trace[-10:]}')
    if errors[i] is not None:
      raise Violation('thread-failed', f'thread {i}: {type(errors[i]).__name__}: {errors[i]}')
  require(gin.current_scope() == [], 'main-thread-scope-changed', str(gin.current_scope()))
  nt = s.switches >= 2 and 'config_scope' in s.watch_hits
  if nt:
    labels.add('threads:nontrivial')
  return ok(labels, nt)


_KEEP = []     # suspended generators are kept alive: they are never finalised in another thread


def check_successive(case):
  """Threads run one after another (each joined before the next starts); a thread may end while a
  scope is still open in it (a generator suspended inside the with block that outlives the
  thread).  Every new thread starts in the root scope, whatever earlier threads left behind --
  thread identifiers are commonly reused -- and the main thread's scope never changes."""
  import threading  # pylint: disable=g-import-not-at-top
  gin.clear_config()
  gin.parse_config(CONFIG)
  build_shared()
  labels = {'kind:successive'}
  idents = []
  main_entry = case.get('main_scope') or None
  with gin.config_scope(main_entry):
    main_before = gin.current_scope()
    for i, (program, leave) in enumerate(case['threads']):
      failure = []

      def run(program=program, leave=leave, i=i):
        try:
          idents.append(threading.get_ident())
          observe = make_observer([], f'thread #{i}: ')
          observe(call=True, what='at thread start')
          run_program(program, observe, [], labels)
          observe(call=True, what='after the program')
          if leave:
            def hold():
              with gin.config_scope(leave):
                yield
            g = hold()
            next(g)
            _KEEP.append(g)
            labels.add('thread-ended-inside-a-scope')
        except Violation as v:
          failure.append(v)
        except IndexError as e:
          failure.append(Violation('scope-stack-corrupted', f'thread #{i}: IndexError: {e}'))

      if case.get('ctxcopy') and i % 2 == 1:
        # a thread whose target runs in a copy of this thread's context (what asyncio.to_thread
        # and some executors do): still a thread of its own as far as scopes go
        import contextvars  # pylint: disable=g-import-not-at-top
        t = threading.Thread(target=contextvars.copy_context().run, args=(run,))
        labels.add('thread-runs-in-a-copied-context')
      else:
        t = threading.Thread(target=run)
      t.start()
      t.join()
      if failure:
        raise failure[0]
      require(gin.current_scope() == main_before, 'main-thread-scope-changed',
              lambda: f'after thread #{i}: {gin.current_scope()} vs {main_before}')
  if len(set(idents)) < len(idents):
    labels.add('thread-identifier-reused')
  nt = 'thread-ended-inside-a-scope' in labels and len(case['threads']) >= 2
  if nt:
    labels.add('successive:nontrivial')
  return ok(labels, nt)


def check_case(case):
  if case['kind'] == 'single':
    return check_single(case)
  if case['kind'] == 'successive':
    return check_successive(case)
  return check_threads(case)


# ------------------------------------------------------------------------------ strategies
_spec = st.one_of(
    st.sampled_from(['a', 'b', 'x', 'y']).map(lambda n: ['name', n]),
    st.sampled_from(['a/b', 'x/y', 'a/x', 'b/a/x']).map(lambda n: ['name', n]),
    st.lists(st.sampled_from(['a', 'b', 'x', 'y']), max_size=3).map(lambda l: ['list', l]),
    st.integers(0, 5).map(lambda k: ['captured', k]),
    st.tuples(st.sampled_from(['a', 'b', 'x']), st.booleans()).map(lambda t: ['derived', t[0], t[1]]),
    st.integers(0, 3).map(lambda k: ['stored', k]),
    st.sampled_from(['a', 'x/y']).map(lambda n: ['strsub', n]),
    st.sampled_from([['x'], ['a', 'b'], []]).map(lambda l: ['listsub', l]),
    st.just(['none']), st.just(['empty']),
    st.integers(0, N_BAD - 1).map(lambda i: ['bad', i]),
    st.integers(0, N_BAD - 1).map(lambda i: ['bad', i]))
_valid_spec = st.one_of(
    st.sampled_from(['a', 'b', 'x', 'a/b', 'x/y']).map(lambda n: ['name', n]),
    st.lists(st.sampled_from(['a', 'b', 'x', 'y']), max_size=3).map(lambda l: ['list', l]),
    st.tuples(st.sampled_from(['a', 'b', 'x']), st.booleans()).map(lambda t: ['derived', t[0], t[1]]),
    st.integers(0, 3).map(lambda k: ['stored', k]),
    st.just(['none']))


def _nodes(depth, spec=_spec, single=False):
  leaf = st.sampled_from(([['reload'], ['decorated', 'a', 2, 'normal'], ['decorated', 'x/y', 3, 'raise'],
                           ['decorated', 'b', 2, 'raise-caught'], ['decorated', 'a', 1, 'normal']]
                          if single else []) + [['by-object'], ['check'], ['call'], ['scribble'], ['make', 'b'], ['make', 'x/y'],
                          ['scoped-call', 0], ['scoped-call', 1],
                          ['scoped-call', 2], ['scoped-call', 4]])
  if depth <= 0:
    return st.lists(leaf, max_size=2)
  node = st.one_of(
      leaf,
      st.tuples(st.just('with'), spec, st.sampled_from(['normal', 'normal', 'raise']),
                _nodes(depth - 1, spec, single)).map(list),
      st.tuples(st.just('with'), spec, st.sampled_from(['normal', 'raise', 'raise-base',
                                                        'genclose']),
                _nodes(depth - 1, spec, single)).map(list))
  return st.lists(node, min_size=1, max_size=3)


@st.composite
def _threads_case(draw):
  n = draw(st.sampled_from([2, 2, 3, 4]))
  spec = st.one_of(_valid_spec, _valid_spec, _spec)
  programs = [draw(_nodes(2, spec)) for _ in range(n)]
  schedule = {'t': draw(st.lists(st.integers(0, 3), max_size=40)),
              's': draw(st.integers(1, 2**31)), 'n': draw(st.sampled_from([100, 300, 560, 1500])), 'burst': draw(st.booleans())}
  return {'kind': 'threads', 'programs': programs, 'schedule': schedule}


@st.composite
def _successive_case(draw):
  threads = [[draw(_nodes(2, _valid_spec)), draw(st.sampled_from(['', 'a', 'a/b', 'x']))]
             for _ in range(draw(st.integers(2, 4)))]
  return {'kind': 'successive', 'threads': threads, 'ctxcopy': draw(st.booleans()),
          'main_scope': draw(st.sampled_from(['', '', 'y', 'b/a']))}


def strategy():
  single = _nodes(5, single=True).map(lambda p: {'kind': 'single', 'program': p})
  return st.one_of(single, single, single, single, _threads_case(), _threads_case(),
                   _successive_case())


def sweep(tier):
  kmax = 3 if tier == 'thorough' else 2
  specs = [['name', 'a'], ['name', 'a/b'], ['list', ['x', 'y']], ['list', []], ['captured', 0],
           ['derived', 'b', False],
           ['none'], ['empty'], ['bad', 6], ['bad', 14], ['bad', 15], ['bad', 16], ['bad', 20]]
  exits = ('normal', 'raise', 'raise-base', 'genclose') if tier == 'thorough' else (
      'normal', 'raise', 'genclose')
  entries = [(sp, ex) for sp in specs for ex in exits]
  cases = []

  def build(chain):
    inner = [['call'], ['scoped-call', 2]]
    for sp, ex in reversed(chain):
      inner = [['with', sp, ex, inner], ['check']]
    return inner

  # depth <= 2: every entry kind x exit kind; depth 3 (thorough): a representative half of the
  # entry kinds (one of each class) x every exit kind -- still exhaustive for that bound
  core = [sp for sp in specs if sp in (['name', 'a/b'], ['list', ['x', 'y']], ['captured', 0],
                                       ['none'], ['bad', 6], ['bad', 15])]
  deep_entries = [(sp, ex) for sp in core for ex in exits]

  def rec(chain):
    if chain:
      cases.append({'kind': 'single', 'program': build(chain)})
    if len(chain) < kmax:
      for e in (entries if len(chain) < 2 and kmax < 3 or len(chain) < 1 else
                entries if kmax < 3 else deep_entries):
        rec(chain + [e])

  rec([])
  return cases, True


SWEEPS = {'chains': sweep}
