"""C18 — shared records stay consistent under threads; singletons are constructed once.

threads cases : 2-4 thread programs (call a probe in a shared / distinct scope, read
                operative_config_str(), use a singleton for the first time) run under a
                harness-owned schedule (vf/sched.py): the interleaving is part of the case.
sequential    : one-thread histories of singleton uses and clear_config.
"""
import random
import collections
import gc
import warnings

from hypothesis import strategies as st

from vf import ginenv, sched
from vf.core import OutOfDomain, Violation, ok, require

gin = ginenv.import_gin()
from gin import config_parser  # pylint: disable=g-import-not-at-top

ID = 'C18'
LEVEL = 'exploration'
ISOLATE = True
BUDGET = {'quick': (8, 250), 'thorough': (16, 2500)}
RULE = ('threads: 2-4 programs of 1-5 ops from {call probe i under scope s, read '
        'operative_config_str, use singleton k through a configurable reference or through '
        'singleton_value} + a schedule = explicit list of thread picks followed by a seeded '
        'PRNG tail (<=600 scheduling steps at source-line granularity inside gin/). sequential: '
        '1-8 ops from {use singleton k, clear_config + re-parse}, each executed on the main thread or on a long-lived second thread (one at a time). Non-trivial (threads) = the '
        'trace shows >=1 context switch while another thread was inside the singleton '
        'lookup-or-construct or inside the operative-record update / serialisation; (sequential) '
        '= a clear between two uses of one key. Distinct = distinct case JSON.')
ASSUMPTIONS = ['interleavings are explored at source-line granularity inside Gin; single C-level '
               'operations (dict.update, list.append) are atomic under the GIL',
               'module-level threading locks of gin.config are replaced by cooperative '
               'equivalents; a lock created elsewhere makes the run inconclusive, not failing',
               'sampled schedules: absence of a race is not established']
FLOORS = {'threads:nontrivial': (0.3, 'kind:threads'), 'switch-inside:singleton_value':
          (0.1, 'kind:threads'), 'switch-inside:_config_str': (0.1, 'kind:threads'),
          'same-singleton-raced': (0.15, 'kind:threads')}
TECHNIQUE = ('schedule-controlled concurrency testing: Hypothesis-generated thread programs and '
             'schedules executed by a deterministic settrace scheduler, against a sequential '
             'reference run')
LEVEL_TEXT = ('Generated thread programs are run under generated interleavings (line granularity '
              'inside Gin, deterministic and replayable): no thread may fail, no deadlock, every '
              'operative-config read must parse and be contained in the final one, the final one '
              'must equal the sequential run, and each singleton key must be constructed at most '
              'once with every use receiving that object. Sampled schedules, not all.')
LEVEL_NOTE = ('Trusted: vf/sched.py (token-passing scheduler; every schedule it produces is a real '
              'GIL schedule); CPython atomicity of single C calls.')

N_PROBES = 3
KEYS = ['k1', 'k2']
SEQ_KEYS = ['k1', 'k2', 'k5']     # k5: constructor bound as a functools.partial (sequential uses)
SCOPES = ['', 's', 't', 's/t']
CTOR_LOG = []        # (key, serial) per construction: the log must not keep the objects alive
_Built = collections.namedtuple('_Built', 'key serial')


class Made:
  """What a singleton constructor returns."""

  def __init__(self, key, serial):
    self.key, self.serial = key, serial

  def __len__(self):
    # an (initially) empty container: a singleton may well be falsy
    return 0


def _mk_probe(i):
  def probe(a='d', b=None):
    return (i, a, b)
  probe.__name__ = probe.__qualname__ = f'c18p{i}'
  return gin.configurable(f'c18p{i}')(probe)


PROBES = [_mk_probe(i) for i in range(N_PROBES)]


@gin.configurable('c18ctor')
def _ctor(tag='?'):
  obj = Made(gin.current_scope_str(), len(CTOR_LOG))
  CTOR_LOG.append(_Built(obj.key, obj.serial))
  return obj


@gin.configurable('c18ctor2')
def _ctor2(inner=None):
  # a singleton whose construction uses another singleton (nested lookup-or-construct)
  obj = Made(gin.current_scope_str(), len(CTOR_LOG))
  obj.inner = inner
  CTOR_LOG.append(_Built(obj.key, obj.serial))
  return obj


@gin.configurable('c18user')
def _user(x=None):
  return x


class _CtorFailed(Exception):
  pass


FLAKY = [0]


@gin.configurable('c18ctor3')
def _ctor3(tag='?'):
  # a constructor that fails the first time it runs (a resource not ready yet) and works afterwards
  FLAKY[0] += 1
  if FLAKY[0] == 1:
    raise _CtorFailed('not ready yet')
  obj = Made(gin.current_scope_str(), len(CTOR_LOG))
  CTOR_LOG.append(_Built(obj.key, obj.serial))
  return obj


EVENTS = {}
WAIT = [lambda pred: None]      # set per run: how user code waits for a condition


@gin.configurable('c18ctor4')
def _ctor4(tag='?'):
  # a constructor that needs work done by another thread (a dataset built by workers): it waits
  # until that thread has made its calls
  WAIT[0](lambda: EVENTS.get('go'))
  obj = Made(gin.current_scope_str(), len(CTOR_LOG))
  CTOR_LOG.append(_Built(obj.key, obj.serial))
  return obj


class Fresh:
  """What the plain producer returns: a new object per evaluation."""


@gin.configurable('c18slow')
def _slow(tag='slow'):
  # the producer itself calls a configurable, so that other threads get to run (inside Gin's
  # code) while this evaluation is still in progress
  PROBES[2]()
  return Fresh()


@gin.configurable('c18user2')
def _user2(x=None):
  return x


@gin.configurable('c18user3')
def _user3(x=None):
  return x


CONFIG = '\n'.join(
    [f'c18p{i}.b = {i}' for i in range(N_PROBES)] +
    [f's/c18p0.a = "in-s"', 't/c18p1.a = [1, 2, 3]', 's/t/c18p2.a = {"k": "v"}'] +
    ['k1/gin.singleton.constructor = @c18ctor', 'k2/gin.singleton.constructor = @c18ctor2',
     'c18ctor2.inner = @k1/gin.singleton()'] +
    [f'{k}/c18user.x = @{k}/gin.singleton()' for k in KEYS] +
    ['k3/gin.singleton.constructor = @c18ctor3', 'k3/c18user.x = @k3/gin.singleton()'] +
    ['k4/gin.singleton.constructor = @c18ctor4', 'k4/c18user.x = @k4/gin.singleton()'] +
    ['c18user2.x = @c18slow()', 'c18mac = @c18slow()', 'c18user3.x = [%c18mac]']) + '\n'


def _ctor5(tag):
  obj = Made(gin.current_scope_str(), len(CTOR_LOG))
  CTOR_LOG.append(_Built(obj.key, obj.serial))
  return obj


def configure():
  gin.parse_config(CONFIG)
  # a constructor bound from Python as a plain callable object (a functools.partial): every
  # lookup of the binding hands out a copy of it, the singleton is built once all the same
  import functools  # pylint: disable=g-import-not-at-top
  gin.bind_parameter('k5/gin.singleton.constructor', functools.partial(_ctor5, 'x'))
  gin.parse_config('k5/c18user.x = @k5/gin.singleton()')


class Rec(config_parser.ParserDelegate):

  def configurable_reference(self, scoped_configurable_name, evaluate):
    return ('@', scoped_configurable_name, evaluate)

  def macro(self, macro_name):
    return ('%', macro_name)


def bindings_of(text):
  out = set()
  with warnings.catch_warnings():
    warnings.simplefilter('ignore')
    for s in config_parser.ConfigParser(text, Rec()):
      if isinstance(s, config_parser.BindingStatement):
        out.add((s.scope, s.selector, s.arg_name, repr(s.value)))
  return out


MANY = []      # many small configurables (more than any bounded per-callable cache would hold)


def _mk_many(i):
  def many(x=0, y=1):
    return (i, x, y)
  many.__name__ = many.__qualname__ = 'many%d' % i
  return many


def warm_many(n):
  """Registers 2n + 8 small configurables (once per process) and calls the first n, oldest
  first; the second half is there to be called for the first time by a thread."""
  while len(MANY) < 2 * n + 8:
    i = len(MANY)
    MANY.append(gin.configurable('many%d' % i, module='c18many')(_mk_many(i)))
  for f in MANY[:n]:
    f()


def do_op(op, reads, uses, yield_now=lambda: None):
  yield_now()
  kind = op[0]
  if kind == 'many-call':
    MANY[op[1] % len(MANY)](**[{}, {'x': 'by-caller'}][op[2] % 2])
  elif kind == 'many-burst':
    # a thread calls, for the first time, as many configurables as have been in use so far
    for f in MANY[op[1]:op[1] + op[2]]:
      f()
  elif kind == 'call':
    scope = SCOPES[op[2] % len(SCOPES)]
    # different call shapes: which parameters Gin supplies (and hence records) differs per call,
    # so a lost update of the shared operative record changes the final text
    shape = op[3] % 3 if len(op) > 3 else 0
    kwargs = [{}, {'a': 'by-caller'}, {'b': 'by-caller'}][shape]
    with gin.config_scope(scope or None):
      PROBES[op[1] % N_PROBES](**kwargs)
  elif kind == 'read':
    reads.append(gin.operative_config_str())
  elif kind == 'single':
    key = KEYS[op[1] % len(KEYS)]
    if op[2] % 2 == 0:
      with gin.config_scope(key):
        obj = _user()
    else:
      # same scope as the reference route, so that *which* use happens to construct the object
      # does not change what the constructor records
      with gin.config_scope(key):
        obj = gin.config.singleton_value(key, _ctor if key == 'k1' else _ctor2)
    uses.append((key, obj))
  elif kind == 'single5':
    # the singleton whose constructor was bound from Python as a functools.partial
    with gin.config_scope('k5'):
      obj = _user()
    uses.append(('k5', obj))
  elif kind == 'single-wait':
    # the singleton whose constructor waits for another thread's calls
    with gin.config_scope('k4'):
      obj = _user()
    uses.append(('k4', obj))
  elif kind == 'signal':
    EVENTS['go'] = True
  elif kind == 'flaky-single':
    # a singleton whose constructor raises the first time: that use fails (the caller handles it),
    # nothing is cached and nothing is left behind; a later use, from any thread, constructs it
    try:
      with gin.config_scope('k3'):
        obj = _user() if op[1] % 2 == 0 else gin.config.singleton_value('k3', _ctor3)
    except _CtorFailed:
      uses.append(('k3-failed', None))
      return
    uses.append(('k3', obj))
  elif kind == 'refcall':
    # one evaluated reference (or macro) shared by all threads: every call evaluates it anew, also
    # while another thread's evaluation of the very same reference is still in progress
    obj = _user2() if op[1] % 2 == 0 else _user3()[0]
    if not isinstance(obj, Fresh):
      raise Violation('reference-not-evaluated', repr(obj))
    uses.append(('fresh', obj))
  elif kind == 'bad-single':
    # a use of the singleton API that is rejected (no such singleton and no constructor, or a
    # constructor that is not callable): the caller handles the error and carries on; nothing
    # may be left behind that makes another thread's use fail or wait
    try:
      gin.config.singleton_value('kbad%d' % (op[1] % 2), None if op[2] % 2 == 0 else 5)
    except ValueError:
      return
    raise Violation('invalid-singleton-use-accepted', str(op))


def check_threads(case):
  gin.clear_config()
  configure()
  del CTOR_LOG[:]
  FLAKY[0] = 0
  EVENTS.clear()
  if case.get('warm'):
    warm_many(case['warm'])
  tape = case['schedule']
  choices = sched.expand_schedule(tape)
  import os  # pylint: disable=g-import-not-at-top
  s = sched.Scheduler(choices, [os.path.dirname(gin.__file__)],
                      watch=('singleton_value', '_config_str', 'gin_wrapper'))
  lock_names = sched.install_coop_locks(gin.config, s)
  WAIT[0] = s.wait_until
  n = len(case['programs'])
  reads = [[] for _ in range(n)]
  uses = [[] for _ in range(n)]

  def program(i):
    def run():
      for op in case['programs'][i]:
        do_op(op, reads[i], uses[i], s.yield_now)
    return run

  try:
    _, errors = s.run([program(i) for i in range(n)])
  except sched.Deadlock as e:
    raise Violation('deadlock', str(e))
  except sched.Stuck as e:
    raise OutOfDomain(f'inconclusive: {e}')
  labels = {'kind:threads', f'threads:{n}', 'locks:' + ','.join(sorted(lock_names))}
  for i, e in enumerate(errors):
    if e is not None:
      import traceback  # pylint: disable=g-import-not-at-top
      tb = ''.join(traceback.format_exception(type(e), e, e.__traceback__))[-1500:]
      raise Violation('thread-failed', f'thread {i}: {type(e).__name__}: {e}\n{tb}\n'
                      f'trace tail: {s.trace[-12:]}')
  for name in lock_names:
    require(not getattr(gin.config, name).locked(), 'lock-left-held',
            lambda: f'{name} is still held after every thread finished (owner: thread '
                    f'{getattr(gin.config, name).owner}); any later use would wait forever')
  # ---- singletons: at most one construction per key, all uses identical --------------------
  per_key = {}
  for i in range(n):
    for key, obj in uses[i]:
      per_key.setdefault(key, []).append((i, obj))
  failed = per_key.pop('k3-failed', [])
  require(len(failed) <= 1, 'singleton-constructor-failure-repeated',
          lambda: f'{len(failed)} uses failed although the constructor raises only once')
  if failed and per_key.get('k3'):
    labels.add('singleton-constructed-after-a-failed-first-use')
  fresh = per_key.pop('fresh', [])
  require(len({id(o) for _, o in fresh}) == len(fresh), 'evaluated-reference-result-shared',
          lambda: f'{len(fresh)} calls received {len({id(o) for _, o in fresh})} distinct objects')
  if len({i for i, _ in fresh}) >= 2:
    labels.add('same-reference-evaluated-by-several-threads')
  for key, lst in per_key.items():
    objs = {id(o) for _, o in lst}
    built = [o for o in CTOR_LOG if o.key == key]
    require(len(built) <= 1, 'singleton-constructed-twice',
            lambda: f'key {key}: constructor ran {len(built)} times; trace tail {s.trace[-12:]}')
    require(len(objs) == 1, 'singleton-uses-differ',
            lambda: f'key {key}: threads received {len(objs)} different objects')
    if len({i for i, _ in lst}) >= 2:
      labels.add('same-singleton-raced')
  # ---- reads parse and are contained in the final record -------------------------------------
  final = gin.operative_config_str()
  try:
    final_set = bindings_of(final)
  except Exception as e:  # pylint: disable=broad-except
    raise Violation('final-operative-config-does-not-parse', f'{e}\n{final}')
  for i in range(n):
    for text in reads[i]:
      try:
        got = bindings_of(text)
      except Exception as e:  # pylint: disable=broad-except
        raise Violation('read-does-not-parse', f'thread {i}: {type(e).__name__}: {e}\n{text}')
      require(got <= final_set, 'read-not-contained-in-final',
              lambda: f'thread {i}: {sorted(got - final_set)}')
  # ---- equals the sequential run -------------------------------------------------------------
  gin.clear_config()
  configure()
  FLAKY[0] = 0
  EVENTS['go'] = True          # one after another nobody has to wait
  WAIT[0] = lambda pred: None
  if case.get('warm'):
    warm_many(case['warm'])
    labels.add('many-configurables-in-use')
  for i in range(n):
    for op in case['programs'][i]:
      do_op(op, [], [])
  sequential = gin.operative_config_str()
  require(final == sequential, 'final-differs-from-sequential',
          lambda: f'--- threaded:\n{final}\n--- sequential:\n{sequential}')
  for name in s.watch_hits:
    labels.add('switch-inside:' + name)
  labels.add('switches>=5' if s.switches >= 5 else 'switches<5')
  nt = bool(s.watch_hits)
  if nt:
    labels.add('threads:nontrivial')
  return ok(labels, nt)


class Worker:
  """A long-lived second thread that executes ops one at a time on request (no concurrency: the
  requester waits for each op).  Singletons and clear_config are process-wide, not per thread."""

  def __init__(self):
    import queue  # pylint: disable=g-import-not-at-top
    import threading  # pylint: disable=g-import-not-at-top
    self.inq, self.outq = queue.Queue(), queue.Queue()
    self.thread = threading.Thread(target=self._loop, daemon=True)
    self.thread.start()

  def _loop(self):
    while True:
      fn = self.inq.get()
      if fn is None:
        return
      try:
        self.outq.put(('ok', fn()))
      except BaseException as e:  # pylint: disable=broad-except
        self.outq.put(('err', e))

  def run(self, fn):
    self.inq.put(fn)
    status, value = self.outq.get(timeout=60)
    if status == 'err':
      raise value
    return value

  def stop(self):
    self.inq.put(None)


def check_sequential(case):
  gin.clear_config()
  configure()
  del CTOR_LOG[:]
  labels = {'kind:sequential'}
  worker = Worker()
  try:
    return _check_sequential(case, labels, worker)
  finally:
    worker.stop()


def _check_sequential(case, labels, worker):
  current = {}
  seen_after_clear = False
  cleared_keys = set()
  for op in case['ops']:
    on_worker = len(op) > 3 and op[3] % 2 == 1 if op[0] in ('single', 'single5', 'rebind') else (
        len(op) > 2 and op[2] % 2 == 1)
    run = worker.run if on_worker else (lambda fn: fn())
    if on_worker:
      labels.add('op-on-second-thread')
    if op[0] == 'rebind':
      # the constructor binding of a singleton scope is made again (the same config text parsed a
      # second time, or bind_parameter with the value it already has): the configuration is the
      # same one, the object lives on
      key = KEYS[op[1] % len(KEYS)]
      line = f"{key}/gin.singleton.constructor = @{'c18ctor' if key == 'k1' else 'c18ctor2'}"
      if op[2] % 2 == 0:
        run(lambda: gin.parse_config(line))
      else:
        run(lambda: gin.bind_parameter(
            (key, 'gin.singleton', 'constructor'),
            gin.query_parameter(f'{key}/gin.singleton.constructor')))
      labels.add('constructor-bound-again')
      continue
    if op[0] == 'clear':
      def do_clear():
        gin.clear_config(clear_constants=bool(op[1] % 2))
        configure()
      run(do_clear)
      cleared_keys |= set(current)
      current = {}
      labels.add('clear')
      continue
    uses = []
    before = len(CTOR_LOG)
    run(lambda: do_op(op[:3], [], uses))
    key, obj = uses[0]
    serial, inner_serial = obj.serial, (obj.inner.serial if key == 'k2' else None)
    # the consumer does not keep the object: whether anybody still holds it must not matter
    del obj, uses
    gc.collect()
    if key in current:
      require(serial == current[key], 'singleton-not-reused',
              lambda: f'{key}: use delivered construction #{serial}, earlier uses #{current[key]}')
      require(len(CTOR_LOG) == before, 'singleton-reconstructed', key)
    else:
      # constructing k2 also needs k1 (its constructor uses that singleton)
      inner_new = key == 'k2' and 'k1' not in current
      grew = len(CTOR_LOG) - before
      require(grew == 1 + inner_new and CTOR_LOG[-1] == (key, serial),
              'singleton-not-constructed-anew',
              lambda: f'key {key}: the first use (also after clear_config) must construct '
                      f'exactly once (constructors ran {grew} times)')
      if key in cleared_keys:
        seen_after_clear = True
      current[key] = serial
      if key == 'k2':
        if inner_new:
          current['k1'] = inner_serial
        require(inner_serial == current['k1'], 'nested-singleton-identity', '')
  if seen_after_clear:
    labels.add('sequential:nontrivial')
  return ok(labels, seen_after_clear)


def check_case(case):
  if case['kind'] == 'threads':
    return check_threads(case)
  return check_sequential(case)


# ------------------------------------------------------------------------------ strategies
_op = st.one_of(
    st.tuples(st.just('call'), st.integers(0, N_PROBES - 1), st.integers(0, 3),
              st.integers(0, 2)).map(list),
    st.tuples(st.just('call'), st.just(0), st.just(1), st.integers(0, 2)).map(list),
    st.just(['read']),
    st.tuples(st.just('single'), st.integers(0, 1), st.integers(0, 1)).map(list),
    st.tuples(st.just('single'), st.just(0), st.integers(0, 1)).map(list),
    st.tuples(st.just('bad-single'), st.integers(0, 1), st.integers(0, 1)).map(list),
    st.tuples(st.just('refcall'), st.integers(0, 1)).map(list),
    st.tuples(st.just('flaky-single'), st.integers(0, 1)).map(list))


@st.composite
def _threads_case(draw):
  n = draw(st.sampled_from([2, 2, 3, 4]))
  programs = [draw(st.lists(_op, min_size=1, max_size=5)) for _ in range(n)]
  schedule = {'t': draw(st.lists(st.integers(0, 3), max_size=40)),
              's': draw(st.integers(1, 2**31)), 'n': draw(st.sampled_from([0, 100, 300, 560, 1500])), 'burst': draw(st.booleans())}
  return {'kind': 'threads', 'programs': programs, 'schedule': schedule}


@st.composite
def _sequential_case(draw):
  op = st.one_of(st.tuples(st.just('single'), st.integers(0, 1), st.integers(0, 1),
                           st.integers(0, 1)).map(list),
                 st.tuples(st.just('clear'), st.integers(0, 1), st.integers(0, 1)).map(list),
                 st.tuples(st.just('rebind'), st.integers(0, 1), st.integers(0, 1),
                           st.integers(0, 1)).map(list),
                 st.tuples(st.just('single5'), st.just(0), st.just(0), st.integers(0, 1)).map(list))
  return {'kind': 'sequential', 'ops': draw(st.lists(op, min_size=1, max_size=8))}


@st.composite
def _record_growth_case(draw):
  """A reader overlaps a call that adds a parameter to an *existing* operative record (the same
  probe and scope called first with one argument shape, then with another)."""
  i, sc = draw(st.integers(0, N_PROBES - 1)), draw(st.integers(0, 3))
  s1, s2 = draw(st.sampled_from([(1, 2), (2, 1), (1, 0), (2, 0)]))
  reader = [['read']] * draw(st.integers(1, 3))
  programs = [[['call', i, sc, s1]] + reader, [['call', i, sc, s2]] + draw(st.lists(_op, max_size=2))]
  if draw(st.booleans()):
    programs.append([['read'], ['call', i, sc, s2]])
  schedule = {'t': draw(st.lists(st.integers(0, 3), max_size=60)),
              's': draw(st.integers(1, 2**31)), 'n': draw(st.sampled_from([300, 560, 1500])), 'burst': draw(st.booleans())}
  return {'kind': 'threads', 'programs': programs, 'schedule': schedule}


@st.composite
def _flaky_race_case(draw):
  """Three or four threads use, for the first time, the singleton whose constructor fails once:
  one use fails while others are waiting or arriving."""
  n = draw(st.sampled_from([3, 3, 4]))
  programs = [[['flaky-single', draw(st.integers(0, 1))]] + draw(st.lists(
      st.sampled_from([['flaky-single', 0], ['flaky-single', 1], ['read'], ['refcall', 0]]),
      max_size=2)) for _ in range(n)]
  schedule = {'t': draw(st.lists(st.integers(0, 3), max_size=60)),
              's': draw(st.integers(1, 2**31)), 'n': draw(st.sampled_from([300, 560, 1500])),
              'burst': draw(st.booleans())}
  return {'kind': 'threads', 'programs': programs, 'schedule': schedule}


@st.composite
def _ctor_waits_case(draw):
  """A singleton's constructor waits for calls made by another thread (which uses no singleton
  itself before it has signalled): everybody must get through."""
  plain = st.one_of(
      st.tuples(st.just('call'), st.integers(0, N_PROBES - 1), st.integers(0, 3),
                st.integers(0, 2)).map(list), st.just(['read']), st.just(['refcall', 0]))
  worker = draw(st.lists(plain, min_size=1, max_size=3)) + [['signal']] + draw(
      st.lists(_op, max_size=2))
  programs = [[['single-wait']] + draw(st.lists(plain, max_size=1)), worker]
  if draw(st.booleans()):
    programs.append(draw(st.lists(plain, min_size=1, max_size=2)) + [['single-wait']])
  schedule = {'t': draw(st.lists(st.integers(0, 3), max_size=40)),
              's': draw(st.integers(1, 2**31)), 'n': draw(st.sampled_from([100, 300, 560])),
              'burst': draw(st.booleans())}
  return {'kind': 'threads', 'programs': programs, 'schedule': schedule}


@st.composite
def _first_use_race_case(draw):
  """The very first singleton uses of the process come from two or three threads at once, with a
  fine-grained schedule over the first steps (whatever is set up lazily on first use is set up
  under contention)."""
  n = draw(st.sampled_from([2, 2, 3]))
  key = draw(st.integers(0, 1))
  programs = [[['single', key, draw(st.integers(0, 1))]] + draw(st.lists(
      st.sampled_from([['single', 0, 0], ['single', 1, 1], ['read']]), max_size=1)) for _ in range(n)]
  schedule = {'t': draw(st.lists(st.integers(0, 2), min_size=20, max_size=120)),
              's': draw(st.integers(1, 2**31)), 'n': draw(st.sampled_from([100, 300])),
              'burst': False}
  return {'kind': 'threads', 'programs': programs, 'schedule': schedule}


@st.composite
def _overlapping_readers_case(draw):
  """Two or three threads read the operative config at overlapping times while another thread's
  calls add records (new scopes and probes): a reader that is still at it when another reader
  has finished must be as safe as the first one."""
  call = st.tuples(st.just('call'), st.integers(0, N_PROBES - 1), st.integers(0, 3),
                   st.integers(0, 2)).map(list)
  readers = [[['read']] * draw(st.integers(1, 2)) for _ in range(draw(st.integers(2, 3)))]
  writer = draw(st.lists(call, min_size=2, max_size=5))
  warm = draw(st.lists(call, min_size=1, max_size=3))      # so that there is something to format
  programs = [warm + readers[0]] + readers[1:] + [writer]
  schedule = {'t': draw(st.lists(st.integers(0, 3), max_size=60)),
              's': draw(st.integers(1, 2**31)), 'n': draw(st.sampled_from([300, 560, 1500])),
              'burst': draw(st.booleans())}
  return {'kind': 'threads', 'programs': programs, 'schedule': schedule}


@st.composite
def _many_configurables_case(draw):
  """A few hundred configurables have been called (whatever Gin keeps per callable has been
  filled); one thread calls one that was used a moment ago while another thread calls, for the
  first time, as many others again (whatever bounded structure there is, everything older is
  pushed out of it). The schedule lets the first thread run k steps, then the second one to its
  end, then the first one again."""
  n = draw(st.sampled_from([300, 300, 520]))
  k = draw(st.integers(0, 260))
  target = n - 1 - draw(st.integers(0, 2))
  programs = [[['many-call', target, draw(st.integers(0, 1))]],
              [['many-burst', n, n]]]
  if draw(st.booleans()):
    programs[0].append(['many-call', target - 1, 0])
  schedule = {'t': [0] * k + [1], 's': 1, 'n': 0, 'burst': False}
  return {'kind': 'threads', 'programs': programs, 'schedule': schedule, 'warm': n}


def strategy():
  return st.one_of(_threads_case(), _threads_case(), _record_growth_case(), _sequential_case(),
                   _flaky_race_case(), _ctor_waits_case(), _first_use_race_case(),
                   _overlapping_readers_case(), _many_configurables_case())


def sweep_many(tier):
  """Every pre-emption point of one call: a thread calls a configurable used a moment ago (out of
  a few hundred in use); after k of its steps inside Gin another thread calls as many configurables
  again for the first time, then the first thread goes on. k runs over every step of the call."""
  cases = []
  shapes = [(300, 0, 0), (300, 1, 1)] if tier == 'quick' else [
      (n, d, sh) for n in (300, 520) for d in (0, 1, 2) for sh in (0, 1)]
  for n, d, sh in shapes:
    for k in range(0, 140 if tier == 'quick' else 260):
      cases.append({'kind': 'threads',
                    'programs': [[['many-call', n - 1 - d, sh]], [['many-burst', n, n]]],
                    'schedule': {'t': [0] * k + [1], 's': 1, 'n': 0, 'burst': False},
                    'warm': n})
  return cases, False


SWEEPS = {'many-configurables': sweep_many}
