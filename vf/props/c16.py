"""C16 — a failed parse applies exactly the preceding statements; errors say where.

A generated case is a *config*: a tree of 1-4 files (root parsed as a string or as a file, children
reached through include statements at generated positions), each with 1-6 statements (flat
bindings, blocks, macro definitions, imports), programmatic prior bindings, an enclosing config
scope.  `expand()` enumerates every injection point: each statement position of each file x every
applicable fault kind, plus the fault-free run.  One injection = one evaluated case.

Oracle for an injection: the call raises the class that kind produces when raised unwrapped; the
state afterwards (config_str, provenance, current scope, lock flag, behaviour of a follow-up parse
and bind) equals the state obtained by parsing the same tree truncated just before the fault; the
error names every level of the include chain with the right line; provenance comments attribute
every binding to the file:line of the statement (or block member) that last set it.
"""
import json
import os
import re
import shutil
import sys
import tempfile
import tokenize
import warnings

from hypothesis import strategies as st

from vf import ginenv
from vf.core import OutOfDomain, Violation, ok, require
from vf.gen import literals, statements as S

gin = ginenv.import_gin()

ID = 'C16'
LEVEL = 'fault_enumeration'
ISOLATE = True
BUDGET = {'quick': (8, 5), 'thorough': (16, 60)}
RULE = ('configs: include tree of 1-4 files (root as string or file; one optional dynamic-'
        'registration leaf), 1-6 statements per file (flat bindings with possibly multi-line '
        'values, blocks, macros, imports, includes), 0-3 programmatic prior bindings, optional '
        'outer config_scope, optionally locked. For each config EVERY statement position of EVERY '
        'file is injected with EVERY applicable fault kind (bad value, missing value, unbalanced '
        'bracket, unterminated bracket, bad selector, unknown parameter / configurable / reference, '
        'ambiguous constant, denylisted parameter, bad include, bad import, semantic and syntactic '
        'bad block member, locked config), plus the fault-free run. Non-trivial = fault not in the '
        'first statement of the root, or inside an included file, or in a block. Distinct = '
        'distinct (config, injection) JSON.')
ASSUMPTIONS = ['for a syntactic fault inside a block both "no member applied" and "members before '
               'the fault applied" are accepted (the property does not say which unit a block is)',
               'for faults inside a value (reference, constant) the reported line may be any line of '
               'the offending statement; for statement-level faults it is its first line',
               'the "fresh process with that prefix applied" is obtained with gin.clear_config() '
               'and parsing the same files truncated before the fault']
FLOORS = {'nontrivial': 0.5, 'in-included-file': 0.2, 'depth2': 0.03, 'kind:block-semantic': 0.02,
          'kind:bad-import': 0.03, 'root:file': 0.2, 'dynreg-file': 0.003, 'no-fault': 0.003}
TECHNIQUE = ('fault injection with full enumeration of injection points per generated config; '
             'metamorphic oracle "failed parse == parse of the truncated tree" plus direct '
             'expectations for exception class, location chain and provenance')
LEVEL_TEXT = ('Every statement position x fault kind of each generated config (and include tree) '
              'is injected; after the failing call the observable state and the behaviour of later '
              'parsing must equal those of parsing only the preceding statements, the exception '
              'must keep its class and name each include level with the correct line, and '
              'provenance comments must point at the statement that last set each binding. '
              'Enumeration is complete per config; configs are sampled.')
LEVEL_NOTE = ('Trusted: the truncation model of "preceding statements"; gin.clear_config for the '
              'reference side; the simple line-tracking renderer.')

REJECT_SYNTAX = (SyntaxError, tokenize.TokenError)


# ------------------------------------------------------------------ registry (pristine parent)
@gin.configurable('fa')
def _fa(p=None, q=None, r=None):
  return (p, q, r)


@gin.configurable('fb', module='m1.sub')
def _fb1(p=None, q=None):
  return (p, q)


@gin.configurable('fb', module='m2')
def _fb2(p=None, q=None):
  return (p, q)


@gin.configurable('K', module='m1')
class _K:

  def __init__(self, p=None, q=None):
    self.p, self.q = p, q


@gin.configurable('fd', denylist=['q'])
def _fd(p=None, q=None):
  return (p, q)


gin.constant('x.AMBIG', 1)
gin.constant('y.AMBIG', 2)

SELECTORS = {'fa': ('fa', 'pqr'), 'sub.fb': ('m1.sub.fb', 'pq'), 'm2.fb': ('m2.fb', 'pq'),
             'm1.K': ('m1.K', 'pq'), 'fd': ('fd', 'p')}
FULLS = sorted({v[0] for v in SELECTORS.values()})
SCOPES = ['', '', 's', 's/t']
MACROS = ['M', 'N']
IMPORTS = ['import math', 'from os import path', 'import json as js', 'import collections.abc']

SYNTACTIC = {
    'bad-value': ['fa.p = 1 +', 'fa.p = foo', "fa.p = 'unterminated", 'fa.p = [1 2]'],
    'missing-value': ['fa.p =', 'fa.p = # nothing'],
    'unbalanced-bracket': ['fa.p = [1, 2))', 'fa.p = (1]', 'fa.p = }'],
    'bad-selector': ['fa..p = 1', 'a//fa.p = 1', 'fa .p = 1', 'fa.p. = 1', '/fa.p = 1', '1fa.p = 1',
                     'fa.p 1', 'a.b/fa.p = 1'],
}
SEMANTIC = {
    'unknown-parameter': (['fa.zz = 1', 's/fa.nope = [1,\n  2]'], ValueError),
    'unknown-configurable': (['nosuch.p = 1', 's/t/nosuch_cfg.p = 1', 'nosuch:\n  p = 1'],
                             ValueError),
    'unknown-reference': (['fa.p = @nosuch()', 'fa.p = [1, {"k": @a/nosuch}]',
                           'fa.p = [1,\n  @nosuch()]', 'fa.p = [\n  @nosuch\n]',
                           'fa.p = [1,\n  {"k": (@s/nosuch()  # the last token on its line\n'
                           '  , 2)},\n  3]'], ValueError),
    'ambiguous-constant': (['fa.p = %AMBIG', 'fa.p = (1, %AMBIG)', 'fa.p = (1,\n  %AMBIG\n  )'],
                           ValueError),
    'denylisted-parameter': (['fd.q = 1', 's/fd.q = 1'], ValueError),
    # 'fb' matches m1.sub.fb and m2.fb: Gin reports the ambiguity with a KeyError
    'ambiguous-selector': (['fb.p = 1', 's/fb.q = 2', 'fb:\n  p = 1'], KeyError),
    'bad-include': (["include 'no/such/file.gin'"], OSError),
    # "keeps its original exception type": importing a missing module raises ModuleNotFoundError
    'bad-import': (['import vf_no_such_module_xyz', 'from vf_no_such_pkg import thing'],
                   ModuleNotFoundError),
}
VALUE_LEVEL = ('unknown-reference', 'ambiguous-constant')


# ------------------------------------------------------------------------------ rendering
def render_stmt(s, tape, feats):
  """Returns the lines of one statement and, for blocks, the 0-based offsets of its members."""
  if s[0] == 'bind':
    text = S.render_key(s[1], s[2]) + '.' + s[3] + ' = ' + S.render_value(s[4], tape, feats)
    return text.split('\n'), None
  if s[0] == 'block':
    lines = [S.render_key(s[1], s[2]) + ':']
    offsets = []
    for arg, v in s[3]:
      if tape.pick(4) == 1:
        lines.append('  # member comment')
      offsets.append(len(lines))
      lines += ('  ' + arg + ' = ' + S.render_value(v, tape, feats)).split('\n')
    return lines, offsets
  if s[0] == 'macro':
    text = S.render_key(s[1], s[2]) + ' = ' + S.render_value(s[3], tape, feats)
    return text.split('\n'), None
  if s[0] == 'import':
    return [s[1]], None
  if s[0] == 'include':
    return ["include '%s'" % s[1]], None
  raise ValueError(s)


class Tree:
  """Materialises a config (optionally with one fault / truncated before it)."""

  def __init__(self, config, tmp):
    self.config = config
    self.tmp = tmp
    self.files = config['files']
    # names[i]: where the file is (what errors and provenance show); refs[i]: how it is spelled in
    # include statements and API calls. 'pkgrel': the files live in a package on sys.path and are
    # spelled package-relative, so only the Python-path reader (gin.resource_reader) finds them.
    base = tmp
    if config.get('pkgrel'):
      base = os.path.join(tmp, 'c16pkg')
      os.makedirs(base, exist_ok=True)
      open(os.path.join(base, '__init__.py'), 'w').close()
    searchrel = bool(config.get('searchrel')) and not config.get('pkgrel')
    if searchrel:
      # the files live in a registered search location and are spelled by their bare names; a
      # *later* location holds a harmless file of the same name for each of them, which must never
      # be looked at (the first location has the file; what happens inside it is final)
      base = os.path.join(tmp, 'c16loc1')
      decoys = os.path.join(tmp, 'c16loc2')
      os.makedirs(base, exist_ok=True)
      os.makedirs(decoys, exist_ok=True)
      for i in range(len(self.files)):
        with open(os.path.join(decoys, f'f{i}.gin'), 'w') as fh:
          fh.write("fa.p = 'copy in a later search location'\n")
      gin.add_config_file_search_path(base)
      gin.add_config_file_search_path(decoys)
    self.names = [None if (i == 0 and config['root_as'] in ('string', 'list', 'tuple'))
                  else os.path.join(base, f'f{i}.gin') for i in range(len(self.files))]
    self.refs = [n and (f'c16pkg/f{i}.gin' if config.get('pkgrel') else
                        f'f{i}.gin' if searchrel else n)
                 for i, n in enumerate(self.names)]
    self.parent = {}
    for i, f in enumerate(self.files):
      for k, s in enumerate(f['stmts']):
        if s[0] == 'include':
          self.parent[s[1]] = (i, k)

  def render_file(self, i, fault=None, truncate=None):
    """-> (text, spans) with spans[k] = (first_line, last_line, member_lines or None).

    fault = (stmt index, lines) replaces that statement; truncate = ('before', k) keeps statements
    < k, ('after', k) keeps statements <= k, ('lines', n) keeps the first n lines.
    """
    tape = S.Tape(self.config.get('tape', []))
    feats = set()
    f = self.files[i]
    lines, spans = [], []
    if f.get('dyn'):
      lines.append('from __gin__ import dynamic_registration')
    for k, s in enumerate(f['stmts']):
      if tape.pick(3) == 1:
        lines.append(tape.choose(['', '# comment', '   ']))
      if s[0] == 'include':
        s = ['include', self.refs[s[1]]]
      if fault is not None and fault[0] == k:
        stmt_lines, offsets = list(fault[1]), None
      else:
        stmt_lines, offsets = render_stmt(s, tape, feats)
      first = len(lines) + 1
      lines += stmt_lines
      spans.append((first, len(lines), [first + o for o in offsets] if offsets else None))
    if truncate is not None:
      how, k = truncate
      if how == 'before':
        n = spans[k][0] - 1
      elif how == 'after':
        n = spans[k][1]
      else:
        n = k
      lines = lines[:n]
    return '\n'.join(lines) + '\n', spans

  def write(self, faults=None, truncs=None):
    texts = {}
    for i in range(len(self.files)):
      text, spans = self.render_file(i, (faults or {}).get(i), (truncs or {}).get(i))
      texts[i] = text
      if i == 0:
        # the same text as a list with one entry per statement (filler lines go with the statement
        # that follows them): "a list of individual parameter binding strings"
        lines, entries, prev = text[:-1].split('\n'), [], 0
        for first, last, _ in spans:
          if first > len(lines):
            break
          end = min(last, len(lines))
          entries.append('\n'.join(lines[prev:end]))
          prev = end
        if prev < len(lines) or not entries:
          entries.append('\n'.join(lines[prev:]))
        self.root_entries = entries
      if self.names[i] is not None:
        with open(self.names[i], 'w') as fh:
          fh.write(text)
    return texts

  def chain(self, i):
    """Include chain from file i up to the root: [(file index, include stmt index)...]."""
    out = []
    while i in self.parent:
      i, k = self.parent[i]
      out.append((i, k))
    return out

  def reachable_before(self, i, k):
    """True if statement k of file i is executed when parsing the (fault-free) root."""
    return True


def parse_root(tree, texts):
  if tree.config['root_as'] in ('list', 'tuple'):
    # documented as equivalent to the newline-joined string
    entries = tree.root_entries
    return gin.parse_config(list(entries) if tree.config['root_as'] == 'list' else tuple(entries))
  if tree.names[0] is None:
    return gin.parse_config(texts[0])
  return gin.parse_config_file(tree.refs[0])


# ------------------------------------------------------------------------------ observation
def observe(follow_up=True):
  out = {'config': gin.config_str(), 'prov': gin.config_str(show_provenance=True),
         'scope': gin.current_scope(), 'locked': gin.config_is_locked()}
  if follow_up:
    with gin.unlock_config():
      try:
        gin.bind_parameter('fa.q', 'follow-up-bind')
        gin.parse_config("fa.r = 'follow-up'\nFOLLOW = 1\nimport string\n")
        out['follow'] = gin.config_str(show_provenance=True)
        # per-file import tables: a later dynamic-registration text knows only its own imports,
        # whatever files parsed (or failed) before it imported
        for name in ('math', 'js', 'path', 'collections'):
          try:
            gin.parse_config(f'from __gin__ import dynamic_registration\n{name}.nosuch_attr.x = 1\n')
            leaked = 'accepted'
          except NameError:
            leaked = None
          except Exception as e:  # pylint: disable=broad-except
            leaked = f'{type(e).__name__}: {e}'
          require(leaked is None, 'import-name-visible-in-a-later-text',
                  lambda: f'a text that does not import {name!r} used it: {leaked}')
        # direct expectation: the programmatic re-binding carries no location, so whatever
        # statement set fa.q before, no file:line may be attributed to it now; the two parsed
        # follow-up statements are attributed to their own lines
        pm = {norm_key(k): v for k, v in provenance_map(out['follow']).items()}
        require(pm.get(('', 'fa', 'q')) is None, 'stale-provenance-after-programmatic-binding',
                lambda: f"fa.q was re-bound by bind_parameter but is still attributed to "
                        f"{pm.get(('', 'fa', 'q'))}\n{out['follow']}")
        require(pm.get(('', 'fa', 'r')) == 'bindings string:1' and
                pm.get(('macro', 'FOLLOW')) == 'bindings string:2', 'follow-up-provenance',
                lambda: out['follow'])
      except Violation:
        raise
      except Exception as e:  # pylint: disable=broad-except
        out['follow'] = f'RAISED {type(e).__name__}: {e}'
    out['locked_after_follow'] = gin.config_is_locked()
  return out


def provenance_map(text):
  """{binding key as printed -> 'file:line'} from '# Set in ...:' comments."""
  out, pending = {}, None
  for line in text.splitlines():
    if line.startswith('# Set in ') and line.endswith(':'):
      pending = line[len('# Set in '):-1]
    elif line and not line.startswith('#') and ' = ' in line + ' ' and not line.startswith(' '):
      key = line.split(' =')[0]
      out[key] = pending
      pending = None
    elif not line.startswith(' '):
      pending = None
  return out


def norm_key(printed):
  scope, _, rest = printed.rpartition('/')
  if '.' not in rest:
    return ('macro', printed)
  sel, _, arg = rest.rpartition('.')
  # once any file enabled dynamic registration, config_str spells selectors as
  # <imported module>.<python name> (e.g. c16._fa); map those back to the registered names
  pyname = {'_fa': 'fa', '_fb1': 'm1.sub.fb', '_fb2': 'm2.fb', '_K': 'm1.K', '_fd': 'fd'}
  if sel.split('.')[-1] in pyname:
    sel = pyname[sel.split('.')[-1]]
  cands = [f for f in FULLS if f == sel or f.endswith('.' + sel)]
  return (scope, cands[0] if len(cands) == 1 else sel, arg)


def expected_provenance(tree, upto=None):
  """Walks the tree in execution order; returns {key: 'name:line'} for the last writer.

  upto = (file, stmt, member_limit): stop before statement `stmt` of `file` (member_limit: number
  of block members of that statement that still take effect)."""
  prov = {}
  done = [False]

  def loc(i, line):
    return f"{tree.names[i] or 'bindings string'}:{line}"

  def walk(i):
    _, spans = tree.render_file(i)
    for k, s in enumerate(tree.files[i]['stmts']):
      if done[0]:
        return
      limit = None
      if upto is not None and (i, k) == (upto[0], upto[1]):
        if upto[2] is None:
          done[0] = True
          return
        limit = upto[2]
      first, _, members = spans[k]
      if s[0] == 'bind':
        prov[(s[1], SELECTORS[s[2]][0], s[3])] = loc(i, first)
      elif s[0] == 'block':
        for m, (arg, _) in enumerate(s[3]):
          if limit is not None and m >= limit:
            break
          prov[(s[1], SELECTORS[s[2]][0], arg)] = loc(i, members[m])
      elif s[0] == 'macro':
        prov[('macro', S.render_key(s[1], s[2]))] = loc(i, first)
      elif s[0] == 'include':
        walk(s[1])
      if limit is not None:
        done[0] = True
        return

  walk(0)
  return prov


# ------------------------------------------------------------------------------ the check
def check_case(case):
  config = case['config']
  inj = case.get('fault')
  labels = set()
  tmp = tempfile.mkdtemp(prefix='c16-')
  if config.get('pkgrel'):
    sys.path.insert(0, tmp)
    labels.add('files-found-through-the-python-path')
  try:
    return _check(config, inj, labels, tmp)
  finally:
    if tmp in sys.path:
      sys.path.remove(tmp)
    shutil.rmtree(tmp, ignore_errors=True)


def setup_state(config):
  gin.clear_config()
  for scope, sel, param, value in config['prior']:
    gin.bind_parameter((scope, sel, param), value)
  if config.get('locked'):
    gin.finalize()


def _check(config, inj, labels, tmp):
  tree = Tree(config, tmp)
  outer = config.get('outer_scope') or None
  labels.add('root:' + config['root_as'])
  if any(f.get('dyn') for f in config['files']):
    labels.add('has-dynreg-file')

  # ---------------- fault-free run: parses, provenance is right ---------------------------
  if inj is None:
    if config.get('locked'):
      raise OutOfDomain('fault-free run of a locked config')
    setup_state(config)
    texts = tree.write()
    with gin.config_scope(outer):
      try:
        parse_root(tree, texts)
      except Exception as e:  # pylint: disable=broad-except
        raise Violation('valid-tree-rejected', f'{type(e).__name__}: {e}\n{texts}')
    check_provenance(tree, None, config, texts)
    labels.add('no-fault')
    return ok(labels, len(config['files']) > 1)

  fi, k, kind, variant = inj
  f = config['files'][fi]
  stmt = f['stmts'][k]
  labels.add('kind:' + kind)
  # ---------------- build the faulty statement ----------------------------------------------
  member_limit = None          # for block faults: members that take effect before the fault
  expect_line_off = 0          # offset of the reported line inside the fault's lines
  both_ok = False
  if kind in SYNTACTIC:
    opts = SYNTACTIC[kind]
    lines = opts[variant % len(opts)].split('\n')
    exc = REJECT_SYNTAX
  elif kind == 'unterminated-bracket':
    # swallows the rest of the file: the tokenizer reports it at EOF
    lines = ['fa.p = [1, 2']
    exc = REJECT_SYNTAX
  elif kind in SEMANTIC:
    opts, exc = SEMANTIC[kind]
    lines = opts[variant % len(opts)].split('\n')
  elif kind == 'block-semantic':
    lines = ['fa:', '  p = 1', '  zz = 2', '  q = 3']
    exc, member_limit, expect_line_off = ValueError, 1, 2
  elif kind == 'block-syntactic':
    lines = ['fa:', '  p = 1', '  q = = 2', '  r = 3']
    exc, member_limit, expect_line_off, both_ok = REJECT_SYNTAX, 1, 2, True
  elif kind == 'locked':
    lines = None
    exc = RuntimeError
  else:
    raise OutOfDomain(kind)
  if f.get('dyn') and kind not in SYNTACTIC and kind not in ('bad-import', 'unterminated-bracket'):
    raise OutOfDomain('only syntactic / import faults in the dynamic-registration file')
  if f.get('dyn'):
    labels.add('dynreg-file')

  # ---------------- run with the fault --------------------------------------------------------
  setup_state(config)
  if kind == 'locked' and any(x.get('dyn') for x in config['files']):
    # the dynamic-registration import is legitimately processed before the first binding is
    # refused, which changes how config_str spells selectors; not part of this property
    raise OutOfDomain('locked config with a dynamic-registration file')
  if kind == 'locked':
    texts = tree.write()
  else:
    texts = tree.write(faults={fi: (k, lines)})
  _, spans = tree.render_file(fi, (k, lines) if lines else None)
  first, last, _ = spans[k]
  raised = None
  with gin.config_scope(outer):
    scope_before = gin.current_scope()
    try:
      parse_root(tree, texts)
    except Exception as e:  # pylint: disable=broad-except
      raised = e
    scope_after = gin.current_scope()
  if kind == 'locked' and raised is None:
    has_binding = any(st_[0] in ('bind', 'block', 'macro') for x in config['files']
                      for st_ in x['stmts'])
    if not has_binding:
      raise OutOfDomain('imports-only text parsed while locked')
  require(raised is not None, 'fault-not-reported',
          lambda: f'{kind} at file {fi} statement {k}: parse succeeded\n{texts[fi]}')
  require(scope_after == scope_before, 'active-scope-changed',
          lambda: f'{scope_before} -> {scope_after}')
  if kind == 'locked':
    # the first binding-like statement in execution order raises; everything is as before
    require(isinstance(raised, RuntimeError), 'locked-config-wrong-exception', repr(raised))
    got = observe(follow_up=False)
    setup_state(config)
    want = observe(follow_up=False)
    # imports preceding the first binding legitimately took effect
    strip = lambda t: '\n'.join(l for l in t.splitlines()
                                if l and not l.startswith(('import ', 'from ')))
    require(strip(got['config']) == strip(want['config']) and got['locked'],
            'locked-config-changed', lambda: f"{got['config']}\n---\n{want['config']}")
    # ... and exactly those: the imports spelled before the refused statement, in execution order
    before_first, where = [], []

    def walk(i):
      for kk, st_ in enumerate(config['files'][i]['stmts']):
        if st_[0] == 'include':
          if walk(st_[1]):
            return True
        elif st_[0] == 'import':
          before_first.append(st_[1])
        else:
          where.append((i, kk))
          return True
      return False

    walk(0)
    got_imports = {l for l in got['config'].splitlines() if l.startswith(('import ', 'from '))}
    want_imports = {l for l in want['config'].splitlines() if l.startswith(('import ', 'from '))}
    require(got_imports == want_imports | set(before_first), 'locked-parse-imports',
            lambda: f'recorded imports {sorted(got_imports)}; before the call {sorted(want_imports)}, '
                    f'spelled before the first binding {before_first}')
    if before_first:
      labels.add('locked:imports-before-the-refused-statement')
    # the refusal is a semantic error like any other: it says where
    if where:
      wi, wk = where[0]
      _, wspans = tree.render_file(wi)
      entries = re.findall(r'In (file "([^"]*)",|bindings string) line (\d+)', str(raised))
      got_chain = [((e[1] or None), int(e[2])) for e in entries]
      # (for a block the refused binding is its first member, on the member's own line)
      lines_ok = [wspans[wk][0]] + list(wspans[wk][2] or [])[:1]
      require(any((tree.names[wi], ln) in got_chain for ln in lines_ok), 'locked-error-location',
              lambda: f'expected {tree.names[wi] or "bindings string"} line {wspans[wk][0]}; '
                      f'message entries {got_chain}\n{raised}')
    return ok(labels, True)
  require(isinstance(raised, exc), 'exception-class',
          lambda: f'{kind}: expected {exc}, got {type(raised).__name__}: {raised}')

  # ---------------- location reporting ----------------------------------------------------------
  chain = [(fi, first + expect_line_off)]
  for (pi, pk) in tree.chain(fi):
    _, pspans = tree.render_file(pi)
    chain.append((pi, pspans[pk][0]))
  msg = str(raised)
  if isinstance(raised, REJECT_SYNTAX):
    if isinstance(raised, SyntaxError) and kind != 'unterminated-bracket':
      lo, hi = first, last
      require(raised.lineno is not None and lo <= raised.lineno <= hi, 'syntax-error-line',
              lambda: f'lineno={raised.lineno}, statement spans {lo}-{hi}\n{texts[fi]}')
      require(raised.filename == tree.names[fi], 'syntax-error-file',
              lambda: f'filename={raised.filename!r}, expected {tree.names[fi]!r}')
  else:
    entries = re.findall(r'In (file "([^"]*)",|bindings string) line (\d+)', msg)
    got_chain = [((e[1] or None), int(e[2])) for e in entries]
    for depth, (ci, line) in enumerate(chain):
      name = tree.names[ci]
      if depth == 0 and kind in VALUE_LEVEL:
        # the line on which the statement begins, or (more precise, what Gin does) the line of the
        # offending reference itself -- not some other line of the statement
        ref_off = next(i for i, ln in enumerate(lines) if '@' in ln or '%AMBIG' in ln)
        okay = any(n == name and l in (first, first + ref_off) for n, l in got_chain)
      else:
        okay = (name, line) in got_chain
      require(okay, 'error-location',
              lambda: f'{kind}: expected an entry for {name or "bindings string"} line {line} '
                      f'(include depth {depth}); message entries: {got_chain}\n{msg}')
    require(len(got_chain) == len(chain), 'error-location-count',
            lambda: f'expected one entry per include level ({len(chain)}), got {got_chain}\n{msg}')
  got = observe()

  # ---------------- reference: the same tree truncated before the fault ---------------------------
  def reference(limit_members):
    setup_state(config)
    truncs = {fi: ('before', k)}
    if limit_members:
      # header + members before the bad one: keep the first `expect_line_off` lines of the block
      truncs = {fi: ('lines', first - 1 + expect_line_off)}
    for (pi, pk) in tree.chain(fi):
      truncs[pi] = ('after', pk)
    faults = {fi: (k, lines)}
    ref_texts = tree.write(faults=faults, truncs=truncs)
    with gin.config_scope(outer):
      try:
        parse_root(tree, ref_texts)
      except Exception as e:  # pylint: disable=broad-except
        raise Violation('prefix-does-not-parse',
                        f'harness or Gin: {type(e).__name__}: {e}\n{ref_texts}')
    return observe()

  if f.get('dyn'):
    # the truncated dynamic-registration file still parses (imports only)
    pass
  want = reference(member_limit if kind == 'block-semantic' else None)
  alt = reference(member_limit) if both_ok else None

  def same(a, b):
    return all(a[key] == b[key] for key in a)

  if not (same(got, want) or (alt is not None and same(got, alt))):
    diffs = [key for key in got if got[key] != want[key]]
    raise Violation('state-after-failed-parse',
                    f'{kind} at file {fi} statement {k} (lines {first}-{last}); differing: {diffs}\n' +
                    '\n'.join(f'--- {key} after failed parse:\n{got[key]}\n--- {key} after parsing '
                              f'only the preceding statements:\n{want[key]}' for key in diffs) +
                    f'\n--- faulty file:\n{texts[fi]}')
  # direct provenance expectation on the prefix
  if not both_ok:
    setup_state(config)
    extra = {}
    if kind == 'block-semantic':
      # the injected block's first member (`p = 1`, second line of the block) took effect
      extra[('', 'fa', 'p')] = f"{tree.names[fi] or 'bindings string'}:{first + 1}"
    check_provenance(tree, (fi, k, None), config, None, observed=got['prov'], extra=extra)
  nt = not (fi == 0 and k == 0) or kind.startswith('block')
  if fi != 0:
    labels.add('in-included-file')
  if len(chain) >= 3:
    labels.add('depth2')
  if nt:
    labels.add('nontrivial')
  return ok(labels, nt)


def check_provenance(tree, upto, config, texts, observed=None, extra=None):
  prov_text = observed if observed is not None else gin.config_str(show_provenance=True)
  got = {norm_key(kk): v for kk, v in provenance_map(prov_text).items()}
  exp = expected_provenance(tree, upto)
  exp.update(extra or {})
  for scope, sel, param, _ in config['prior']:
    exp.setdefault((scope, SELECTORS.get(sel, (sel,))[0], param), None)
  for key, where in exp.items():
    require(key in got, 'binding-missing-from-config', lambda: f'{key}\n{prov_text}')
    require(got[key] == where, 'provenance',
            lambda: f'{key}: reported {got[key]}, expected {where}\n{prov_text}')
  extra = set(got) - set(exp)
  require(not extra, 'unexpected-binding', lambda: f'{extra}\n{prov_text}')


# ------------------------------------------------------------------------------ enumeration
def applicable_kinds(config, fi, k):
  kinds = list(SYNTACTIC) + list(SEMANTIC) + ['block-semantic', 'block-syntactic',
                                              'unterminated-bracket']
  return kinds


def expand(case):
  config = case['config']
  subs = []
  if not config.get('locked'):
    subs.append({'config': config, 'fault': None})
  variant = case.get('variant', 0)
  for fi, f in enumerate(config['files']):
    for k in range(len(f['stmts'])):
      if config.get('locked'):
        continue
      for kind in applicable_kinds(config, fi, k):
        if f.get('dyn') and kind not in SYNTACTIC and kind not in ('bad-import',
                                                                   'unterminated-bracket'):
          continue
        subs.append({'config': config, 'fault': [fi, k, kind, variant + fi + k]})
  if config.get('locked'):
    subs.append({'config': config, 'fault': [0, 0, 'locked', 0]})
  return subs


# ------------------------------------------------------------------------------ strategies
def _values(depth=1):
  lit = st.one_of(literals.simple_value(), literals.simple_value(),
                  st.sampled_from(['[1,\n   2]', "{'k': (1,\n 2)}", "'a' \\\n  'b'"]))
  return S.values(['fa', 'sub.fb', 'm1.K'], MACROS, ['', 's'], depth=depth, lit=lit)


@st.composite
def _stmt(draw):
  kind = draw(st.sampled_from(['bind', 'bind', 'bind', 'block', 'macro', 'import']))
  if kind == 'bind':
    sel = draw(st.sampled_from(sorted(SELECTORS)))
    return ['bind', draw(st.sampled_from(SCOPES)), sel, draw(st.sampled_from(SELECTORS[sel][1])),
            draw(_values())]
  if kind == 'block':
    sel = draw(st.sampled_from(sorted(SELECTORS)))
    args = draw(st.lists(st.sampled_from(SELECTORS[sel][1]), min_size=1, max_size=3))
    return ['block', draw(st.sampled_from(SCOPES)), sel, [[a, draw(_values(0))] for a in args]]
  if kind == 'macro':
    return ['macro', draw(st.sampled_from(['', 'sc'])), draw(st.sampled_from(MACROS)),
            draw(_values(0))]
  return ['import', draw(st.sampled_from(IMPORTS))]


@st.composite
def strategy(draw):
  n = draw(st.sampled_from([1, 2, 2, 3, 3, 4]))
  files = []
  for i in range(n):
    files.append({'stmts': draw(st.lists(_stmt(), min_size=1, max_size=5))})
  binds = [s_ for f in files for s_ in f['stmts'] if s_[0] == 'bind']
  if binds and draw(st.integers(0, 2)) == 0:
    # the same key bound again to an equal value elsewhere (an override file repeating the base
    # config): the statement that last set it is the later one
    dup = json.loads(json.dumps(draw(st.sampled_from(binds))))
    target = draw(st.sampled_from(files))['stmts']
    target.insert(draw(st.integers(0, len(target))), dup)
  locked = draw(st.integers(0, 9)) == 0
  dyn = n > 1 and not locked and draw(st.integers(0, 3)) == 0
  if dyn:
    files[-1] = {'dyn': True, 'stmts': [['import', draw(st.sampled_from(IMPORTS))]
                                        for _ in range(draw(st.integers(1, 2)))]}
  for i in range(1, n):
    parent = draw(st.integers(0, i - 1))
    if files[parent].get('dyn'):
      parent = 0
    pos = draw(st.integers(0, len(files[parent]['stmts'])))
    files[parent]['stmts'].insert(pos, ['include', i])
  prior = []
  for j in range(draw(st.integers(0, 3))):
    sel = draw(st.sampled_from(sorted(SELECTORS)))
    prior.append([draw(st.sampled_from(SCOPES)), sel, draw(st.sampled_from(SELECTORS[sel][1])),
                  'prior%d' % j])
  return {'config': {'files': files, 'root_as': draw(st.sampled_from(['string', 'string', 'file', 'file', 'list', 'tuple'])),
                     'prior': prior, 'outer_scope': draw(st.sampled_from(['', '', 'outer', 'o/p'])),
                     'locked': locked, 'tape': draw(S.tapes(20)),
                     'pkgrel': draw(st.integers(0, 3)) == 0,
                     'searchrel': draw(st.integers(0, 2)) == 0},
          'variant': draw(st.integers(0, 7))}
