"""C19 — dynamic registration resolves names through the file's own imports.

Every case builds a package tree in a temp dir (unique top-level names derived from the case
hash), a set of config files (strings and include trees) that enable dynamic registration and
import the generated modules with every import form, and drives Gin with them.

Oracles (all independent of Gin):
  * Python itself: for every config file a *fresh* forked child executes that file's import
    statements with `exec` and walks the attribute graph; that table (dotted path -> module +
    qualname) decides which spellings are valid in the file and which object each one denotes.
  * a last-write-wins binding model keyed by the denoted object: after the parse every bound
    object, fetched from sys.modules afterwards, is called through gin.get_configurable(obj)
    and must receive the model's values (references deliver instances of the original class,
    with the method bindings applied).
  * the text of gin.config_str(), read with Python import semantics in a fresh child, must
    denote exactly the model's bindings (no colliding bound names, every selector resolves);
    parsed by Gin in another fresh child it must give the same observations and re-serialise
    to a text that again denotes exactly the model (textual identity is not asserted, see
    ASSUMPTIONS).
  * fault injection: each error class of the property raises the documented exception class.

Process layout per case: the runner forks one child (ISOLATE); that child stays pristine (never
imports the generated packages, never touches sys.path) and orchestrates sub-forks through
iso.run: one Python-oracle child per config file, one Gin child for the parse + observations,
one Python-oracle child for the emitted imports, one fresh Gin child for the re-parse.
"""
import hashlib
import importlib.util
import inspect
import os
import shutil
import sys
import tempfile
import types

from hypothesis import strategies as st

from vf import ginenv, iso
from vf.core import OutOfDomain, Violation, canon, ok, require

gin = ginenv.import_gin()

ID = 'C19'
LEVEL = 'exploration'
ISOLATE = True
BUDGET = {'quick': (16, 70), 'thorough': (16, 1000)}

# Final mode: a recognised alias collision (DESIGN section 6, row 13) is raised as a Violation
# of kind 'alias-collision' so that the known-findings machinery (KNOWN['alias_collision'] +
# an `open` entry in known_findings.json) counts it.  With False it is an OutOfDomain.
KNOWN_AS_VIOLATION = True

RULE = ('Per case: a generated tree of 2 top-level packages / 11 modules (sibling sub-packages '
        'sub and sib hold a leaf module of the same name; one submodule of the second package is '
        'named exactly like the first top-level package; flags: does each package '
        '__init__ import its submodules; which re-exports exist), every module defining fn, its '
        'functools.wraps-decorated variant wfn (another object, __wrapped__ is fn), gn, '
        'class K with methods meth/other/fn (fn named like the module-level function) and nested '
        'class K.N with method nm, and a consumer '
        'cons; 1-4 config files (roots parsed as string or file, include trees) each enabling '
        'dynamic registration and importing 1-4 modules with a generated form (import a.b / '
        'import a.b as c / from a import b / from a import b as c) and alias from a small pool '
        '(two free names, two names of real sibling modules, the first top-level package\'s name) '
        '(so the same bound name denotes different modules in different files); 1-6 statements '
        'per file (flat or block syntax) binding a parameter of an object chosen by (import, '
        'definition) through a generated index into ALL spellings Python accepts for that object '
        'in that file (other imports, re-exports), or binding cons.a/b to a called/uncalled '
        'reference; half of the operands aim at one focus module so spellings, references and '
        'method bindings meet; optional injected fault (6 error classes). Non-trivial = (>=2 '
        'files or >=2 distinct import spellings of one module) and a method or nested class is '
        'configured, on a valid (no injected fault) case. Distinct = distinct case JSON. Two '
        'bounded sweeps run first: every import form x module depth x __init__ flag (3-file and '
        '1-file layouts, plus one name for two modules in two files, and a plain dotted import '
        'whose top-level name is bound to another module in another file, and fn / wfn in '
        'both orders of first use, and same-named leaf modules of sibling sub-packages by plain '
        'imports in both orders, `import a.b as b`, an alias re-bound inside one file, '
        'decorator-registered objects x parse variant, scoped references before a method '
        'binding, a numbered variant of a colliding alias, and references inside containers (dict key, '
        'tuple in a dict value, nested list) before a method binding, and an inherited method '
        'configured through the subclass path; 149 cases) and every error '
        'class x position (root / included / second root) x variant (162 cases).')
ASSUMPTIONS = [
    '`from X import Y` is generated only where Y is a module or package (Gin implements every '
    'import as __import__("X.Y")).',
    'A dotted path is used in a file only if it is valid in a fresh interpreter that executed only '
    'that file\'s import statements (decided by a forked child running Python\'s own exec/getattr); '
    'paths that work only because another file imported a submodule are not generated.',
    'The leading import statements of a file directly follow its enabling statement and bind '
    'each name at most once, except that several plain `import top.x` / `import top.y` may '
    'share their top-level name (same object in Python). A file may contain ONE later import, '
    'between its statements, that re-binds the name of a leading import to another module; as in '
    'Python the name denotes the first module before it and the second after it (the per-file '
    'oracle child executes the imports in order, one table per stretch).',
    'alias_collision is decided in execution order: only the FIRST use of an object (and the '
    'class of a first-used method) registers a name; reaching an already registered object '
    'through a colliding spelling is not in that class and stays generated.',
    'Reference targets are functions and classes (never cons), so evaluation terminates.',
    'Every generated module also holds objects registered by decorators at import time under '
    'Gin names that differ from their attribute paths (@gin.configurable("renamed_dfn") dfn, '
    '@gin.configurable("RenamedDeco") Deco, @gin.register R with a @gin.register method rm, '
    '@gin.configurable nested Outer.Inner); the files configure them by Python path. They are '
    'never registered by the config\'s spelling, so they are exempt from the alias_collision / '
    'method_respelled analyses.',
    'A reference may stand inside a container: as a dict KEY `{@ref: 5}` (always uncalled), in a '
    'tuple inside a dict value `{"k": (@ref, 1)}`, in a nested list `[[@ref]]`. config_str() '
    'documents that it leaves out values it cannot represent literally, and the pristine tree '
    'treats a dict-key reference so whenever its emitted spelling differs from the text it was '
    'written with; therefore the ABSENCE of a dict-key binding from the emitted text is tolerated '
    '(label dict-key-binding-not-emitted; the fresh child is then compared with the model minus '
    'those bindings) -- a wrong, extra or duplicated one is not.',
    'Before a late enabling statement the injected fault places generated-package imports, only '
    'Gin\'s own modules (gin.selector_map, gin.config_parser, `from gin import utils`, '
    'gin.testdata.dynamic_registration when importable), or a mix.',
    'A root may be handed to gin.parse_config as a LIST with one entry per statement (documented '
    'form); it must behave like the newline-joined text (same model, same oracle).',
    'Identity of a configured/delivered object is observed through what calling it returns '
    '(every generated body reports its own module and qualified name) and isinstance against '
    'the class fetched from sys.modules; __name__/__qualname__ of Gin\'s wrappers are not '
    'inspected (C13).',
    'The statement syntax of the emitted config string is read with Gin\'s public statement '
    'parser (gin.config_parser.ConfigParser with a recording delegate; C03\'s subject); what the '
    'emitted imports and selectors denote is decided by Python in a fresh child. The '
    're-serialised text (after the re-parse in a fresh child) must again denote exactly the '
    'model under Python\'s reading; textual identity is not asserted (the property does not '
    'state it): another order of sections (follows internal registry names; canonical order is '
    'C06) and another, equally valid spelling of a section are counted under '
    'reserialised-section-order-differs / reserialised-spelling-differs.',
    'Inheritance only as class S(_Base) with one method inh inherited from a base that is never '
    'named by any config; inh is configured through the subclass path S.inh only (configuring '
    'the base class or its method as well is outside the quantifier); no macros or gin.* builtins in the files, and no '
    'SCOPED bindings (covered by C04/C05/C09); references may carry a scope (`@s/sel()`, '
    '`@s/t/sel`), which by the scope rules changes nothing about the delivered values since no '
    'binding is scoped; aliases are never Python keywords.',
    'The input class "two different objects whose alias-substituted dotted names coincide" '
    '(known finding alias_collision) is excluded by construction (the alias is replaced by a '
    'unique one, counted under excluded:alias-collision) except in cases that carry keep=true.',
    'The input class "a method is configured after its class was first registered through an '
    'import spelling that gives the class another alias-substituted dotted name, or while a '
    'reference text to its class from another file does not denote that class through the '
    'configuring file\'s imports" (known finding method_respelled) is excluded by construction '
    '(the method is respelled like the first registration, else the statement is aimed at the '
    'module\'s fn; counted under excluded:method-respelled) except in cases that carry '
    'keepm=true. A method configured after its class was referenced in the SAME file / through '
    'an equal spelling stays in (label method-after-reference).',
    'After an injected fault only the exception class is asserted (what a failed parse leaves '
    'behind is C16).',
]
FLOORS = {
    'nontrivial': 0.15,
    'include-tree': 0.15,
    'same-bound-name-other-module-across-files': 0.05,
    'two-spellings-one-object': 0.10,
    'method-after-reference': 0.04,
    'emitted-realiased': 0.05,
    'error:name-other-file': 0.01,
    'error:gin-bound': 0.01,
    'error:late-enable': 0.01,
    'error:aliased-enable': 0.01,
    'error:unknown-feature': 0.01,
    'error:missing-attr': 0.01,
}
TECHNIQUE = ('property-based testing with a differential oracle (Python\'s own import/getattr in '
             'a fresh forked interpreter), a last-write-wins binding model, a fresh-process '
             'round trip of config_str, and fault injection for the error classes')
LEVEL_TEXT = ('Generated package trees and config-file trees exercise every import form and alias, '
              'colliding bound names across files, several spellings of one object, first-use '
              'orders and methods configured after their class was referenced. What a name '
              'denotes is decided by Python itself in a fresh child, what a configurable must '
              'receive by a naive model; the emitted config string is interpreted both by Python '
              'and by Gin in fresh children. Exploration: no counter-example within the generated '
              'space, not a proof.')
LEVEL_NOTE = ('Trusted: CPython import semantics in the oracle child, the 30-line binding model, '
              'fork as "fresh interpreter" (the parent never imports the generated packages and '
              'their names are unique per case). The tree shape is fixed (depth 3, 11 modules); '
              'only flags, imports, spellings and statements vary.')

ENABLE = 'from __gin__ import dynamic_registration'
ALIASES = ['mm', 'nn', 'm1', 'sub', '@top', 'mm2', 'mm3']   # '@top': the first top-level package's own name
LEAF_DEFS = ['fn', 'gn', 'K', 'K.meth', 'K.other', 'K.N', 'K.N.nm', 'cons', 'K.fn', 'wfn',
             'dfn', 'Deco', 'R', 'R.rm', 'Outer.Inner', 'S', 'S.inh']
REF_DEFS = ['fn', 'gn', 'K', 'K.N', 'wfn', 'dfn', 'Deco', 'R', 'Outer.Inner', 'S']
DECORATED = ('dfn', 'Deco', 'R', 'Outer')     # first qualname component: never registered dynamically
ERRORS = {
    'name-other-file': 'NameError',
    'gin-bound': 'ValueError',
    'late-enable': 'SyntaxError',
    'aliased-enable': 'SyntaxError',
    'unknown-feature': 'SyntaxError',
    'missing-attr': 'AttributeError',
}
ERROR_KINDS = sorted(ERRORS)
FEATURES = ['dynamic_registrations', 'registration', 'x']
GIN_IMPORTS = ['import gin.selector_map', 'import gin.config_parser', 'from gin import utils',
               'import gin.selector_map as sm']
if importlib.util.find_spec('gin.testdata.dynamic_registration') is not None:
  GIN_IMPORTS.append('from gin.testdata import dynamic_registration as dr')


# ----------------------------------------------------------------------------- package tree
def _tag(case):
  return 'q' + hashlib.sha1(canon(case).encode('utf8')).hexdigest()[:7]


def _module_names(tag):
  a, b = tag + 'a', tag + 'b'
  # The last one is a submodule of the second package named exactly like the FIRST top-level
  # package: `from b import a` and a plain `import a.m1` (other file) bind the same name.
  # Indices 9/10: a sibling sub-package `sib` of `sub` holding a leaf module with the SAME name
  # (a.sub.m1 / a.sib.m1, same function and class names) -- two plain dotted imports of them bind
  # one name and differ only in a middle component.
  return [a, a + '.m1', a + '.m2', a + '.sub', a + '.sub.m1', a + '.sub.m3', b, b + '.m1',
          b + '.' + a, a + '.sib', a + '.sib.m1']


PACKAGES = (0, 3, 6, 9)

_BODY = '''
def fn(x='dx', y='dy'):
  return {'id': _ID + ':fn', 'x': x, 'y': y}

def _traced(f):
  @functools.wraps(f)
  def wrapper(x='dx', y='dy'):
    return {'id': _ID + ':wfn', 'x': x, 'y': y}
  wrapper._c19_id = 'wfn'
  return wrapper


wfn = _traced(fn)  # a functools.wraps-decorated variant of fn: another object, __wrapped__ is fn

%(gn)s
class K:

  def __init__(self, x='dx', y='dy'):
    self.got = {'id': _ID + ':K', 'x': x, 'y': y}

  def meth(self, x='dx', y='dy'):
    return {'id': _ID + ':K.meth', 'x': x, 'y': y}

  def other(self, x='dx', y='dy'):
    return {'id': _ID + ':K.other', 'x': x, 'y': y}

  def fn(self, x='dx', y='dy'):  # same name as the module-level function, another object
    return {'id': _ID + ':K.fn', 'x': x, 'y': y}

  class N:

    def __init__(self, x='dx', y='dy'):
      self.got = {'id': _ID + ':K.N', 'x': x, 'y': y}

    def nm(self, x='dx', y='dy'):
      return {'id': _ID + ':K.N.nm', 'x': x, 'y': y}


def cons(a=None, b=None):
  return {'id': _ID + ':cons', 'a': a, 'b': b}


class _Base:   # never named by any config (and skipped by the oracle walk: leading underscore)

  def inh(self, x='dx', y='dy'):
    return {'id': _ID + ':S.inh', 'x': x, 'y': y}


_Base.inh._c19_id = 'S.inh'   # reached (only) as S.inh: an INHERITED method named via the subclass


class S(_Base):

  def __init__(self, x='dx', y='dy'):
    self.got = {'id': _ID + ':S', 'x': x, 'y': y}


# Registered by DECORATORS when the module is imported (not by the config's import), under Gin
# names that differ from their attribute paths: custom names, a registered method, a nested class.
@gin.configurable('renamed_dfn')
def dfn(x='dx', y='dy'):
  return {'id': _ID + ':dfn', 'x': x, 'y': y}


@gin.configurable('RenamedDeco')
class Deco:

  def __init__(self, x='dx', y='dy'):
    self.got = {'id': _ID + ':Deco', 'x': x, 'y': y}


@gin.register
class R:

  def __init__(self, x='dx', y='dy'):
    self.got = {'id': _ID + ':R', 'x': x, 'y': y}

  @gin.register
  def rm(self, x='dx', y='dy'):
    return {'id': _ID + ':R.rm', 'x': x, 'y': y}


class Outer:

  @gin.configurable
  class Inner:

    def __init__(self, x='dx', y='dy'):
      self.got = {'id': _ID + ':Outer.Inner', 'x': x, 'y': y}
'''
_GN = '''def gn(x='dx', y='dy'):
  return {'id': _ID + ':gn', 'x': x, 'y': y}
'''


def _write_tree(root, names, pkg):
  """Writes the package tree.  pkg = {'init': [b, b, b], 'reexp': 0..3}."""
  a, asub, b = names[0], names[3], names[6]
  init = pkg['init']
  reexp = pkg['reexp']
  sources = {}
  for i, name in enumerate(names):
    is_pkg = i in PACKAGES
    src = 'import functools\nimport gin\n_ID = __name__\n' + _BODY % {'gn': '' if is_pkg else _GN}
    if i == 0:
      if init[0]:
        src += f'\nfrom {a} import m1, m2, sub, sib\n'
      if reexp & 1:
        src += f'\nfrom {a}.m1 import gn, K as RK\n'
    elif i == 3:
      if init[1]:
        src += f'\nfrom {asub} import m1, m3\n'
      if reexp & 2:
        src += f'\nfrom {asub}.m3 import gn as rgn\n'
    elif i == 9:
      if init[1]:
        src += f'\nfrom {names[9]} import m1\n'
    elif i == 6:
      if init[2]:
        src += f'\nfrom {b} import m1, {a}\n'
    sources[name] = (is_pkg, src)
  for name, (is_pkg, src) in sources.items():
    rel = name.replace('.', os.sep)
    path = os.path.join(root, rel, '__init__.py') if is_pkg else os.path.join(root, rel + '.py')
    os.makedirs(os.path.dirname(path), exist_ok=True)
    with open(path, 'w') as f:
      f.write(src)


# ----------------------------------------------------------------------------- child helpers
def _sub(fn, payload):
  """Runs fn(payload) in a fresh fork of this (pristine) process; returns its dict."""
  res = iso.run(fn, payload)
  st_ = res.get('status')
  if st_ == 'ok':
    return res
  if st_ == 'violation':
    raise Violation('child:' + res.get('kind', '?'), res.get('detail', ''))
  if st_ == 'ood':
    raise OutOfDomain(res.get('reason', ''))
  raise BlockingIOError('sub-child inconclusive: ' + str(res.get('reason')))  # -> inconclusive


def _is_method(objid):
  qual = objid.split(':')[1]
  return '.' in qual and not qual.rsplit('.', 1)[-1][0].isupper()


def _is_class(objid):
  return objid.rsplit('.', 1)[-1].split(':')[-1][0].isupper()


def _class_of(objid):
  return objid.rsplit('.', 1)[0]


def _decorated(objid):
  """Registered by a decorator at import time: the config's spelling never (re-)registers it."""
  return objid.split(':')[1].split('.')[0] in DECORATED


def _ours(name, tops):
  return isinstance(name, str) and name.split('.')[0] in tops


def _assert_fresh(tops):
  stale = [m for m in sys.modules if _ours(m, tops)]
  if stale:
    raise RuntimeError(f'harness: generated packages already imported: {stale}')


def _py_table(p):
  """CHILD.  Python's own view: executes import lines, walks attributes.  path -> objid."""
  tops = tuple(p['tops'])
  _assert_fresh(tops)
  sys.path.insert(0, p['root'])
  ns = {}
  try:
    for line in p['imports']:
      exec(line, ns)  # pylint: disable=exec-used
  except BaseException as e:  # pylint: disable=broad-except
    return {'status': 'ok', 'error': f'{type(e).__name__}: {e}', 'table': {}, 'mods': {}}
  table, mods = {}, {}

  def walk(path, obj, depth):
    if depth > 7:
      return
    if isinstance(obj, types.ModuleType):
      if not _ours(obj.__name__, tops):
        return
      mods[path] = obj.__name__
      for n, v in sorted(vars(obj).items()):
        if n.startswith('_'):
          continue
        if isinstance(v, types.ModuleType) or (
            (inspect.isfunction(v) or inspect.isclass(v)) and
            _ours(getattr(v, '__module__', None), tops)):
          walk(path + '.' + n, v, depth + 1)
    elif inspect.isclass(obj):
      table[path] = obj.__module__ + ':' + obj.__qualname__
      for n, v in sorted(vars(obj).items()):
        if n.startswith('_'):
          continue
        if inspect.isfunction(v) or inspect.isclass(v):
          walk(path + '.' + n, v, depth + 1)
      for base in obj.__mro__[1:]:          # methods inherited from generated base classes
        if _ours(getattr(base, '__module__', None), tops):
          for n, v in sorted(vars(base).items()):
            if not n.startswith('_') and inspect.isfunction(v) and n not in vars(obj):
              walk(path + '.' + n, v, depth + 1)
    elif inspect.isfunction(obj):
      # a decorated variant carries its own identity (functools.wraps copies __qualname__)
      table[path] = obj.__module__ + ':' + getattr(obj, '_c19_id', obj.__qualname__)

  for n, v in sorted(ns.items()):
    if n != '__builtins__':
      walk(n, v, 1)
  return {'status': 'ok', 'error': None, 'table': table, 'mods': mods}


def _fetch(objid):
  mod, qual = objid.split(':')
  obj = sys.modules[mod]          # fetched afterwards, never imported by the harness
  for part in qual.split('.'):
    obj = getattr(obj, part)
  return obj


def _norm(v, tops, depth=0):
  """JSON view of a delivered value."""
  if depth > 6:
    return '<deep>'
  if isinstance(v, dict):
    if all(isinstance(k, str) for k in v):
      return {k: _norm(x, tops, depth + 1) for k, x in v.items()}
    return {'pairs': [[_norm(k, tops, depth + 1), _norm(x, tops, depth + 1)]
                      for k, x in v.items()]}
  if isinstance(v, (list, tuple)):
    return [_norm(x, tops, depth + 1) for x in v]
  if v is None or isinstance(v, (int, str)):
    return v
  if inspect.isfunction(v) or inspect.isclass(v):
    # An uncalled reference: what it is shows in what calling it delivers (the generated
    # bodies report their own identity); Gin's wrapper metadata is C13's business.
    return {'callable': True, 'call': _norm(v(), tops, depth + 1)}
  got = getattr(v, 'got', None)
  if isinstance(got, dict) and _ours(str(got.get('id', '')).split(':')[0], tops):
    # An instance of a generated class; `got` was written by the class's own __init__.
    try:
      orig = isinstance(v, _fetch(got['id']))
    except Exception:  # pylint: disable=broad-except
      orig = False
    d = {'is_orig': orig, 'got': _norm(got, tops, depth + 1)}
    for m in ('meth', 'other', 'fn', 'nm', 'rm', 'inh'):
      if hasattr(v, m):
        d[m] = _norm(getattr(v, m)(), tops, depth + 1)
    return d
  return '<' + type(v).__name__ + '>'


def _observe(watch, tops):
  obs = {}
  for objid in watch:
    try:
      obj = _fetch(objid)
      conf = gin.get_configurable(obj)
      if _is_method(objid):
        cls = _fetch(_class_of(objid))
        bare = cls.__new__(cls)
        obs[objid] = _norm(conf(bare), tops)
      else:
        obs[objid] = _norm(conf(), tops)
    except Exception as e:  # pylint: disable=broad-except
      obs[objid] = {'error': type(e).__name__ + ': ' + str(e)[:300]}
  return obs


def _exc_info(e, where):
  return {'where': where, 'type': type(e).__name__,
          'mro': [c.__name__ for c in type(e).__mro__], 'msg': str(e)[:1500]}


def _phase1(p):
  """CHILD.  Parses the roots with Gin, observes, serialises."""
  tops = tuple(p['tops'])
  _assert_fresh(tops)
  sys.path.insert(0, p['root'])
  for i, (mode, arg) in enumerate(p['roots']):
    try:
      if mode in ('str', 'list'):
        gin.parse_config(arg)
      else:
        gin.parse_config_file(arg)
    except Exception as e:  # pylint: disable=broad-except
      return {'status': 'ok', 'raised': _exc_info(e, i)}
  obs = _observe(p['watch'], tops)
  try:
    text = gin.config_str()
  except Exception as e:  # pylint: disable=broad-except
    return {'status': 'ok', 'raised': None, 'obs': obs, 'text': None,
            'text_error': _exc_info(e, 'config_str')}
  return {'status': 'ok', 'raised': None, 'obs': obs, 'text': text}


def _phase2(p):
  """CHILD (fresh).  Parses the emitted config string, observes, re-serialises."""
  tops = tuple(p['tops'])
  _assert_fresh(tops)
  sys.path.insert(0, p['root'])
  try:
    gin.parse_config(p['text'])
  except Exception as e:  # pylint: disable=broad-except
    return {'status': 'ok', 'raised': _exc_info(e, 'reparse')}
  obs = _observe(p['watch'], tops)
  try:
    text = gin.config_str()
  except Exception as e:  # pylint: disable=broad-except
    return {'status': 'ok', 'raised': _exc_info(e, 'config_str')}
  return {'status': 'ok', 'raised': None, 'obs': obs, 'text': text}


# ----------------------------------------------------------------------------- files
def _import_line(modname, form, alias):
  """-> (line, bound name, partial path used by the alias-collision class, form)."""
  parts = modname.split('.')
  if len(parts) == 1:
    form &= 1
  if form == 0:
    return f'import {modname}', parts[0], parts[0], 0
  if form == 1:
    return f'import {modname} as {alias}', alias, '.'.join(parts[:-1] + [alias]), 1
  pkg, leaf = '.'.join(parts[:-1]), parts[-1]
  if form == 2:
    return f'from {pkg} import {leaf}', leaf, modname, 2
  return f'from {pkg} import {leaf} as {alias}', alias, '.'.join(parts[:-1] + [alias]), 3


def _file_imports(fspec, fidx, names, renames):
  """Resolves a file's import specs into lines; keeps bound names unique within the file."""
  out = []
  bound = {}
  for k, (mod_i, form, alias_i) in enumerate(fspec['imports']):
    modname = names[mod_i % len(names)]
    alias = renames.get((fidx, k)) or ALIASES[alias_i % len(ALIASES)]
    if alias == '@top':
      alias = names[0]
    line, name, partial, form = _import_line(modname, form % 4, alias)
    if name in bound and not (form == 0 and bound[name] == 0):
      alias = f'u{fidx}{k}'
      line, name, partial, form = _import_line(modname, form | 1, alias)
    bound[name] = form
    out.append({'line': line, 'bound': name, 'partial': partial, 'form': form, 'mod': modname,
                'k': k})
  return out


def _by_obj(table):
  by = {}
  for path, objid in table.items():
    by.setdefault(objid, []).append(path)
  for objid in by:
    by[objid].sort(key=lambda s: (s.count('.'), s))
  return by


# reference code in a case -> scope of the reference (codes 0/1: unscoped uncalled / called)
_REF_SCOPES = {2: 's', 3: 's/t', 4: 's'}


def _ref_of(spec):
  """The reference inside a model value, or None."""
  if spec[0] == 'ref':
    return spec
  if spec[0] == 'wrap':
    return spec[2]
  return None


def _is_marker(v):
  return (isinstance(v, tuple) and len(v) == 3 and v[0] == 'ref' and isinstance(v[1], str)
          and isinstance(v[2], bool))


def _markers(v):
  """Reference markers anywhere inside a value read by _Reader (dict keys included)."""
  if _is_marker(v):
    yield v
  elif isinstance(v, dict):
    for k, x in v.items():
      yield from _markers(k)
      yield from _markers(x)
  elif isinstance(v, (list, tuple)):
    for x in v:
      yield from _markers(x)


def _unwrap(v):
  """A value read by _Reader -> (container code, marker) for the generated container shapes."""
  if _is_marker(v):
    return 0, v
  if isinstance(v, dict) and len(v) == 1:
    (k, x), = v.items()
    if _is_marker(k) and x == 5:
      return 1, k                                   # {@ref: 5}
    if k == 'k' and isinstance(x, tuple) and len(x) == 2 and _is_marker(x[0]) and x[1] == 1:
      return 2, x[0]                                # {'k': (@ref, 1)}
  if (isinstance(v, list) and len(v) == 1 and isinstance(v[0], list) and len(v[0]) == 1
      and _is_marker(v[0][0])):
    return 3, v[0][0]                               # [[@ref]]
  return None, None


def _segment(imps, lines, names, root, cache):
  """One stretch of a file in which the set of executed imports is constant."""
  if lines not in cache:
    cache[lines] = _sub(_py_table, {'root': root, 'tops': [names[0], names[6]],
                                    'imports': list(lines)})
  res = cache[lines]
  if res['error']:
    raise RuntimeError('harness: generated imports are not valid Python: ' + res['error'])
  src = {}
  for i in imps:
    src[i['bound']] = i          # the last statement binding the name
  return {'imps': imps, 'table': res['table'], 'mods': res['mods'], 'by': _by_obj(res['table']),
          'src': src}


def _resolve_files(case, names, root, renames, overrides, cache):
  """Per file: import lines, Python table(s), resolved statements.

  A file may carry one `late` import placed between its statements that RE-BINDS a name bound by
  one of its leading imports; statements before it are resolved by Python given the leading
  imports only, statements after it given all of them executed in order (segment 0 / 1).
  overrides[(file, stmt)] = 'demote' (aim at the module's fn instead of the method) or
  ('respell', path): how the known method_respelled class is excluded by construction.
  """
  pkgs = {names[i] for i in PACKAGES}
  files = []
  for fidx, fspec in enumerate(case['files']):
    imps = _file_imports(fspec, fidx, names, renames)
    lines = tuple(i['line'] for i in imps)
    seg0 = _segment(imps, lines, names, root, cache)
    info = dict(seg0)
    info.update(stmts=[], segs=[seg0], late=None)
    n = len(fspec['stmts'])
    late = fspec.get('late')
    if late and case.get('error') is None:
      imp_k, mod_i, form_bit, at = late
      old = imps[imp_k % len(imps)]
      alias = renames.get((fidx, 'late')) or old['bound']
      modname = names[mod_i % len(names)]
      line, name, partial, form = _import_line(modname, 3 if form_bit & 1 else 1, alias)
      limp = {'line': line, 'bound': name, 'partial': partial, 'form': form, 'mod': modname,
              'k': 'late'}
      seg1 = _segment(imps + [limp], lines + (line,), names, root, cache)
      info['segs'].append(seg1)
      info['late'] = {'line': line, 'at': at % (n + 1), 'imp': limp, 'old': old}

    def pick(seg, imp_i, d, spell_i, ov=None):
      mod = seg['imps'][imp_i % len(seg['imps'])]['mod']
      cands = [mod]
      if info['late']:
        cands.append(info['late']['imp']['mod'])   # the old module may have become unreachable
      for m in cands:
        dd = 'fn' if d == 'gn' and m in pkgs else d
        sp = seg['by'].get(m + ':' + dd)
        if sp:
          path = sp[spell_i % len(sp)]
          if isinstance(ov, tuple) and ov[1] in sp:
            path = ov[1]
          return m + ':' + dd, path
      raise RuntimeError(f'harness: no spelling for {mod}:{d} in file {fidx}')

    for k, s in enumerate(fspec['stmts']):
      seg = info['segs'][1] if info['late'] and k >= info['late']['at'] else seg0
      if s[0] == 'b':
        _, imp_i, def_i, spell_i, param_i, val, blk = s
        d = LEAF_DEFS[def_i % len(LEAF_DEFS)]
        ov = overrides.get((fidx, k))
        if ov == 'demote':
          d = 'fn'
        objid, path = pick(seg, imp_i, d, spell_i, ov)
        params = ('a', 'b') if d == 'cons' else ('x', 'y')
        info['stmts'].append({'kind': 'b', 'objid': objid, 'path': path, 'seg': seg,
                              'param': params[param_i % 2], 'val': val, 'blk': bool(blk)})
      else:
        _, imp_i, spell_i, param_i, imp_j, tdef_i, tspell_i, call = s[:8]
        wrap = s[8] % 4 if len(s) > 8 else 0
        if wrap == 1:
          call = {1: 0, 2: 4, 3: 4, True: 0}.get(call, call)     # a dict KEY is an uncalled ref
        holder, hpath = pick(seg, imp_i, 'cons', spell_i)
        tgt, tpath = pick(seg, imp_j, REF_DEFS[tdef_i % len(REF_DEFS)], tspell_i)
        info['stmts'].append({'kind': 'r', 'objid': holder, 'path': hpath, 'seg': seg,
                              'param': ('a', 'b')[param_i % 2], 'tobjid': tgt,
                              'tpath': tpath, 'call': call in (1, 2, 3, True),
                              'scope': _REF_SCOPES.get(call, ''), 'wrap': wrap})
    files.append(info)
  return files


def _regname(seg, path):
  head, _, rest = path.partition('.')
  return seg['src'][head]['partial'] + '.' + rest


def _collisions(files, order):
  """The known input class alias_collision: two different objects REGISTERED under one name.

  Walks the statements in execution order.  An object is registered at its first use, under the
  alias-substituted dotted name of that spelling; the first use of a method also registers its
  class under the class part of that spelling.  A later use of an already registered object
  through a colliding spelling registers nothing and is not in the class.
  Returns {name: [keys of the aliased imports involved]}.
  """
  reg = {}       # name -> (objid, import key, aliased)
  seen = set()
  bad = {}

  def register(name, objid, key, aliased):
    prev = reg.get(name)
    if prev is None:
      reg[name] = (objid, key, aliased)
    elif prev[0] != objid:
      keys = bad.setdefault(name, set())
      for _, k_, a_ in (prev, (objid, key, aliased)):
        if a_:
          keys.add(k_)

  for fi, k in order:
    s = files[fi]['stmts'][k]
    seg = s['seg']
    uses = [(s['objid'], s['path'])]
    if s['kind'] == 'r':
      uses.insert(0, (s['tobjid'], s['tpath']))
    for objid, path in uses:
      if objid in seen or _decorated(objid):
        continue
      seen.add(objid)
      imp = seg['src'][path.split('.')[0]]
      key, aliased = (fi, imp['k']), imp['form'] in (1, 3)
      register(_regname(seg, path), objid, key, aliased)
      if _is_method(objid):
        register(_regname(seg, path.rsplit('.', 1)[0]), _class_of(objid), key, aliased)
  return {name: sorted(keys, key=str) for name, keys in bad.items()}


def _respelled(files, order):
  """The known input class method_respelled, read off the resolved statements.

  Walks the statements in execution order.  A use of a method (K.meth, K.N.nm) is in the class
  when, earlier in execution order,
    (spelling) its class was first registered -- by a binding on the class, a reference to it,
               or a use of one of its methods -- through an import spelling whose
               alias-substituted dotted name for the class differs from the one this method use
               gives it, or
    (file)     a reference `@<text>` to its class was written in a file whose text does not
               denote that class through the imports of the file that now configures the method.
  Returns one finding per such method use, with a same-name respelling where one exists.
  """
  reg = {}       # class objid -> alias-substituted name of its first registration
  refs = {}      # class objid -> [(file, reference text)]
  out = []
  for fi, k in order:
    s = files[fi]['stmts'][k]
    info = s['seg']              # the imports in force where the statement stands
    uses = [(s['objid'], s['path'], False)]
    if s['kind'] == 'r':
      uses.insert(0, (s['tobjid'], s['tpath'], True))    # the value is built first
    for objid, path, is_ref in uses:
      if _decorated(objid):
        continue
      if _is_method(objid):
        cls = _class_of(objid)
        r_m = _regname(info, path.rsplit('.', 1)[0])
        stale = [(h, q) for h, q in refs.get(cls, []) if info['table'].get(q) != cls]
        if (cls in reg and reg[cls] != r_m) or stale:
          fix = None
          if not stale:
            same = [sp for sp in info['by'].get(objid, [])
                    if _regname(info, sp.rsplit('.', 1)[0]) == reg[cls]]
            fix = same[0] if same else None
          out.append({'pos': (fi, k), 'cls': cls, 'r_reg': reg.get(cls), 'r_m': r_m,
                      'stale': stale, 'fix': fix})
        reg.setdefault(cls, r_m)
      elif _is_class(objid):
        reg.setdefault(objid, _regname(info, path))
        if is_ref:
          refs.setdefault(objid, []).append((fi, path))
  return out


def _emitted_respelled(imports, binds, table):
  """_respelled() applied to a config string emitted by Gin (one file, statements in order)."""
  info = {'src': {name: {'partial': part} for _, name, _, part in imports}, 'table': table,
          'by': _by_obj(table), 'stmts': []}
  for sel, _, val in binds:
    if table.get(sel) is None:
      continue
    st_ = {'kind': 'b', 'objid': table[sel], 'path': sel, 'seg': info}
    tsel = next((m[1].split('/')[-1] for m in _markers(val)), None)
    if tsel is not None and table.get(tsel) is not None:
      st_.update(kind='r', tobjid=table[tsel], tpath=tsel)
    info['stmts'].append(st_)
  return _respelled([info], [(0, k) for k in range(len(info['stmts']))])


def _explains(findings, v, model):
  """Is violation v one of the manifestations of the method_respelled findings?"""
  classes = {f['cls'] for f in findings}
  involved = set(classes)
  for (o, _), spec in model.items():
    if _is_method(o) and _class_of(o) in classes:
      involved.add(o)
    if _ref_of(spec) and _ref_of(spec)[1] in classes:
      involved.add(o)                       # a consumer holding a reference to the class
  names = {n for f in findings for n in (f['r_reg'], f['r_m']) if n}
  stale = [q for f in findings for _, q in f['stale']]
  kind, obj, msg = v.kind, getattr(v, 'obj', None), getattr(v, 'msg', '') or ''
  if kind in ('wrong-object-or-value', 'configurable-unusable', 'emitted-duplicate-binding'):
    return obj in involved
  if kind == 'parse-raised:ValueError':
    return any(n in msg for n in names)
  if kind == 'parse-raised:NameError':
    return any(f"'{q.split('.')[0]}'" in msg for q in stale)
  if kind == 'parse-raised:AttributeError':
    return any(q in msg for q in stale)
  return False


_RESPELLED_KINDS = ('wrong-object-or-value', 'configurable-unusable', 'emitted-duplicate-binding',
                    'parse-raised:ValueError', 'parse-raised:NameError',
                    'parse-raised:AttributeError')
_RESPELLED_EMITTED_KINDS = ('config-str-reparse-raised:ValueError',
                            'config-str-reparse-raised:NameError',
                            'config-str-reparse-raised:AttributeError', 'fresh-child-differs')


def _parent(case, i):
  p = case['files'][i]['parent']
  if i == 0 or p is None:
    return None
  return p % i


def _order(case):
  """Execution order of (file index, statement index) with includes in place; roots in order."""
  files = case['files']
  children = {}
  for i in range(len(files)):
    if _parent(case, i) is not None:
      children.setdefault(_parent(case, i), []).append(i)
  out = []

  def layout(i):
    n = len(files[i]['stmts'])
    slots = {}
    for c in children.get(i, []):
      slots.setdefault(files[c]['at'] % (n + 1), []).append(c)
    items = []
    for k in range(n + 1):
      for c in slots.get(k, []):
        items.append(('inc', c))
      if k < n:
        items.append(('stmt', k))
    return items

  def visit(i):
    for kind, k in layout(i):
      if kind == 'inc':
        visit(k)
      else:
        out.append((i, k))

  roots = [i for i in range(len(files)) if _parent(case, i) is None]
  for r in roots:
    visit(r)
  return out, roots, layout


def _stmt_text(s):
  if s['kind'] == 'b':
    if s['blk']:
      return f"{s['path']}:\n  {s['param']} = {s['val']}\n"
    return f"{s['path']}.{s['param']} = {s['val']}"
  scope = s.get('scope') or ''
  ref = f"@{scope + '/' if scope else ''}{s['tpath']}{'()' if s['call'] else ''}"
  ref = {1: '{%s: 5}', 2: "{'k': (%s, 1)}", 3: '[[%s]]'}.get(s.get('wrap', 0), '%s') % ref
  return f"{s['path']}.{s['param']} = {ref}"


def _file_lines(info, items, paths):
  """-> (head lines, body lines)."""
  head = [ENABLE] + [i['line'] for i in info['imps']]
  body = []
  late = info.get('late')
  for kind, k in items:
    if kind == 'inc':
      body.append(f"include '{paths[k]}'")
    else:
      if late and k == late['at']:
        body.append(late['line'])          # the re-binding import stands right before stmt k
      body.append(_stmt_text(info['stmts'][k]))
  if late and late['at'] >= len(info['stmts']):
    body.append(late['line'])
  return head, body


# ----------------------------------------------------------------------------- model
_DEFAULTS = {'x': 'dx', 'y': 'dy', 'a': None, 'b': None}


def _expect_call(model, objid):
  if _is_class(objid):
    return _expect_inst(model, objid)
  params = ('a', 'b') if objid.endswith(':cons') else ('x', 'y')
  d = {'id': objid}
  for p in params:
    d[p] = _expect_val(model, objid, p)
  return d


def _expect_inst(model, objid):
  d = {'is_orig': True,
       'got': {'id': objid, 'x': _expect_val(model, objid, 'x'),
               'y': _expect_val(model, objid, 'y')}}
  methods = {'K': ('meth', 'other', 'fn'), 'K.N': ('nm',), 'R': ('rm',), 'S': ('inh',)}.get(
      objid.split(':')[1], ())
  for m in methods:
    d[m] = _expect_call(model, objid + '.' + m)
  return d


def _expect_val(model, objid, param):
  spec = model.get((objid, param))
  if spec is None:
    return _DEFAULTS[param]
  if spec[0] == 'int':
    return spec[1]
  _, tgt, call = _ref_of(spec)[:3]     # the scope changes nothing: no binding is scoped
  base = _expect_call(model, tgt)
  if not call:
    base = {'callable': True, 'call': base}
  if spec[0] == 'wrap':
    return {1: {'pairs': [[base, 5]]}, 2: {'k': [base, 1]}, 3: [[base]]}[spec[1]]
  return base


def _diff(a, b, path=''):
  if isinstance(a, dict) and isinstance(b, dict):
    for k in sorted(set(a) | set(b)):
      if k not in a or k not in b:
        return f'{path}/{k}: {a.get(k, "<absent>")!r} != {b.get(k, "<absent>")!r}'
      d = _diff(a[k], b[k], path + '/' + str(k))
      if d:
        return d
    return None
  if isinstance(a, list) and isinstance(b, list) and len(a) == len(b):
    for i, (x, y) in enumerate(zip(a, b)):
      d = _diff(x, y, f'{path}[{i}]')
      if d:
        return d
    return None
  if a != b or type(a) is not type(b):
    return f'{path}: {a!r} != {b!r}'
  return None


# ----------------------------------------------------------------------------- emitted text
class _Reader(gin.config_parser.ParserDelegate):
  """Reads references as plain data; names are NOT resolved by Gin here."""

  def configurable_reference(self, scoped_selector, evaluate):
    return ('ref', scoped_selector, bool(evaluate))

  def macro(self, name):
    return ('macro', name)


def _parse_emitted(text):
  """Statement syntax via Gin's public statement parser (C03's subject, trusted here).

  -> (imports [(python line, bound name, is plain, alias-substituted path)], has_enable,
      binds [(selector, param, value)], other statements).  What the selectors DENOTE is decided
  by Python in a fresh child, not by Gin.
  """
  imports, binds, other = [], [], []
  enable = False
  cp = gin.config_parser
  for st_ in cp.ConfigParser(text, _Reader()):
    if isinstance(st_, cp.ImportStatement):
      parts = st_.module.split('.')
      if st_.is_from and parts[0] == '__gin__':
        if st_.module == '__gin__.dynamic_registration' and not st_.alias:
          enable = True
        else:
          other.append(repr(st_))
      elif st_.is_from:
        line = f"from {'.'.join(parts[:-1])} import {parts[-1]}"
        if st_.alias:
          imports.append((f'{line} as {st_.alias}', st_.alias, False,
                          '.'.join(parts[:-1] + [st_.alias])))
        else:
          imports.append((line, parts[-1], False, st_.module))
      elif st_.alias:
        imports.append((f'import {st_.module} as {st_.alias}', st_.alias, False,
                        '.'.join(parts[:-1] + [st_.alias])))
      else:
        imports.append((f'import {st_.module}', parts[0], True, parts[0]))
    elif isinstance(st_, cp.BindingStatement) and st_.arg_name and not st_.scope:
      binds.append((st_.selector, st_.arg_name, st_.value))
    elif isinstance(st_, cp.BlockDeclaration):
      continue
    else:
      other.append(repr(st_))
  return imports, enable, binds, other


def _emitted_collisions(imports, selectors, table):
  """The alias-collision class, read off an emitted config string."""
  partial = {name: part for _, name, _, part in imports}
  seen = {}
  for sel in selectors:
    objid = table.get(sel)
    head, _, rest = sel.partition('.')
    if objid is None or head not in partial:
      continue
    seen.setdefault(partial[head] + '.' + rest, set()).add(objid)
    if _is_method(objid):
      seen.setdefault(partial[head] + '.' + rest.rsplit('.', 1)[0], set()).add(_class_of(objid))
  return sorted(reg for reg, objs in seen.items() if len(objs) > 1)


# ----------------------------------------------------------------------------- fault injection
def _inject(case, files, texts):
  """Mutates texts[f] = (head, body) according to case['error']; returns (kind, relation)."""
  kind_i, f_i, a, b, c = case['error']
  kind = ERROR_KINDS[kind_i % len(ERROR_KINDS)]
  n = len(files)
  f = f_i % n
  head, body = texts[f]
  info = files[f]
  rel = ''
  if kind == 'gin-bound':
    dotted = [i['mod'] for i in info['imps'] if '.' in i['mod']]
    anymod = info['imps'][a % len(info['imps'])]['mod']
    choice = b % 3
    if choice == 1 and dotted:
      m = dotted[a % len(dotted)]
      line = f"from {m.rsplit('.', 1)[0]} import {m.rsplit('.', 1)[1]} as gin"
    elif choice == 2:
      line = 'import gin'
    else:
      line = f'import {anymod} as gin'
    head.insert(1 + a % len(head), line)
  elif kind == 'late-enable':
    head.remove(ENABLE)
    gin_line = GIN_IMPORTS[(a + c) % len(GIN_IMPORTS)]
    if b % 3 == 1:          # only Gin's own modules are imported before the enabling statement
      head[:0] = [gin_line] + ([GIN_IMPORTS[a % len(GIN_IMPORTS)]] if c & 1 else []) + [ENABLE]
      rel = 'gin-only'
    elif b % 3 == 2:        # a Gin module and a generated one
      head.insert(0, gin_line)
      head.insert(2 + a % (len(head) - 1), ENABLE)
      rel = 'mixed'
    else:
      head.insert(1 + a % len(head), ENABLE)
  elif kind == 'aliased-enable':
    head[0] = ENABLE + ' as ' + ['dr', 'dynamic_registration', 'gin'][a % 3]
  elif kind == 'unknown-feature':
    line = 'from __gin__ import ' + FEATURES[a % len(FEATURES)]
    if b & 1:
      head[0] = line
    else:
      head.insert(1 + a % len(head), line)
  elif kind == 'missing-attr':
    cands = sorted(info['table']) + sorted(info['mods'])
    base = cands[a % len(cands)]
    if c & 1:
      holders = sorted(p for p, o in info['table'].items() if o.endswith(':cons'))
      line = f'{holders[0]}.a = @{base}.zz()'
    else:
      line = f'{base}.zz.x = 1'
    body.insert(b % (len(body) + 1), line)
  else:  # name-other-file
    bound = set(info['src'])
    cands = []
    other = {}
    if n > 1:
      # the including file first, then included files, then unrelated files
      near = [g for g in range(n) if g == _parent(case, f)]
      near += [g for g in range(n) if _parent(case, g) == f]
      near += [g for g in range(n) if g != f and g not in near]
      g = near[a % len(near)]
      other = files[g]['table']
      cands = sorted(p for p in other if p.split('.')[0] not in bound)
      if _parent(case, g) == f:
        rel = 'child'
      elif _parent(case, f) == g:
        rel = 'parent'
      else:
        rel = 'other'
    if not cands:
      cands = ['qq.fn', 'qq.K.meth']
      rel = 'nowhere'
    path = cands[c % len(cands)]
    if c & 1 and path in other and not (_is_method(other[path]) or path.endswith('cons')):
      holders = sorted(p for p, o in info['table'].items() if o.endswith(':cons'))
      line = f'{holders[0]}.b = @{path}()'
    else:
      line = f'{path}.x = 1'
    if b & 1:
      body.append(line)          # after every include of this file
    else:
      body.insert(b % (len(body) + 1), line)
  return kind, rel


# ----------------------------------------------------------------------------- the check
def check_case(case):
  root = tempfile.mkdtemp(prefix='c19-')
  try:
    return _check(case, root)
  finally:
    shutil.rmtree(root, ignore_errors=True)
    while root in sys.path:
      sys.path.remove(root)


def _check(case, root):
  labels = set()
  tag = _tag(case)
  names = _module_names(tag)
  tops = [names[0], names[6]]
  _write_tree(root, names, case['pkg'])
  has_error = case.get('error') is not None
  keep = bool(case.get('keep')) and not has_error
  keepm = bool(case.get('keepm')) and not has_error
  order, roots, layout = _order(case)

  # ---- resolve, excluding the two known input classes by construction
  renames, overrides, cache = {}, {}, {}
  files = _resolve_files(case, names, root, renames, overrides, cache)
  kept_collisions = {}
  kept_respelled = []
  for _ in range(60):
    changed = False
    bad = _collisions(files, order)
    if bad and keep:
      kept_collisions = bad
      labels.add('kept:alias-collision')
    elif bad:
      labels.add('excluded:alias-collision')
      for keys in bad.values():
        for (fi, k) in keys:
          renames[(fi, k)] = f'wl{fi}' if k == 'late' else f'w{fi}{k}'
      changed = True
    resp = _respelled(files, order)
    if resp and keepm:
      kept_respelled = resp
      labels.add('kept:method-respelled')
    elif resp:
      labels.add('excluded:method-respelled')
      f = resp[0]                  # the first one in execution order; later ones may vanish
      overrides[f['pos']] = ('respell', f['fix']) if f['fix'] and f['pos'] not in overrides \
          else 'demote'
      changed = True
    if not changed:
      break
    files = _resolve_files(case, names, root, renames, overrides, cache)
  else:
    raise OutOfDomain('known classes not removable')

  paths = {i: os.path.join(root, f'cfg{i}.gin') for i in range(len(files))}
  texts = {i: _file_lines(files[i], layout(i), paths) for i in range(len(files))}

  err_kind = None
  if has_error:
    err_kind, rel = _inject(case, files, texts)
    labels.add('error:' + err_kind)
    if rel:
      labels.add(f'error:{err_kind}:{rel}')
  for i in range(len(files)):
    with open(paths[i], 'w') as f:
      f.write('\n'.join(texts[i][0] + [''] + texts[i][1]) + '\n')

  # ---- model
  model = {}
  spellings = {}
  first_ref = {}      # class objid -> file of the first @K reference to it
  scoped_ref = set()  # classes referenced through a scoped reference so far
  key_ref = set()     # classes referenced as a dict key so far
  method_after_ref = False
  method_after_ref_other_file = False
  for fi, k in order:
    s = files[fi]['stmts'][k]
    spellings.setdefault(s['objid'], set()).add(s['path'])
    if s['kind'] == 'b':
      model[(s['objid'], s['param'])] = ('int', s['val'])
      if _is_method(s['objid']):
        cls = _class_of(s['objid'])
        if cls in scoped_ref:
          labels.add('method-after-scoped-reference')
        if cls in key_ref:
          labels.add('method-after-dict-key-reference')
        if cls in first_ref:
          method_after_ref = True
          if first_ref[cls] != fi:
            method_after_ref_other_file = True
    else:
      spec = ('ref', s['tobjid'], s['call'], s.get('scope') or '')
      model[(s['objid'], s['param'])] = ('wrap', s['wrap'], spec) if s.get('wrap') else spec
      spellings.setdefault(s['tobjid'], set()).add(s['tpath'])
      first_ref.setdefault(s['tobjid'], fi)
      if s.get('scope'):
        scoped_ref.add(s['tobjid'])
      if s.get('wrap') == 1:
        key_ref.add(s['tobjid'])
  watch = sorted({o for o, _ in model} |
                 {_ref_of(spec)[1] for spec in model.values() if _ref_of(spec)} |
                 {_class_of(o) for o, _ in model if _is_method(o)})

  # ---- labels
  labels.add(f'files:{len(files)}')
  if any(_parent(case, i) is not None for i in range(len(files))):
    labels.add('include-tree')
  if len(roots) > 1:
    labels.add('multi-root')
  for r in roots:
    if not case['files'][r].get('aslist'):
      labels.add('root:str' if case['files'][r]['str'] else 'root:file')
  form_names = ['import', 'import-as', 'from', 'from-as']
  bound_mods = {}
  mod_spellings = {}
  for fi, info in enumerate(files):
    for i in info['imps']:
      labels.add('form:' + form_names[i['form']])
      bound_mods.setdefault(i['bound'], set()).add((i['mod'], fi) if i['form'] else
                                                   (i['mod'].split('.')[0], fi))
      mod_spellings.setdefault(i['mod'], set()).add(i['line'])
  for name, s in bound_mods.items():
    if len({m for m, _ in s}) > 1 and len({f for _, f in s}) > 1:
      labels.add('same-bound-name-other-module-across-files')
  if any(len(v) > 1 for v in spellings.values()):
    labels.add('two-spellings-one-object')
  used_objs = set(spellings)
  if any(_is_method(o) and ':K.N.' not in o for o in used_objs):
    labels.add('method')
  if any(o.endswith(':S.inh') for o in used_objs):
    labels.add('inherited-method')
  if any(o.endswith(':K.N') for o in used_objs):
    labels.add('nested-class')
  if any(_is_method(o) and ':K.N.' in o for o in used_objs):
    labels.add('nested-method')
  if any(_decorated(o) for o in used_objs):
    labels.add('decorator-registered')
  if any(_decorated(o) and (_is_method(o) or '.' in o.split(':')[1]) for o in used_objs):
    labels.add('decorator-registered:method-or-nested')
  if method_after_ref:
    labels.add('method-after-reference')
  if method_after_ref_other_file:
    labels.add('method-after-reference:other-file')
  for info in files:
    for s in info['stmts']:
      if s['kind'] == 'r':
        labels.add('ref-called' if s['call'] else 'ref-uncalled')
        if s.get('scope'):
          labels.add('ref-scoped')
        if s.get('wrap'):
          labels.add('ref-in-container')
          if s['wrap'] == 1:
            labels.add('ref-as-dict-key')
      elif s['blk']:
        labels.add('block-syntax')
      for key in ('path', 'tpath'):
        if key in s:
          oid = s['objid'] if key == 'path' else s['tobjid']
          ndef = oid.split(':')[1].count('.') + 1
          mod_of_path = s['seg']['mods'].get(s[key].rsplit('.', ndef)[0])
          if mod_of_path is not None and mod_of_path != oid.split(':')[0]:
            labels.add('reexport-spelling')
  for info in files:
    if info['late'] and info['late']['imp']['mod'] != info['late']['old']['mod'] and (
        info['late']['imp']['bound'] == info['late']['old']['bound']):
      labels.add('rebinding-import')
      before = {(s_[k_], s_['objid' if k_ == 'path' else 'tobjid']) for s_ in info['stmts']
                if s_['seg'] is info['segs'][0] for k_ in ('path', 'tpath') if k_ in s_}
      after = {(s_[k_], s_['objid' if k_ == 'path' else 'tobjid']) for s_ in info['stmts']
               if s_['seg'] is not info['segs'][0] for k_ in ('path', 'tpath') if k_ in s_}
      if any(p1 == p2 and o1 != o2 for p1, o1 in before for p2, o2 in after):
        labels.add('rebound-selector-used-before-and-after')
  labels.add('init-imports:' + ''.join('y' if b else 'n' for b in case['pkg']['init']))
  multi = len(files) >= 2 or any(len(v) > 1 for v in mod_spellings.values())
  deep = bool(labels & {'method', 'nested-class', 'nested-method'})
  nontrivial = multi and deep and not has_error

  ctx = {'case': case, 'root': root, 'tops': tops, 'files': files, 'texts': texts,
         'paths': paths, 'roots': roots, 'model': model, 'watch': watch, 'labels': labels,
         'has_error': has_error, 'err_kind': err_kind, 'kept_collisions': kept_collisions,
         'nontrivial': nontrivial}
  try:
    return _drive(ctx)
  except Violation as v:
    if kept_respelled and v.kind in _RESPELLED_KINDS and _explains(kept_respelled, v, model):
      why = '; '.join(
          f"{f['cls']} first registered as {f['r_reg']}, method use names it {f['r_m']}"
          + (f", stale references {f['stale']}" if f['stale'] else '') for f in kept_respelled)
      raise Violation('method-respelled:' + v.kind, f'[{why}]\n{v.detail}')
    raise


def _viol(kind, detail, obj=None, msg=None):
  v = Violation(kind, detail)
  v.obj, v.msg = obj, msg
  return v


def _denotes(text, tag, ctx):
  """Reads a config string with Python's semantics in a fresh child; it must denote the model.

  -> (imports, binds, python table, selectors).  Violation kinds are prefixed with `tag`.
  """
  root, tops, model, texts = ctx['root'], ctx['tops'], ctx['model'], ctx['texts']
  try:
    imports, enable, binds, other = _parse_emitted(text)
  except Exception as e:  # pylint: disable=broad-except
    raise Violation(tag + '-unparsable', f'{type(e).__name__}: {e}\n{text}')
  require(enable, tag + '-without-enabling', text)
  require(not other, tag + '-unexpected-statement', lambda: f'{other}\n{text}')
  seen_bound = {}
  for line, name, plain, _ in imports:
    prev = seen_bound.get(name)
    if prev is not None and not (plain and prev[1]):
      raise Violation(tag + '-colliding-bound-names', f'{prev[0]!r} and {line!r}\n{text}')
    seen_bound[name] = (line, plain)
  lines = tuple(i[0] for i in imports)
  cache = ctx.setdefault('emitted_tables', {})
  if lines not in cache:
    cache[lines] = _sub(_py_table, {'root': root, 'tops': tops, 'imports': list(lines)})
  et = cache[lines]
  require(not et['error'], tag + '-imports-fail-in-python', lambda: f'{et["error"]}\n{text}')
  emitted = {}
  selectors = []
  for sel, param, val in binds:
    selectors.append(sel)
    objid = et['table'].get(sel)
    require(objid is not None, tag + '-selector-unresolvable',
            lambda: f'{sel!r} does not resolve in a fresh interpreter given the emitted '
                    f'imports\n{text}\nfiles:\n{_dump(texts)}')
    wcode, marker = _unwrap(val)
    if marker is not None:
      *vscope, vsel = marker[1].split('/')
      selectors.append(vsel)
      tgt = et['table'].get(vsel)
      require(tgt is not None, tag + '-selector-unresolvable',
              lambda: f'reference {val!r} does not resolve\n{text}\nfiles:\n{_dump(texts)}')
      v = ('ref', tgt, marker[2], '/'.join(vscope))
      if wcode:
        v = ('wrap', wcode, v)
    elif isinstance(val, int) and not isinstance(val, bool):
      v = ('int', val)
    else:
      raise Violation(tag + '-unexpected-value', f'{sel}.{param} = {val!r}\n{text}')
    if (objid, param) in emitted:
      raise _viol(tag + '-duplicate-binding',
                  f'{objid} {param} appears twice\n{text}\nfiles:\n{_dump(texts)}', obj=objid)
    emitted[(objid, param)] = v
  # config_str() documents that it leaves out values it cannot represent literally.  The
  # pristine tree treats `{@ref: v}` so whenever the emitted spelling of the key differs from
  # the text it was written with (the key's hash is taken from its context-dependent repr), so
  # the ABSENCE of a dict-key binding is tolerated (counted), never a wrong or extra one.
  dropped = {k for k in set(model) - set(emitted)
             if model[k][0] == 'wrap' and model[k][1] == 1}
  ctx.setdefault('dropped', set()).update(dropped)
  model = {k: v for k, v in model.items() if k not in ctx['dropped']}
  if emitted != model:
    missing = sorted(set(model) - set(emitted))
    extra = sorted(set(emitted) - set(model))
    wrong = sorted(k for k in set(model) & set(emitted) if model[k] != emitted[k])
    raise Violation(tag + '-denotes-other-bindings',
                    f'missing={missing} extra={extra} wrong='
                    f'{[(k, model[k], emitted[k]) for k in wrong]}\n{text}\nfiles:\n'
                    f'{_dump(texts)}')
  return imports, binds, et, selectors


def _drive(ctx):
  """Drives Gin with the prepared files and evaluates the oracles."""
  case, root, tops, files, texts = (ctx[k] for k in ('case', 'root', 'tops', 'files', 'texts'))
  paths, roots, model, watch, labels = (ctx[k] for k in ('paths', 'roots', 'model', 'watch',
                                                          'labels'))
  has_error, err_kind, kept_collisions, nontrivial = (
      ctx[k] for k in ('has_error', 'err_kind', 'kept_collisions', 'nontrivial'))

  # ---- drive Gin
  root_args = []
  for r in roots:
    if case['files'][r].get('aslist'):
      # "a list of individual parameter binding strings": one entry per statement (a block with
      # its members is one entry); must behave like the newline-joined text
      root_args.append(('list', texts[r][0] + texts[r][1]))
      labels.add('root:list')
    elif case['files'][r]['str']:
      with open(paths[r]) as f:
        root_args.append(('str', f.read()))
    else:
      root_args.append(('file', paths[r]))
  p1 = _sub(_phase1, {'root': root, 'tops': tops, 'roots': root_args, 'watch': watch})
  raised = p1.get('raised')

  if has_error:
    want = ERRORS[err_kind]
    if raised is None:
      raise Violation('error-not-raised:' + err_kind,
                      f'expected {want}; files:\n{_dump(texts)}')
    require(want in raised['mro'], 'wrong-error-class:' + err_kind,
            lambda: f'expected {want}, got {raised["type"]} ({raised["mro"]}): '
                    f'{raised["msg"][:400]}\nfiles:\n{_dump(texts)}')
    return ok(labels, False)

  if raised is not None:
    if kept_collisions and 'ValueError' in raised['mro'] and any(
        reg in raised['msg'] for reg in kept_collisions):
      if KNOWN_AS_VIOLATION:
        raise Violation('alias-collision',
                        f'two different objects share the alias-substituted name(s) '
                        f'{sorted(kept_collisions)}; Gin: {raised["msg"][:300]}\n'
                        f'files:\n{_dump(texts)}')
      raise OutOfDomain('known:alias_collision')
    raise _viol('parse-raised:' + raised['type'],
                f'{raised["msg"][:600]}\nfiles:\n{_dump(texts)}', msg=raised['msg'])

  expected = {o: _expect_call(model, o) for o in watch}
  for o in watch:
    d = _diff(p1['obs'][o], expected[o])
    if d:
      kind = 'wrong-object-or-value'
      if 'error' in p1['obs'][o]:
        kind = 'configurable-unusable'
      raise _viol(kind, f'{o}: observed vs model at {d}\nobserved: {p1["obs"][o]}\n'
                        f'files:\n{_dump(texts)}', obj=o)
  labels.add('values-checked')

  # ---- the config string: Python's reading of the emitted text, in a fresh child
  text = p1['text']
  if text is None:
    raise Violation('config-str-raised', str(p1.get('text_error')) + '\nfiles:\n' + _dump(texts))
  imports, binds, et, selectors = _denotes(text, 'emitted', ctx)
  source_aliases = {i['bound'] for info in files for i in info['imps']}
  if any(name not in source_aliases for _, name, _, _ in imports):
    labels.add('emitted-realiased')

  # ---- Gin's reading of the emitted text, in a fresh child
  p2 = _sub(_phase2, {'root': root, 'tops': tops, 'text': text, 'watch': watch})
  if p2.get('raised'):
    r = p2['raised']
    coll = _emitted_collisions(imports, selectors, et['table'])
    if (r['where'] == 'reparse' and 'ValueError' in r['mro'] and
        any(reg in r['msg'] for reg in coll)):
      # The emitted text is itself an input of the known alias-collision class (an emitted
      # alias equals the name of a sibling module that is also used).
      if KNOWN_AS_VIOLATION:
        raise Violation('alias-collision',
                        f'the emitted config string is in the alias-collision class {coll}; '
                        f'Gin: {r["msg"][:300]}\n{text}\nfiles:\n{_dump(texts)}')
      raise OutOfDomain('known:alias_collision (emitted text)')
    resp = _emitted_respelled(imports, binds, et['table'])
    probe = _viol('parse-raised:' + r['type'], '', msg=r['msg'])
    if r['where'] == 'reparse' and resp and _explains(resp, probe, model):
      # The emitted text is itself an input of the known method_respelled class (Gin spelled
      # a class and one of its methods, or two of its methods, through two imports).
      raise Violation('method-respelled:config-str-reparse-raised:' + r['type'],
                      f'the emitted config string is in the method_respelled class '
                      f'{[(f["cls"], f["r_reg"], f["r_m"]) for f in resp]}; Gin: '
                      f'{r["msg"][:300]}\n{text}\nfiles:\n{_dump(texts)}')
    raise Violation('config-str-' + str(r['where']) + '-raised:' + r['type'],
                    f'{r["msg"][:600]}\n{text}\nfiles:\n{_dump(texts)}')
  if ctx.get('dropped'):
    labels.add('dict-key-binding-not-emitted')
  model2 = {k: v for k, v in model.items() if k not in ctx.get('dropped', ())}
  mentioned2 = ({o for o, _ in model2} | {_ref_of(v)[1] for v in model2.values() if _ref_of(v)} |
                {_class_of(o) for o, _ in model2 if _is_method(o)})
  for o in watch:
    if o not in mentioned2:
      continue          # only named by a left-out binding: the fresh child never registers it
    # == the first process's observations, except for bindings config_str() left out
    d = _diff(p2['obs'][o], p1['obs'][o] if not ctx.get('dropped') else _expect_call(model2, o))
    if d:
      resp = _emitted_respelled(imports, binds, et['table'])
      if resp and _explains(resp, _viol('wrong-object-or-value', '', obj=o), model):
        raise Violation('method-respelled:fresh-child-differs',
                        f'the emitted config string is in the method_respelled class '
                        f'{[(f["cls"], f["r_reg"], f["r_m"]) for f in resp]}; {o}: fresh vs '
                        f'original at {d}\n{text}\nfiles:\n{_dump(texts)}')
      raise Violation('fresh-child-differs', f'{o}: fresh vs original at {d}\n{text}\nfiles:\n'
                                             f'{_dump(texts)}')
  # The re-serialised text must again denote exactly the model (every selector resolves to the
  # same object).  Textual identity is NOT asserted: the property does not state it, the ORDER
  # of sections follows internal registry names (canonical order is C06), and which of several
  # valid spellings a section uses follows the import of the latest registration.  Both kinds
  # of difference are only counted.
  if p2['text'] != text:
    _denotes(p2['text'], 're-emitted', ctx)
    b1 = sorted(b.strip('\n') for b in text.split('\n\n'))
    b2 = sorted(b.strip('\n') for b in p2['text'].split('\n\n'))
    labels.add('reserialised-section-order-differs' if b1 == b2
               else 'reserialised-spelling-differs')
  labels.add('roundtrip-checked')
  if nontrivial:
    labels.add('nontrivial')
  return ok(labels, nontrivial)


def _dump(texts):
  out = []
  for i in sorted(texts):
    out.append(f'--- cfg{i}.gin')
    out.extend(texts[i][0])
    out.extend(texts[i][1])
  return '\n'.join(out)


# ----------------------------------------------------------------------------- strategy
_small = st.integers(0, 5)
_alias_i = st.integers(0, len(ALIASES) - 1)


@st.composite
def _case(draw):
  pkg = {'init': draw(st.lists(st.booleans(), min_size=3, max_size=3)),
         'reexp': draw(st.integers(0, 3))}
  focus = draw(st.sampled_from([1, 1, 1, 2, 4, 4, 5, 0, 3, 7, 8, 10]))
  mod_i = st.just(focus) | st.integers(0, 10)
  imp = st.tuples(mod_i, st.integers(0, 3), _alias_i).map(list)
  imp_i = st.just(0) | st.integers(0, 4)
  def_i = st.sampled_from([0, 0, 1, 2, 2, 3, 3, 3, 4, 5, 6, 7, 8, 9, 9, 10, 11, 12, 13, 13, 14,
                           15, 16, 16])
  bind = st.tuples(st.just('b'), imp_i, def_i, _small, st.integers(0, 1), st.integers(0, 999),
                   st.sampled_from([0, 0, 0, 1])).map(list)
  ref = st.tuples(st.just('r'), imp_i, _small, st.integers(0, 1), imp_i,
                  st.sampled_from([0, 1, 2, 2, 2, 3, 4, 5, 6, 7, 8, 9, 9]), _small,
                  st.sampled_from([1, 1, 0, 2, 2, 3, 4]),
                  st.sampled_from([0, 0, 0, 1, 1, 2, 3])).map(list)
  stmt = st.one_of(bind, bind, ref)
  nfiles = draw(st.sampled_from([1, 2, 2, 3, 3, 4]))
  files = []
  for i in range(nfiles):
    parent = None
    if i > 0 and draw(st.integers(0, 3)) > 0:
      parent = draw(st.integers(0, i - 1))
    late = None
    if draw(st.sampled_from([0, 0, 0, 1])):
      # a later import re-binding the name of leading import #k: [k, module, form bit, position]
      late = [draw(st.integers(0, 3)), draw(mod_i), draw(st.integers(0, 1)), draw(_small)]
    files.append({'parent': parent, 'at': draw(_small), 'str': draw(st.booleans()),
                  'imports': draw(st.lists(imp, min_size=1, max_size=4)),
                  'stmts': draw(st.lists(stmt, min_size=1, max_size=6)), 'late': late,
                  'aslist': bool(draw(st.sampled_from([0, 0, 0, 1])))})
  error = None
  if draw(st.sampled_from([0, 0, 0, 0, 0, 0, 0, 1, 1, 1])):
    error = [draw(st.sampled_from(range(len(ERROR_KINDS)))), draw(st.integers(0, 3)),
             draw(_small), draw(_small), draw(_small)]
  keep = bool(draw(st.sampled_from([0, 0, 1])))
  keepm = bool(draw(st.sampled_from([0] * 7 + [1])))
  return {'pkg': pkg, 'files': files, 'error': error, 'keep': keep, 'keepm': keepm}


def strategy():
  return _case()


# ----------------------------------------------------------------------------- sweeps
def _sweep_forms(tier):
  """Every import form x module depth x init flag, then a second root using the next form."""
  del tier
  cases = []
  for mod in (1, 4, 0, 7):
    for form in range(4):
      for init in (False, True):
        stmts = [['b', 0, 0, 0, 0, 11, 0], ['b', 0, 2, 0, 1, 12, 0], ['r', 0, 0, 0, 0, 2, 0, 1],
                 ['b', 0, 3, 0, 0, 13, 0], ['b', 0, 6, 0, 1, 14, 1], ['r', 0, 0, 1, 0, 0, 0, 0]]
        f0 = {'parent': None, 'at': 0, 'str': bool(form & 1), 'imports': [[mod, form, 0]],
              'stmts': stmts}
        f1 = {'parent': None, 'at': 0, 'str': not form & 1,
              'imports': [[mod, (form + 1) % 4, 1]],
              'stmts': [['b', 0, 4, 0, 1, 15, 0], ['b', 0, 2, 0, 0, 16, 0]]}
        f2 = {'parent': 0, 'at': 3, 'str': False, 'imports': [[mod, (form + 2) % 4, 0]],
              'stmts': [['b', 0, 3, 0, 1, 17, 0], ['b', 0, 5, 0, 0, 18, 0]]}
        cases.append({'pkg': {'init': [init] * 3, 'reexp': 3 if init else 0},
                      'files': [f0, f1, f2], 'error': None, 'keep': False})
      # one file, one import: nothing but this form can make the names resolve
      single = {'parent': None, 'at': 0, 'str': bool(form & 2), 'imports': [[mod, form, 1]],
                'stmts': [['b', 0, 0, 0, 0, 21, 0], ['b', 0, 8, 0, 1, 22, 0],
                          ['r', 0, 0, 0, 0, 2, 0, 1], ['b', 0, 3, 0, 0, 23, 0],
                          ['b', 0, 6, 0, 1, 24, 0], ['b', 0, 7, 0, 1, 25, 1]]}
      cases.append({'pkg': {'init': [False] * 3, 'reexp': 0}, 'files': [single],
                    'error': None, 'keep': False})
  # a class first referenced through a SCOPED reference, then one of its methods configured
  for mod, form in ((1, 0), (1, 3), (4, 2)):
    for code in (2, 3, 4):
      stmts = [['r', 0, 0, 0, 0, 2, 0, code], ['b', 0, 2, 0, 1, 101, 0], ['b', 0, 3, 0, 0, 102, 0],
               ['r', 0, 0, 1, 0, 3, 0, code], ['b', 0, 6, 0, 1, 103, 0], ['b', 0, 8, 0, 0, 104, 0]]
      cases.append({'pkg': {'init': [False] * 3, 'reexp': 0},
                    'files': [{'parent': None, 'at': 0, 'str': code == 3,
                               'imports': [[mod, form, 0]], 'stmts': stmts}],
                    'error': None, 'keep': False})
  # a method INHERITED from an unnamed base, configured through the subclass path after the
  # subclass was referenced
  for mod, form in ((1, 0), (1, 3), (4, 2), (0, 1)):
    for code in (1, 0, 2):
      stmts = [['r', 0, 0, 0, 0, 9, 0, code], ['b', 0, 15, 0, 0, 141, 0],
               ['b', 0, 16, 0, 1, 142, 0], ['b', 0, 16, 0, 0, 143, code & 1]]
      cases.append({'pkg': {'init': [False] * 3, 'reexp': 0},
                    'files': [{'parent': None, 'at': 0, 'str': bool(code & 1),
                               'imports': [[mod, form, 0]], 'stmts': stmts}],
                    'error': None, 'keep': False})
  # a class first referenced inside a container (dict KEY, tuple in a dict value, nested list),
  # then one of its methods configured
  for mod, form in ((1, 0), (4, 3)):
    for wrap in (1, 2, 3):
      for code in (0, 1, 2):
        stmts = [['r', 0, 0, 0, 0, 2, 0, code, wrap], ['b', 0, 2, 0, 1, 131, 0],
                 ['b', 0, 3, 0, 0, 132, 0], ['r', 0, 0, 1, 0, 3, 0, code, wrap],
                 ['b', 0, 6, 0, 1, 133, 0]]
        cases.append({'pkg': {'init': [False] * 3, 'reexp': 0},
                      'files': [{'parent': None, 'at': 0, 'str': bool(code & 1),
                                 'imports': [[mod, form, 0]], 'stmts': stmts}],
                      'error': None, 'keep': False})
  # one bound name used by two files plus a NUMBERED variant of it by a third import
  for form in (1, 3):
    for numbered in (6, 5):          # 'mm3' / 'mm2'
      fs = []
      for mod, alias in ((1, 0), (2, numbered), (5, 0), (7, 0)):
        fs.append({'parent': None, 'at': 0, 'str': False, 'imports': [[mod, form, alias]],
                   'stmts': [['b', 0, 0, 0, 0, 110 + mod, 0], ['b', 0, 2, 0, 1, 120 + mod, 0]]})
      cases.append({'pkg': {'init': [False] * 3, 'reexp': 0}, 'files': fs, 'error': None,
                    'keep': False})
  # decorator-registered objects (custom Gin name, registered method, nested class) configured by
  # their Python path; and every parse variant of a root (file / string / list of statements)
  for mod, form in ((1, 0), (1, 3), (4, 2), (0, 1)):
    for variant in range(3):
      stmts = [['b', 0, 10, 0, 0, 91, 0], ['b', 0, 11, 0, 1, 92, 0], ['b', 0, 13, 0, 0, 93, 0],
               ['b', 0, 12, 0, 1, 94, 1], ['b', 0, 14, 0, 0, 95, 0], ['r', 0, 0, 0, 0, 6, 0, 1],
               ['r', 0, 0, 1, 0, 7, 0, 1], ['b', 0, 0, 0, 0, 96, 0], ['b', 0, 3, 0, 1, 97, 1]]
      cases.append({'pkg': {'init': [False] * 3, 'reexp': 0},
                    'files': [{'parent': None, 'at': 0, 'str': variant == 1,
                               'aslist': variant == 2, 'imports': [[mod, form, 0]],
                               'stmts': stmts}],
                    'error': None, 'keep': False})
  # one file re-binds an alias: `import P.m1 as mm; mm.fn.x=..; import P.m2 as mm; mm.fn.x=..`
  # (the second module's objects are first registered through another spelling, which keeps the
  # case out of the alias_collision class)
  for f_a, f_b in ((1, 1), (3, 3), (1, 3)):
    for blk in (0, 1):
      stmts = [['b', 1, 0, 0, 1, 81, 0], ['b', 1, 2, 0, 1, 82, 0],       # P.m2.fn / P.m2.K
               ['b', 0, 0, 0, 0, 83, 0], ['b', 0, 2, 0, 0, 84, 0],       # mm.fn / mm.K  (m1)
               ['b', 2, 0, 0, 0, 85, blk], ['b', 2, 2, 0, 0, 86, blk],   # mm.fn / mm.K  (m2)
               ['r', 2, 0, 0, 2, 0, 0, 1]]
      cases.append({'pkg': {'init': [False] * 3, 'reexp': 0},
                    'files': [{'parent': None, 'at': 0, 'str': bool(blk),
                               'imports': [[1, f_a, 0], [2, 0, 0]], 'stmts': stmts,
                               'late': [0, 2, f_b >> 1, 4]}],
                    'error': None, 'keep': False})
  # `import a.b as b`: an alias equal to the module's own last component is still an alias
  for mod, alias in ((1, 2), (4, 2), (3, 3), (10, 2)):
    cases.append({'pkg': {'init': [False] * 3, 'reexp': 0},
                  'files': [{'parent': None, 'at': 0, 'str': False, 'imports': [[mod, 1, alias]],
                             'stmts': [['b', 0, 0, 0, 0, 71, 0], ['b', 0, 2, 0, 1, 72, 0],
                                       ['r', 0, 0, 0, 0, 2, 0, 1]]}],
                  'error': None, 'keep': False})
  # sibling sub-packages with same-named leaf modules, both imported by plain dotted imports
  # (either order; the name they bind belongs to the LAST one): objects of each are configured
  for first, second in ((4, 10), (10, 4)):
    for init in (False, True):
      for two_files in (False, True):
        stmts = [['b', 0, 0, 0, 0, 61, 0], ['b', 0, 2, 0, 1, 62, 0], ['r', 0, 0, 0, 0, 2, 0, 1],
                 ['b', 0, 3, 0, 0, 63, 0], ['b', 1, 0, 0, 1, 64, 0]]
        fa = {'parent': None, 'at': 0, 'str': False,
              'imports': [[first, 0, 0], [second, 0, 0]], 'stmts': stmts}
        files = [fa]
        if two_files:
          files.append({'parent': None, 'at': 0, 'str': False,
                        'imports': [[second, 0, 0], [first, 0, 0]],
                        'stmts': [['b', 0, 1, 0, 0, 65, 0], ['b', 1, 1, 0, 1, 66, 0]]})
        cases.append({'pkg': {'init': [init] * 3, 'reexp': 0}, 'files': files,
                      'error': None, 'keep': False})
  # fn and its functools.wraps-decorated variant wfn are two objects: both orders of first use
  for mod, form in ((1, 1), (0, 0), (5, 2)):
    for first, second in ((0, 9), (9, 0)):
      for via_ref in (0, 1):
        stmts = [['b', 0, first, 0, 0, 51, 0], ['b', 0, second, 0, 0, 52, 0],
                 ['b', 0, second, 0, 1, 53, 0]]
        if via_ref:
          stmts = [['r', 0, 0, 0, 0, 0 if first == 0 else 4, 0, 1],
                   ['r', 0, 0, 1, 0, 4 if first == 0 else 0, 0, 1]] + stmts[1:]
        cases.append({'pkg': {'init': [False] * 3, 'reexp': 0},
                      'files': [{'parent': None, 'at': 0, 'str': False,
                                 'imports': [[mod, form, 0]], 'stmts': stmts}],
                      'error': None, 'keep': False})
  # a plain dotted import binds its TOP-LEVEL name; another file binds that very name to another
  # module (`from Q import P` where Q.P is a submodule named like package P, or an alias P)
  for plain_mod in (1, 5):
    for other in ([8, 2, 0], [7, 1, 4], [2, 3, 4]):
      for inc in (None, 0):
        fa = {'parent': None, 'at': 2, 'str': False, 'imports': [[plain_mod, 0, 0]],
              'stmts': [['b', 0, 0, 0, 0, 41, 0], ['b', 0, 2, 0, 1, 42, 0]]}
        fb = {'parent': inc, 'at': 1, 'str': False, 'imports': [other],
              'stmts': [['b', 0, 0, 0, 1, 43, 0], ['r', 0, 0, 0, 0, 2, 0, 1]]}
        cases.append({'pkg': {'init': [False] * 3, 'reexp': 0}, 'files': [fa, fb],
                      'error': None, 'keep': False})
  # two files binding ONE name to two modules: the config string has to re-alias one of them
  for form in (2, 3):
    for inc in (None, 0):
      fa = {'parent': None, 'at': 1, 'str': False, 'imports': [[1, form, 0]],
            'stmts': [['b', 0, 0, 0, 0, 31, 0], ['b', 0, 2, 0, 1, 32, 0]]}
      fb = {'parent': inc, 'at': 1, 'str': False, 'imports': [[4, form, 0]],
            'stmts': [['b', 0, 1, 0, 0, 33, 0], ['r', 0, 0, 0, 0, 2, 0, 1]]}
      cases.append({'pkg': {'init': [False] * 3, 'reexp': 0}, 'files': [fa, fb],
                    'error': None, 'keep': False})
  return cases, True


def _sweep_errors(tier):
  """Every error class in a root, in an included file and in an including file."""
  del tier
  cases = []
  for kind in range(len(ERROR_KINDS)):
    for where in (0, 1, 2):
      for a in range(3):
        for b in range(3):
          files = [
              {'parent': None, 'at': 1, 'str': bool(a & 1), 'imports': [[1, a, 0], [2, 2, 1]],
               'stmts': [['b', 0, 0, 0, 0, 1, 0], ['b', 1, 2, 0, 0, 2, 0]]},
              {'parent': 0, 'at': 0, 'str': False, 'imports': [[4, 3 - a, 2], [5, 0, 0]],
               'stmts': [['b', 0, 3, 0, 0, 3, 0]]},
              {'parent': None, 'at': 0, 'str': bool(b), 'imports': [[7, 1, 5]],
               'stmts': [['b', 0, 1, 0, 0, 4, 0]]},
          ]
          cases.append({'pkg': {'init': [bool(b & 1)] * 3, 'reexp': 0}, 'files': files,
                        'error': [kind, where, a, b, a + b], 'keep': False})
  return cases, True


SWEEPS = {'forms': _sweep_forms, 'errors': _sweep_errors}


# ----------------------------------------------------------------------------- known findings
KNOWN = {
    # check_case raises this kind only when (a) the parsed text -- a generated file set carrying
    # keep=true, or a config string emitted by Gin -- contains two different objects whose
    # alias-substituted dotted names coincide and (b) Gin rejected it with a ValueError naming
    # exactly such a name.
    'alias_collision': lambda case, verdict: verdict.get('kind') == 'alias-collision',
    # check_case prefixes a violation kind with 'method-respelled:' only when the case carries
    # keepm=true, _respelled() finds the structural condition in the resolved statements (a
    # method use whose class was first registered under another alias-substituted name, or whose
    # class is referenced by a text that does not denote it through the configuring file's
    # imports) AND _explains() ties the failure to that class: a wrong value / unusable
    # configurable / duplicated emitted binding on the class, its methods or a consumer holding
    # a reference to it; a ValueError naming one of the two names of the class; a NameError /
    # AttributeError naming the stale reference text.
    # The same analysis applied to a config string emitted by Gin (kinds config-str-reparse-raised
    # and fresh-child-differs) needs no keepm: which imports the emitted text uses is Gin's choice.
    'method_respelled': lambda case, verdict: (
        str(verdict.get('kind', '')).startswith('method-respelled:') and (
            (bool(case.get('keepm')) and
             verdict['kind'][len('method-respelled:'):] in _RESPELLED_KINDS) or
            verdict['kind'][len('method-respelled:'):] in _RESPELLED_EMITTED_KINDS)),
}
