"""C19 — dynamic registration resolves names through the file's own imports.

Every case builds a package tree in a temp dir (unique top-level names derived from the case
hash), a set of config files (strings and include trees) that enable dynamic registration and
import the generated modules with every import form, and drives Gin with them.

Oracles (all independent of Gin):
  * Python itself: for every config file a *fresh* forked child executes that file's import
    statements with `exec` and walks the attribute graph; that table (dotted path -> module +
    qualname) decides which spellings are valid in the file and which object each one denotes.
  * a last-write-wins binding model keyed by the denoted object: after the parse every bound
    object, fetched from sys.modules afterwards, is called through gin.get_configurable(obj)
    and must receive the model's values (references deliver instances of the original class,
    with the method bindings applied).
  * the text of gin.config_str(), read with Python import semantics in a fresh child, must
    denote exactly the model's bindings; parsed by Gin in another fresh child it must give the
    same observations and re-serialise to the identical text.
  * fault injection: each error class of the property raises the documented exception class.

Process layout per case: the runner forks one child (ISOLATE); that child stays pristine (never
imports the generated packages, never touches sys.path) and orchestrates sub-forks through
iso.run: one Python-oracle child per config file, one Gin child for the parse + observations,
one Python-oracle child for the emitted imports, one fresh Gin child for the re-parse.
"""
import hashlib
import inspect
import os
import re
import shutil
import sys
import tempfile
import types

from hypothesis import strategies as st

from vf import ginenv, iso
from vf.core import OutOfDomain, Violation, canon, ok, require

gin = ginenv.import_gin()

ID = 'C19'
LEVEL = 'exploration'
ISOLATE = True
BUDGET = {'quick': (16, 70), 'thorough': (16, 1000)}

# Final mode: a recognised alias collision (DESIGN section 6, row 13) is raised as a Violation
# of kind 'alias-collision' so that the known-findings machinery (KNOWN['alias_collision'] +
# an `open` entry in known_findings.json) counts it.  With False it is an OutOfDomain.
KNOWN_AS_VIOLATION = False

RULE = ('Per case: a generated tree of 2 top-level packages / 8 modules (flags: does each package '
        '__init__ import its submodules; which re-exports exist), every module defining fn, gn, '
        'class K with methods meth/other and nested class K.N with method nm, and a consumer '
        'cons; 1-4 config files (roots parsed as string or file, include trees) each enabling '
        'dynamic registration and importing 1-4 modules with a generated form (import a.b / '
        'import a.b as c / from a import b / from a import b as c) and alias from a small pool '
        '(so the same bound name denotes different modules in different files); 1-6 statements '
        'per file (flat or block syntax) binding a parameter of an object chosen by (import, '
        'definition) through a generated index into ALL spellings Python accepts for that object '
        'in that file (other imports, re-exports), or binding cons.a/b to a called/uncalled '
        'reference; half of the operands aim at one focus module so spellings, references and '
        'method bindings meet; optional injected fault (6 error classes). Non-trivial = (>=2 '
        'files or >=2 distinct import spellings of one module) and a method or nested class is '
        'configured, on a valid (no injected fault) case. Distinct = distinct case JSON.')
ASSUMPTIONS = [
    '`from X import Y` is generated only where Y is a module or package (Gin implements every '
    'import as __import__("X.Y")).',
    'A dotted path is used in a file only if it is valid in a fresh interpreter that executed only '
    'that file\'s import statements (decided by a forked child running Python\'s own exec/getattr); '
    'paths that work only because another file imported a submodule are not generated.',
    'All import statements of a file directly follow its enabling statement; a bound name is '
    'bound at most once per file, except that several plain `import top.x` / `import top.y` may '
    'share their top-level name (same object in Python).',
    'Reference targets are functions and classes (never cons), so evaluation terminates.',
    'No inheritance between generated classes; no scopes, macros or gin.* builtins in the files '
    '(covered by C04/C05/C09); aliases are never Python keywords.',
    'The input class "two different objects whose alias-substituted dotted names coincide" '
    '(known finding alias_collision) is excluded by construction (the alias is replaced by a '
    'unique one, counted under excluded:alias-collision) except in cases that carry keep=true.',
    'After an injected fault only the exception class is asserted (what a failed parse leaves '
    'behind is C16).',
]
FLOORS = {
    'nontrivial': 0.15,
    'include-tree': 0.15,
    'same-bound-name-other-module-across-files': 0.05,
    'two-spellings-one-object': 0.10,
    'method-after-reference': 0.04,
    'emitted-realiased': 0.05,
    'error:name-other-file': 0.01,
    'error:gin-bound': 0.01,
    'error:late-enable': 0.01,
    'error:aliased-enable': 0.01,
    'error:unknown-feature': 0.01,
    'error:missing-attr': 0.01,
}
TECHNIQUE = ('property-based testing with a differential oracle (Python\'s own import/getattr in '
             'a fresh forked interpreter), a last-write-wins binding model, a fresh-process '
             'round trip of config_str, and fault injection for the error classes')
LEVEL_TEXT = ('Generated package trees and config-file trees exercise every import form and alias, '
              'colliding bound names across files, several spellings of one object, first-use '
              'orders and methods configured after their class was referenced. What a name '
              'denotes is decided by Python itself in a fresh child, what a configurable must '
              'receive by a naive model; the emitted config string is interpreted both by Python '
              'and by Gin in fresh children. Exploration: no counter-example within the generated '
              'space, not a proof.')
LEVEL_NOTE = ('Trusted: CPython import semantics in the oracle child, the 30-line binding model, '
              'fork as "fresh interpreter" (the parent never imports the generated packages and '
              'their names are unique per case). The tree shape is fixed (depth 3, 8 modules); '
              'only flags, imports, spellings and statements vary.')

ENABLE = 'from __gin__ import dynamic_registration'
ALIASES = ['mm', 'nn', 'm1', 'sub']
LEAF_DEFS = ['fn', 'gn', 'K', 'K.meth', 'K.other', 'K.N', 'K.N.nm', 'cons']
REF_DEFS = ['fn', 'gn', 'K', 'K.N']
ERRORS = {
    'name-other-file': 'NameError',
    'gin-bound': 'ValueError',
    'late-enable': 'SyntaxError',
    'aliased-enable': 'SyntaxError',
    'unknown-feature': 'SyntaxError',
    'missing-attr': 'AttributeError',
}
ERROR_KINDS = sorted(ERRORS)
FEATURES = ['dynamic_registrations', 'registration', 'x']


# ----------------------------------------------------------------------------- package tree
def _tag(case):
  return 'q' + hashlib.sha1(canon(case).encode('utf8')).hexdigest()[:7]


def _module_names(tag):
  a, b = tag + 'a', tag + 'b'
  return [a, a + '.m1', a + '.m2', a + '.sub', a + '.sub.m1', a + '.sub.m3', b, b + '.m1']


PACKAGES = (0, 3, 6)

_BODY = '''
def fn(x='dx', y='dy'):
  return {'id': _ID + ':fn', 'x': x, 'y': y}

%(gn)s
class K:

  def __init__(self, x='dx', y='dy'):
    self.got = {'id': _ID + ':K', 'x': x, 'y': y}

  def meth(self, x='dx', y='dy'):
    return {'id': _ID + ':K.meth', 'x': x, 'y': y}

  def other(self, x='dx', y='dy'):
    return {'id': _ID + ':K.other', 'x': x, 'y': y}

  class N:

    def __init__(self, x='dx', y='dy'):
      self.got = {'id': _ID + ':K.N', 'x': x, 'y': y}

    def nm(self, x='dx', y='dy'):
      return {'id': _ID + ':K.N.nm', 'x': x, 'y': y}


def cons(a=None, b=None):
  return {'id': _ID + ':cons', 'a': a, 'b': b}
'''
_GN = '''def gn(x='dx', y='dy'):
  return {'id': _ID + ':gn', 'x': x, 'y': y}
'''


def _write_tree(root, names, pkg):
  """Writes the package tree.  pkg = {'init': [b, b, b], 'reexp': 0..3}."""
  a, asub, b = names[0], names[3], names[6]
  init = pkg['init']
  reexp = pkg['reexp']
  sources = {}
  for i, name in enumerate(names):
    is_pkg = i in PACKAGES
    src = '_ID = __name__\n' + _BODY % {'gn': '' if is_pkg else _GN}
    if i == 0:
      if init[0]:
        src += f'\nfrom {a} import m1, m2, sub\n'
      if reexp & 1:
        src += f'\nfrom {a}.m1 import gn, K as RK\n'
    elif i == 3:
      if init[1]:
        src += f'\nfrom {asub} import m1, m3\n'
      if reexp & 2:
        src += f'\nfrom {asub}.m3 import gn as rgn\n'
    elif i == 6:
      if init[2]:
        src += f'\nfrom {b} import m1\n'
    sources[name] = (is_pkg, src)
  for name, (is_pkg, src) in sources.items():
    rel = name.replace('.', os.sep)
    path = os.path.join(root, rel, '__init__.py') if is_pkg else os.path.join(root, rel + '.py')
    os.makedirs(os.path.dirname(path), exist_ok=True)
    with open(path, 'w') as f:
      f.write(src)


# ----------------------------------------------------------------------------- child helpers
def _sub(fn, payload):
  """Runs fn(payload) in a fresh fork of this (pristine) process; returns its dict."""
  res = iso.run(fn, payload)
  st_ = res.get('status')
  if st_ == 'ok':
    return res
  if st_ == 'violation':
    raise Violation('child:' + res.get('kind', '?'), res.get('detail', ''))
  if st_ == 'ood':
    raise OutOfDomain(res.get('reason', ''))
  raise BlockingIOError('sub-child inconclusive: ' + str(res.get('reason')))  # -> inconclusive


def _ours(name, tops):
  return isinstance(name, str) and name.split('.')[0] in tops


def _assert_fresh(tops):
  stale = [m for m in sys.modules if _ours(m, tops)]
  if stale:
    raise RuntimeError(f'harness: generated packages already imported: {stale}')


def _py_table(p):
  """CHILD.  Python's own view: executes import lines, walks attributes.  path -> objid."""
  tops = tuple(p['tops'])
  _assert_fresh(tops)
  sys.path.insert(0, p['root'])
  ns = {}
  try:
    for line in p['imports']:
      exec(line, ns)  # pylint: disable=exec-used
  except BaseException as e:  # pylint: disable=broad-except
    return {'status': 'ok', 'error': f'{type(e).__name__}: {e}', 'table': {}, 'mods': {}}
  table, mods = {}, {}

  def walk(path, obj, depth):
    if depth > 7:
      return
    if isinstance(obj, types.ModuleType):
      if not _ours(obj.__name__, tops):
        return
      mods[path] = obj.__name__
      for n, v in sorted(vars(obj).items()):
        if n.startswith('_'):
          continue
        if isinstance(v, types.ModuleType) or (
            (inspect.isfunction(v) or inspect.isclass(v)) and
            _ours(getattr(v, '__module__', None), tops)):
          walk(path + '.' + n, v, depth + 1)
    elif inspect.isclass(obj):
      table[path] = obj.__module__ + ':' + obj.__qualname__
      for n, v in sorted(vars(obj).items()):
        if n.startswith('_'):
          continue
        if inspect.isfunction(v) or inspect.isclass(v):
          walk(path + '.' + n, v, depth + 1)
    elif inspect.isfunction(obj):
      table[path] = obj.__module__ + ':' + obj.__qualname__

  for n, v in sorted(ns.items()):
    if n != '__builtins__':
      walk(n, v, 1)
  return {'status': 'ok', 'error': None, 'table': table, 'mods': mods}


def _fetch(objid):
  mod, qual = objid.split(':')
  obj = sys.modules[mod]          # fetched afterwards, never imported by the harness
  for part in qual.split('.'):
    obj = getattr(obj, part)
  return obj


def _norm(v, tops, depth=0):
  """JSON view of a delivered value."""
  if depth > 6:
    return '<deep>'
  if isinstance(v, dict):
    return {k: _norm(x, tops, depth + 1) for k, x in v.items()}
  if v is None or isinstance(v, (int, str)):
    return v
  t = type(v)
  if inspect.isfunction(v) or inspect.isclass(v):
    if _ours(getattr(v, '__module__', None), tops):
      return {'callable': v.__module__ + ':' + v.__qualname__,
              'call': _norm(v(), tops, depth + 1)}
    return '<callable ' + repr(getattr(v, '__qualname__', '?')) + '>'
  if _ours(getattr(t, '__module__', None), tops):
    objid = t.__module__ + ':' + t.__qualname__
    try:
      orig = isinstance(v, _fetch(objid))
    except Exception:  # pylint: disable=broad-except
      orig = False
    d = {'inst': objid, 'is_orig': orig, 'got': _norm(getattr(v, 'got', None), tops, depth + 1)}
    for m in ('meth', 'other', 'nm'):
      if hasattr(v, m):
        d[m] = _norm(getattr(v, m)(), tops, depth + 1)
    return d
  return '<' + t.__name__ + '>'


def _observe(watch, tops):
  obs = {}
  for objid in watch:
    try:
      obj = _fetch(objid)
      conf = gin.get_configurable(obj)
      leaf = objid.rsplit('.', 1)[-1].split(':')[-1]
      if leaf in ('meth', 'other', 'nm'):
        cls = _fetch(objid.rsplit('.', 1)[0])
        bare = cls.__new__(cls)
        obs[objid] = _norm(conf(bare), tops)
      else:
        obs[objid] = _norm(conf(), tops)
    except Exception as e:  # pylint: disable=broad-except
      obs[objid] = {'error': type(e).__name__ + ': ' + str(e)[:300]}
  return obs


def _exc_info(e, where):
  return {'where': where, 'type': type(e).__name__,
          'mro': [c.__name__ for c in type(e).__mro__], 'msg': str(e)[:1500]}


def _phase1(p):
  """CHILD.  Parses the roots with Gin, observes, serialises."""
  tops = tuple(p['tops'])
  _assert_fresh(tops)
  sys.path.insert(0, p['root'])
  for i, (mode, arg) in enumerate(p['roots']):
    try:
      if mode == 'str':
        gin.parse_config(arg)
      else:
        gin.parse_config_file(arg)
    except Exception as e:  # pylint: disable=broad-except
      return {'status': 'ok', 'raised': _exc_info(e, i)}
  obs = _observe(p['watch'], tops)
  try:
    text = gin.config_str()
  except Exception as e:  # pylint: disable=broad-except
    return {'status': 'ok', 'raised': None, 'obs': obs, 'text': None,
            'text_error': _exc_info(e, 'config_str')}
  return {'status': 'ok', 'raised': None, 'obs': obs, 'text': text}


def _phase2(p):
  """CHILD (fresh).  Parses the emitted config string, observes, re-serialises."""
  tops = tuple(p['tops'])
  _assert_fresh(tops)
  sys.path.insert(0, p['root'])
  try:
    gin.parse_config(p['text'])
  except Exception as e:  # pylint: disable=broad-except
    return {'status': 'ok', 'raised': _exc_info(e, 'reparse')}
  obs = _observe(p['watch'], tops)
  try:
    text = gin.config_str()
  except Exception as e:  # pylint: disable=broad-except
    return {'status': 'ok', 'raised': _exc_info(e, 'config_str')}
  return {'status': 'ok', 'raised': None, 'obs': obs, 'text': text}


# ----------------------------------------------------------------------------- files
def _import_line(modname, form, alias):
  """-> (line, bound name, partial path used by the alias-collision class, form)."""
  parts = modname.split('.')
  if len(parts) == 1:
    form &= 1
  if form == 0:
    return f'import {modname}', parts[0], parts[0], 0
  if form == 1:
    return f'import {modname} as {alias}', alias, '.'.join(parts[:-1] + [alias]), 1
  pkg, leaf = '.'.join(parts[:-1]), parts[-1]
  if form == 2:
    return f'from {pkg} import {leaf}', leaf, modname, 2
  return f'from {pkg} import {leaf} as {alias}', alias, '.'.join(parts[:-1] + [alias]), 3


def _file_imports(fspec, fidx, names, renames):
  """Resolves a file's import specs into lines; keeps bound names unique within the file."""
  out = []
  bound = {}
  for k, (mod_i, form, alias_i) in enumerate(fspec['imports']):
    modname = names[mod_i % len(names)]
    alias = renames.get((fidx, k)) or ALIASES[alias_i % len(ALIASES)]
    line, name, partial, form = _import_line(modname, form % 4, alias)
    if name in bound and not (form == 0 and bound[name] == 0):
      alias = f'u{fidx}{k}'
      line, name, partial, form = _import_line(modname, form | 1, alias)
    bound[name] = form
    out.append({'line': line, 'bound': name, 'partial': partial, 'form': form, 'mod': modname,
                'k': k})
  return out


def _by_obj(table):
  by = {}
  for path, objid in table.items():
    by.setdefault(objid, []).append(path)
  for objid in by:
    by[objid].sort(key=lambda s: (s.count('.'), s))
  return by


class _Plan:
  """Everything derived from the case: texts, flattened uses, model."""


def _resolve_files(case, names, root, renames):
  """Per file: import lines, Python table, resolved statements."""
  pkgs = {names[i] for i in PACKAGES}
  files = []
  for fidx, fspec in enumerate(case['files']):
    imps = _file_imports(fspec, fidx, names, renames)
    res = _sub(_py_table, {'root': root, 'tops': [names[0], names[6]],
                           'imports': [i['line'] for i in imps]})
    if res['error']:
      raise RuntimeError('harness: generated imports are not valid Python: ' + res['error'])
    table = res['table']
    by = _by_obj(table)
    src = {}
    for i in imps:
      src[i['bound']] = i          # the last statement binding the name
    info = {'imps': imps, 'table': table, 'mods': res['mods'], 'by': by, 'src': src, 'stmts': []}

    def target(imp_i, d):
      mod = imps[imp_i % len(imps)]['mod']
      if d == 'gn' and mod in pkgs:
        d = 'fn'
      return mod + ':' + d

    def spell(objid, k):
      sp = by.get(objid)
      if not sp:
        raise RuntimeError(f'harness: no spelling for {objid} in file {fidx}')
      return sp[k % len(sp)]

    for s in fspec['stmts']:
      if s[0] == 'b':
        _, imp_i, def_i, spell_i, param_i, val, blk = s
        d = LEAF_DEFS[def_i % len(LEAF_DEFS)]
        objid = target(imp_i, d)
        params = ('a', 'b') if d == 'cons' else ('x', 'y')
        info['stmts'].append({'kind': 'b', 'objid': objid, 'path': spell(objid, spell_i),
                              'param': params[param_i % 2], 'val': val, 'blk': bool(blk)})
      else:
        _, imp_i, spell_i, param_i, imp_j, tdef_i, tspell_i, call = s
        holder = target(imp_i, 'cons')
        tgt = target(imp_j, REF_DEFS[tdef_i % len(REF_DEFS)])
        info['stmts'].append({'kind': 'r', 'objid': holder, 'path': spell(holder, spell_i),
                              'param': ('a', 'b')[param_i % 2], 'tobjid': tgt,
                              'tpath': spell(tgt, tspell_i), 'call': bool(call)})
    files.append(info)
  return files


def _regname(info, path):
  head, _, rest = path.partition('.')
  return info['src'][head]['partial'] + '.' + rest


def _uses_of(info, fidx):
  """(regname, objid, import k, aliased) for every name a statement makes Gin register."""
  out = []

  def add(path, objid):
    head = path.split('.')[0]
    imp = info['src'][head]
    out.append((_regname(info, path), objid, (fidx, imp['k']), imp['form'] in (1, 3)))
    leaf = objid.rsplit('.', 1)[-1]
    if leaf in ('meth', 'other', 'nm'):     # a method registers its class under the same spelling
      out.append((_regname(info, path.rsplit('.', 1)[0]), objid.rsplit('.', 1)[0],
                  (fidx, imp['k']), imp['form'] in (1, 3)))

  for s in info['stmts']:
    add(s['path'], s['objid'])
    if s['kind'] == 'r':
      add(s['tpath'], s['tobjid'])
  return out


def _collisions(files):
  """The known input class: two different objects with one alias-substituted dotted name."""
  seen = {}
  for fidx, info in enumerate(files):
    for reg, objid, key, aliased in _uses_of(info, fidx):
      seen.setdefault(reg, []).append((objid, key, aliased))
  bad = {}
  for reg, lst in seen.items():
    if len({o for o, _, _ in lst}) > 1:
      bad[reg] = sorted({key for _, key, aliased in lst if aliased})
  return bad


def _parent(case, i):
  p = case['files'][i]['parent']
  if i == 0 or p is None:
    return None
  return p % i


def _order(case):
  """Execution order of (file index, statement index) with includes in place; roots in order."""
  files = case['files']
  children = {}
  for i in range(len(files)):
    if _parent(case, i) is not None:
      children.setdefault(_parent(case, i), []).append(i)
  out = []

  def layout(i):
    n = len(files[i]['stmts'])
    slots = {}
    for c in children.get(i, []):
      slots.setdefault(files[c]['at'] % (n + 1), []).append(c)
    items = []
    for k in range(n + 1):
      for c in slots.get(k, []):
        items.append(('inc', c))
      if k < n:
        items.append(('stmt', k))
    return items

  def visit(i):
    for kind, k in layout(i):
      if kind == 'inc':
        visit(k)
      else:
        out.append((i, k))

  roots = [i for i in range(len(files)) if _parent(case, i) is None]
  for r in roots:
    visit(r)
  return out, roots, layout, children


def _stmt_text(s):
  if s['kind'] == 'b':
    if s['blk']:
      return f"{s['path']}:\n  {s['param']} = {s['val']}\n"
    return f"{s['path']}.{s['param']} = {s['val']}"
  return f"{s['path']}.{s['param']} = @{s['tpath']}{'()' if s['call'] else ''}"


def _file_lines(info, items, paths):
  """-> (head lines, body lines)."""
  head = [ENABLE] + [i['line'] for i in info['imps']]
  body = []
  for kind, k in items:
    if kind == 'inc':
      body.append(f"include '{paths[k]}'")
    else:
      body.append(_stmt_text(info['stmts'][k]))
  return head, body


# ----------------------------------------------------------------------------- model
_DEFAULTS = {'x': 'dx', 'y': 'dy', 'a': None, 'b': None}


def _expect_call(model, objid):
  leaf = objid.rsplit('.', 1)[-1].split(':')[-1]
  if leaf in ('K', 'N'):
    return _expect_inst(model, objid)
  params = ('a', 'b') if leaf == 'cons' else ('x', 'y')
  d = {'id': objid}
  for p in params:
    d[p] = _expect_val(model, objid, p)
  return d


def _expect_inst(model, objid):
  d = {'inst': objid, 'is_orig': True,
       'got': {'id': objid, 'x': _expect_val(model, objid, 'x'),
               'y': _expect_val(model, objid, 'y')}}
  methods = ('meth', 'other') if objid.endswith(':K') else ('nm',)
  for m in methods:
    d[m] = _expect_call(model, objid + '.' + m)
  return d


def _expect_val(model, objid, param):
  spec = model.get((objid, param))
  if spec is None:
    return _DEFAULTS[param]
  if spec[0] == 'int':
    return spec[1]
  _, tgt, call = spec
  if call:
    return _expect_call(model, tgt)
  return {'callable': tgt, 'call': _expect_call(model, tgt)}


def _diff(a, b, path=''):
  if isinstance(a, dict) and isinstance(b, dict):
    for k in sorted(set(a) | set(b)):
      if k not in a or k not in b:
        return f'{path}/{k}: {a.get(k, "<absent>")!r} != {b.get(k, "<absent>")!r}'
      d = _diff(a[k], b[k], path + '/' + str(k))
      if d:
        return d
    return None
  if a != b or type(a) is not type(b):
    return f'{path}: {a!r} != {b!r}'
  return None


# ----------------------------------------------------------------------------- emitted text
_BIND_RE = re.compile(r'^([A-Za-z_][\w.]*)\.([A-Za-z_]\w*) = (.*)$')
_REF_RE = re.compile(r'^@([A-Za-z_][\w.]*)(\(\))?$')


def _parse_emitted(text):
  """-> (import lines, has_enable, [(selector, param, value text)], unparsed lines)."""
  logical = []
  cur = ''
  for line in text.split('\n'):
    if cur:
      cur += ' ' + line.strip()
    else:
      cur = line.rstrip()
    if cur.endswith('\\'):
      cur = cur[:-1].rstrip()
      continue
    logical.append(cur)
    cur = ''
  imports, binds, other = [], [], []
  enable = False
  for line in logical:
    s = line.strip()
    if not s or s.startswith('#'):
      continue
    if s == ENABLE:
      enable = True
    elif s.startswith('import ') or s.startswith('from '):
      imports.append(s)
    else:
      m = _BIND_RE.match(s)
      if m:
        binds.append((m.group(1), m.group(2), m.group(3).strip()))
      else:
        other.append(s)
  return imports, enable, binds, other


def _bound_of(line):
  """Emitted import line -> (bound name, is plain `import a.b`, alias-substituted path)."""
  w = line.split()
  if w[0] == 'import':
    parts = w[1].split('.')
    if len(w) == 4:
      return w[3], False, '.'.join(parts[:-1] + [w[3]])
    return parts[0], True, parts[0]
  parts = w[1].split('.') + [w[3]]
  if len(w) == 6:
    return w[5], False, '.'.join(parts[:-1] + [w[5]])
  return w[3], False, '.'.join(parts)


def _emitted_collisions(imports, selectors, table):
  """The alias-collision class, read off an emitted config string."""
  partial = {}
  for line in imports:
    name, _, part = _bound_of(line)
    partial[name] = part
  seen = {}
  for sel in selectors:
    objid = table.get(sel)
    head, _, rest = sel.partition('.')
    if objid is None or head not in partial:
      continue
    seen.setdefault(partial[head] + '.' + rest, set()).add(objid)
    if objid.rsplit('.', 1)[-1] in ('meth', 'other', 'nm'):
      seen.setdefault(partial[head] + '.' + rest.rsplit('.', 1)[0], set()).add(
          objid.rsplit('.', 1)[0])
  return sorted(reg for reg, objs in seen.items() if len(objs) > 1)


# ----------------------------------------------------------------------------- fault injection
def _inject(case, files, texts, names, order_roots):
  """Mutates texts[f] = (head, body) according to case['error']; returns (kind, relation)."""
  kind_i, f_i, a, b, c = case['error']
  kind = ERROR_KINDS[kind_i % len(ERROR_KINDS)]
  n = len(files)
  f = f_i % n
  head, body = texts[f]
  info = files[f]
  rel = ''
  if kind == 'gin-bound':
    dotted = [i['mod'] for i in info['imps'] if '.' in i['mod']]
    anymod = info['imps'][a % len(info['imps'])]['mod']
    choice = b % 3
    if choice == 1 and dotted:
      m = dotted[a % len(dotted)]
      line = f"from {m.rsplit('.', 1)[0]} import {m.rsplit('.', 1)[1]} as gin"
    elif choice == 2:
      line = 'import gin'
    else:
      line = f'import {anymod} as gin'
    head.insert(1 + a % len(head), line)
  elif kind == 'late-enable':
    head.remove(ENABLE)
    head.insert(1 + a % len(head), ENABLE)
  elif kind == 'aliased-enable':
    head[0] = ENABLE + ' as ' + ['dr', 'dynamic_registration', 'gin'][a % 3]
  elif kind == 'unknown-feature':
    line = 'from __gin__ import ' + FEATURES[a % len(FEATURES)]
    if b & 1:
      head[0] = line
    else:
      head.insert(1 + a % len(head), line)
  elif kind == 'missing-attr':
    cands = sorted(info['table']) + sorted(info['mods'])
    base = cands[a % len(cands)]
    if c & 1:
      holders = sorted(p for p, o in info['table'].items() if o.endswith(':cons'))
      line = f'{holders[0]}.a = @{base}.zz()'
    else:
      line = f'{base}.zz.x = 1'
    body.insert(b % (len(body) + 1), line)
  else:  # name-other-file
    bound = set(info['src'])
    cands = []
    if n > 1:
      # the including file first, then included files, then unrelated files
      near = [g for g in range(n) if g == _parent(case, f)]
      near += [g for g in range(n) if _parent(case, g) == f]
      near += [g for g in range(n) if g != f and g not in near]
      g = near[a % len(near)]
      cands = sorted(p for p in files[g]['table'] if p.split('.')[0] not in bound)
      if _parent(case, g) == f:
        rel = 'child'
      elif _parent(case, f) == g:
        rel = 'parent'
      else:
        rel = 'other'
    if not cands:
      cands = ['qq.fn', 'qq.K.meth']
      rel = 'nowhere'
    path = cands[c % len(cands)]
    if c & 1 and not path.endswith(('meth', 'other', 'nm', 'cons')):
      holders = sorted(p for p, o in info['table'].items() if o.endswith(':cons'))
      line = f'{holders[0]}.b = @{path}()'
    else:
      line = f'{path}.x = 1'
    if b & 1:
      body.append(line)          # after every include of this file
    else:
      body.insert(b % (len(body) + 1), line)
  return kind, rel


# ----------------------------------------------------------------------------- the check
def check_case(case):
  root = tempfile.mkdtemp(prefix='c19-')
  try:
    return _check(case, root)
  finally:
    shutil.rmtree(root, ignore_errors=True)
    while root in sys.path:
      sys.path.remove(root)


def _check(case, root):
  labels = set()
  tag = _tag(case)
  names = _module_names(tag)
  tops = [names[0], names[6]]
  _write_tree(root, names, case['pkg'])
  has_error = case.get('error') is not None
  keep = bool(case.get('keep')) and not has_error

  # ---- resolve, excluding the known alias-collision class by construction
  renames = {}
  files = _resolve_files(case, names, root, renames)
  bad = _collisions(files)
  kept_collisions = {}
  if bad and keep:
    kept_collisions = bad
    labels.add('kept:alias-collision')
  else:
    rounds = 0
    while bad:
      labels.add('excluded:alias-collision')
      rounds += 1
      if rounds > 6:
        raise OutOfDomain('alias collision not removable')
      for keys in bad.values():
        for (fi, k) in keys:
          renames[(fi, k)] = f'w{fi}{k}'
      files = _resolve_files(case, names, root, renames)
      bad = _collisions(files)

  order, roots, layout, children = _order(case)
  paths = {i: os.path.join(root, f'cfg{i}.gin') for i in range(len(files))}
  texts = {i: _file_lines(files[i], layout(i), paths) for i in range(len(files))}

  err_kind = None
  if has_error:
    err_kind, rel = _inject(case, files, texts, names, roots)
    labels.add('error:' + err_kind)
    if rel:
      labels.add(f'error:{err_kind}:{rel}')
  for i in range(len(files)):
    with open(paths[i], 'w') as f:
      f.write('\n'.join(texts[i][0] + [''] + texts[i][1]) + '\n')

  # ---- model
  model = {}
  spellings = {}
  first_ref = {}      # class objid -> (position, file) of the first @K reference
  method_after_ref = False
  method_after_ref_other_file = False
  for pos, (fi, k) in enumerate(order):
    s = files[fi]['stmts'][k]
    spellings.setdefault(s['objid'], set()).add(s['path'])
    if s['kind'] == 'b':
      model[(s['objid'], s['param'])] = ('int', s['val'])
      leaf = s['objid'].rsplit('.', 1)[-1]
      if leaf in ('meth', 'other', 'nm'):
        cls = s['objid'].rsplit('.', 1)[0]
        if cls in first_ref:
          method_after_ref = True
          if first_ref[cls] != fi:
            method_after_ref_other_file = True
    else:
      model[(s['objid'], s['param'])] = ('ref', s['tobjid'], s['call'])
      spellings.setdefault(s['tobjid'], set()).add(s['tpath'])
      first_ref.setdefault(s['tobjid'], fi)
  watch = sorted({o for o, _ in model} |
                 {spec[1] for spec in model.values() if spec[0] == 'ref'} |
                 {o.rsplit('.', 1)[0] for o, _ in model
                  if o.rsplit('.', 1)[-1] in ('meth', 'other', 'nm')})

  # ---- labels
  labels.add(f'files:{len(files)}')
  if any(_parent(case, i) is not None for i in range(len(files))):
    labels.add('include-tree')
  if len(roots) > 1:
    labels.add('multi-root')
  for r in roots:
    labels.add('root:str' if case['files'][r]['str'] else 'root:file')
  form_names = ['import', 'import-as', 'from', 'from-as']
  bound_mods = {}
  mod_spellings = {}
  for fi, info in enumerate(files):
    for i in info['imps']:
      labels.add('form:' + form_names[i['form']])
      bound_mods.setdefault(i['bound'], set()).add((i['mod'], fi) if i['form'] else
                                                   (i['mod'].split('.')[0], fi))
      mod_spellings.setdefault(i['mod'], set()).add(i['line'])
  for name, s in bound_mods.items():
    if len({m for m, _ in s}) > 1 and len({f for _, f in s}) > 1:
      labels.add('same-bound-name-other-module-across-files')
  if any(len(v) > 1 for v in spellings.values()):
    labels.add('two-spellings-one-object')
  used_objs = set(spellings)
  if any(o.rsplit('.', 1)[-1] in ('meth', 'other') for o in used_objs):
    labels.add('method')
  if any(o.endswith(':K.N') for o in used_objs):
    labels.add('nested-class')
  if any(o.endswith('.nm') for o in used_objs):
    labels.add('nested-method')
  if method_after_ref:
    labels.add('method-after-reference')
  if method_after_ref_other_file:
    labels.add('method-after-reference:other-file')
  for info in files:
    for s in info['stmts']:
      if s['kind'] == 'r':
        labels.add('ref-called' if s['call'] else 'ref-uncalled')
      elif s['blk']:
        labels.add('block-syntax')
      for key in ('path', 'tpath'):
        if key in s:
          oid = s['objid'] if key == 'path' else s['tobjid']
          ndef = oid.split(':')[1].count('.') + 1
          mod_of_path = info['mods'].get(s[key].rsplit('.', ndef)[0])
          if mod_of_path is not None and mod_of_path != oid.split(':')[0]:
            labels.add('reexport-spelling')
  labels.add('init-imports:' + ''.join('y' if b else 'n' for b in case['pkg']['init']))
  multi = len(files) >= 2 or any(len(v) > 1 for v in mod_spellings.values())
  deep = bool(labels & {'method', 'nested-class', 'nested-method'})
  nontrivial = multi and deep and not has_error

  # ---- drive Gin
  root_args = []
  for r in roots:
    if case['files'][r]['str']:
      with open(paths[r]) as f:
        root_args.append(('str', f.read()))
    else:
      root_args.append(('file', paths[r]))
  p1 = _sub(_phase1, {'root': root, 'tops': tops, 'roots': root_args, 'watch': watch})
  raised = p1.get('raised')

  if has_error:
    want = ERRORS[err_kind]
    if raised is None:
      raise Violation('error-not-raised:' + err_kind,
                      f'expected {want}; files:\n{_dump(texts)}')
    require(want in raised['mro'], 'wrong-error-class:' + err_kind,
            lambda: f'expected {want}, got {raised["type"]} ({raised["mro"]}): '
                    f'{raised["msg"][:400]}\nfiles:\n{_dump(texts)}')
    return ok(labels, False)

  if raised is not None:
    if kept_collisions and 'ValueError' in raised['mro'] and any(
        reg in raised['msg'] for reg in kept_collisions):
      if KNOWN_AS_VIOLATION:
        raise Violation('alias-collision',
                        f'two different objects share the alias-substituted name(s) '
                        f'{sorted(kept_collisions)}; Gin: {raised["msg"][:300]}\n'
                        f'files:\n{_dump(texts)}')
      raise OutOfDomain('known:alias_collision')
    raise Violation('parse-raised:' + raised['type'],
                    f'{raised["msg"][:600]}\nfiles:\n{_dump(texts)}')

  expected = {o: _expect_call(model, o) for o in watch}
  for o in watch:
    d = _diff(p1['obs'][o], expected[o])
    if d:
      kind = 'wrong-object-or-value'
      if 'error' in p1['obs'][o]:
        kind = 'configurable-unusable'
      raise Violation(kind, f'{o}: observed vs model at {d}\nobserved: {p1["obs"][o]}\n'
                            f'files:\n{_dump(texts)}')
  labels.add('values-checked')

  # ---- the config string: Python's reading of the emitted text, in a fresh child
  text = p1['text']
  if text is None:
    raise Violation('config-str-raised', str(p1.get('text_error')) + '\nfiles:\n' + _dump(texts))
  imports, enable, binds, other = _parse_emitted(text)
  require(enable, 'emitted-without-enabling', text)
  require(not other, 'emitted-unreadable-line', lambda: f'{other}\n{text}')
  seen_bound = {}
  for line in imports:
    name, plain, _ = _bound_of(line)
    prev = seen_bound.get(name)
    if prev is not None and not (plain and prev[1]):
      raise Violation('emitted-colliding-bound-names', f'{prev[0]!r} and {line!r}\n{text}')
    seen_bound[name] = (line, plain)
  source_aliases = {i['bound'] for info in files for i in info['imps']}
  if any(name not in source_aliases for name in seen_bound):
    labels.add('emitted-realiased')
  et = _sub(_py_table, {'root': root, 'tops': tops, 'imports': imports})
  require(not et['error'], 'emitted-imports-fail-in-python', lambda: f'{et["error"]}\n{text}')
  emitted = {}
  for sel, param, val in binds:
    objid = et['table'].get(sel)
    require(objid is not None, 'emitted-selector-unresolvable',
            lambda: f'{sel!r} does not resolve in a fresh interpreter given the emitted '
                    f'imports\n{text}\nfiles:\n{_dump(texts)}')
    m = _REF_RE.match(val)
    if m:
      tgt = et['table'].get(m.group(1))
      require(tgt is not None, 'emitted-selector-unresolvable',
              lambda: f'reference {val!r} does not resolve\n{text}\nfiles:\n{_dump(texts)}')
      v = ('ref', tgt, bool(m.group(2)))
    else:
      try:
        v = ('int', int(val))
      except ValueError:
        raise Violation('emitted-unreadable-value', f'{sel}.{param} = {val}\n{text}')
    require((objid, param) not in emitted, 'emitted-duplicate-binding',
            lambda: f'{objid} {param} appears twice\n{text}\nfiles:\n{_dump(texts)}')
    emitted[(objid, param)] = v
  if emitted != model:
    missing = sorted(set(model) - set(emitted))
    extra = sorted(set(emitted) - set(model))
    wrong = sorted(k for k in set(model) & set(emitted) if model[k] != emitted[k])
    raise Violation('emitted-denotes-other-bindings',
                    f'missing={missing} extra={extra} wrong='
                    f'{[(k, model[k], emitted[k]) for k in wrong]}\n{text}\nfiles:\n'
                    f'{_dump(texts)}')

  # ---- Gin's reading of the emitted text, in a fresh child
  p2 = _sub(_phase2, {'root': root, 'tops': tops, 'text': text, 'watch': watch})
  if p2.get('raised'):
    r = p2['raised']
    selectors = [sel for sel, _, _ in binds] + [
        _REF_RE.match(v).group(1) for _, _, v in binds if _REF_RE.match(v)]
    coll = _emitted_collisions(imports, selectors, et['table'])
    if (r['where'] == 'reparse' and 'ValueError' in r['mro'] and
        any(reg in r['msg'] for reg in coll)):
      # The emitted text is itself an input of the known alias-collision class (an emitted
      # alias equals the name of a sibling module that is also used).
      if KNOWN_AS_VIOLATION:
        raise Violation('alias-collision',
                        f'the emitted config string is in the alias-collision class {coll}; '
                        f'Gin: {r["msg"][:300]}\n{text}\nfiles:\n{_dump(texts)}')
      raise OutOfDomain('known:alias_collision (emitted text)')
    raise Violation('config-str-' + str(r['where']) + '-raised:' + r['type'],
                    f'{r["msg"][:600]}\n{text}\nfiles:\n{_dump(texts)}')
  for o in watch:
    d = _diff(p2['obs'][o], p1['obs'][o])
    if d:
      raise Violation('fresh-child-differs', f'{o}: fresh vs original at {d}\n{text}\nfiles:\n'
                                             f'{_dump(texts)}')
  # Same import block and same sections.  The ORDER of the sections follows Gin's internal
  # registry names (which depend on the import spelling); the property does not speak about
  # it (canonical order is C06), so a different order is only counted.
  b1 = [b.strip('\n') for b in text.split('\n\n')]
  b2 = [b.strip('\n') for b in p2['text'].split('\n\n')]
  require(b1[0] == b2[0] and sorted(b1) == sorted(b2), 'config-str-not-a-fixpoint',
          lambda: f'--- first\n{text}\n--- after re-parse in a fresh child\n{p2["text"]}')
  if b1 != b2:
    labels.add('reserialised-section-order-differs')
  labels.add('roundtrip-checked')
  if nontrivial:
    labels.add('nontrivial')
  return ok(labels, nontrivial)


def _dump(texts):
  out = []
  for i in sorted(texts):
    out.append(f'--- cfg{i}.gin')
    out.extend(texts[i][0])
    out.extend(texts[i][1])
  return '\n'.join(out)


# ----------------------------------------------------------------------------- strategy
_small = st.integers(0, 5)
_alias_i = st.integers(0, len(ALIASES) - 1)


@st.composite
def _case(draw):
  pkg = {'init': draw(st.lists(st.booleans(), min_size=3, max_size=3)),
         'reexp': draw(st.integers(0, 3))}
  focus = draw(st.sampled_from([1, 1, 1, 2, 4, 4, 5, 0, 3, 7]))
  mod_i = st.just(focus) | st.integers(0, 7)
  imp = st.tuples(mod_i, st.integers(0, 3), _alias_i).map(list)
  imp_i = st.just(0) | st.integers(0, 3)
  def_i = st.sampled_from([0, 1, 2, 2, 3, 3, 3, 4, 5, 6, 7])
  bind = st.tuples(st.just('b'), imp_i, def_i, _small, st.integers(0, 1), st.integers(0, 999),
                   st.sampled_from([0, 0, 0, 1])).map(list)
  ref = st.tuples(st.just('r'), imp_i, _small, st.integers(0, 1), imp_i,
                  st.sampled_from([0, 1, 2, 2, 2, 3]), _small, st.sampled_from([1, 1, 0])).map(list)
  stmt = st.one_of(bind, bind, ref)
  nfiles = draw(st.sampled_from([1, 2, 2, 3, 3, 4]))
  files = []
  for i in range(nfiles):
    parent = None
    if i > 0 and draw(st.integers(0, 3)) > 0:
      parent = draw(st.integers(0, i - 1))
    files.append({'parent': parent, 'at': draw(_small), 'str': draw(st.booleans()),
                  'imports': draw(st.lists(imp, min_size=1, max_size=4)),
                  'stmts': draw(st.lists(stmt, min_size=1, max_size=6))})
  error = None
  if draw(st.sampled_from([0, 0, 0, 0, 0, 0, 0, 1, 1, 1])):
    error = [draw(st.sampled_from(range(len(ERROR_KINDS)))), draw(st.integers(0, 3)),
             draw(_small), draw(_small), draw(_small)]
  keep = bool(draw(st.sampled_from([0, 0, 1])))
  return {'pkg': pkg, 'files': files, 'error': error, 'keep': keep}


def strategy():
  return _case()


# ----------------------------------------------------------------------------- sweeps
def _sweep_forms(tier):
  """Every import form x module depth x init flag, then a second root using the next form."""
  del tier
  cases = []
  for mod in (1, 4, 0, 7):
    for form in range(4):
      for init in (False, True):
        stmts = [['b', 0, 0, 0, 0, 11, 0], ['b', 0, 2, 0, 1, 12, 0], ['r', 0, 0, 0, 0, 2, 0, 1],
                 ['b', 0, 3, 0, 0, 13, 0], ['b', 0, 6, 0, 1, 14, 1], ['r', 0, 0, 1, 0, 0, 0, 0]]
        f0 = {'parent': None, 'at': 0, 'str': bool(form & 1), 'imports': [[mod, form, 0]],
              'stmts': stmts}
        f1 = {'parent': None, 'at': 0, 'str': not form & 1,
              'imports': [[mod, (form + 1) % 4, 1]],
              'stmts': [['b', 0, 4, 0, 1, 15, 0], ['b', 0, 2, 0, 0, 16, 0]]}
        f2 = {'parent': 0, 'at': 3, 'str': False, 'imports': [[mod, (form + 2) % 4, 0]],
              'stmts': [['b', 0, 3, 0, 1, 17, 0], ['b', 0, 5, 0, 0, 18, 0]]}
        cases.append({'pkg': {'init': [init] * 3, 'reexp': 3 if init else 0},
                      'files': [f0, f1, f2], 'error': None, 'keep': False})
  return cases, True


def _sweep_errors(tier):
  """Every error class in a root, in an included file and in an including file."""
  del tier
  cases = []
  for kind in range(len(ERROR_KINDS)):
    for where in (0, 1, 2):
      for a in range(3):
        for b in range(2):
          files = [
              {'parent': None, 'at': 1, 'str': bool(a & 1), 'imports': [[1, a, 0], [2, 2, 1]],
               'stmts': [['b', 0, 0, 0, 0, 1, 0], ['b', 1, 2, 0, 0, 2, 0]]},
              {'parent': 0, 'at': 0, 'str': False, 'imports': [[4, 3 - a, 2], [5, 0, 0]],
               'stmts': [['b', 0, 3, 0, 0, 3, 0]]},
              {'parent': None, 'at': 0, 'str': bool(b), 'imports': [[7, 1, 5]],
               'stmts': [['b', 0, 1, 0, 0, 4, 0]]},
          ]
          cases.append({'pkg': {'init': [bool(b)] * 3, 'reexp': 0}, 'files': files,
                        'error': [kind, where, a, b, a + b], 'keep': False})
  return cases, True


SWEEPS = {'forms': _sweep_forms, 'errors': _sweep_errors}


# ----------------------------------------------------------------------------- known findings
KNOWN = {
    # check_case raises this kind only when (a) the parsed text -- a generated file set carrying
    # keep=true, or a config string emitted by Gin -- contains two different objects whose
    # alias-substituted dotted names coincide and (b) Gin rejected it with a ValueError naming
    # exactly such a name.
    'alias_collision': lambda case, verdict: verdict.get('kind') == 'alias-collision',
}
