"""C05 — macros and constants are late-bound named values.

A case is a history: constants defined up front (gin.constant / gin.constants_from_enum, including
invalid, duplicate and suffix-duplicate names), then 1-4 parse_config calls (string, list of
statements, file, include, include in the middle of a text) whose statements define macros, use
them (bare, `@name/gin.macro()`, nested in containers, through macro-to-macro chains), bind macros
to evaluated counter references and use constants by unambiguous suffixes; interleaved parses of
an ambiguous suffix; observations of the probes after parses; gin.finalize() at the end.

The oracle is a last-writer-wins map (macro name -> value AST, probe parameter -> value AST) kept
beside the history; it never looks into Gin.
"""
import contextlib
import enum
import itertools
import os
import shutil
import tempfile

from hypothesis import strategies as st

from vf import ginenv
from vf.core import OutOfDomain, Violation, ok, require

gin = ginenv.import_gin()

ID = 'C05'
LEVEL = 'exploration'
ISOLATE = True
BUDGET = {'quick': (16, 160), 'thorough': (16, 3000)}
RULE = ('history = up to 6 constant definitions (gin.constant over modules {a,b,a.b,b.a,c.a.b,c} x '
        'leaves {K,L,k} plus E.A-like names, constants_from_enum over modules {e,a,a.e} x classes '
        '{E,F} with members from {A,B,K}, 0-2 aliases from {C,R,k}, Enum or IntEnum, module given '
        'or defaulted; invalid names, duplicates) followed by 1-4 parse_config calls (string / list / '
        'parse_config_file / include / include in the middle of a text) of 2-7 statements: macro '
        'definitions over 2-4 names from {m,n,M,k_1,s/m,s/n,t/s/m,t/m,S/m} whose value is a '
        'literal, %macro (only to later names of the case order: no cycles), %constant-suffix, '
        '@counter() or (a third of the cases) an unevaluated @macro/gin.macro, bare or inside 1-3 '
        'nested list/tuple/dict levels with up to two sibling values each (dict levels include '
        'the value as the single key, and displays whose 2-3 keys are different macros / '
        'constants / tuples holding them); probe bindings (3 '
        'probes x 3 parameters) whose value is %macro, @macro/gin.macro(), %constant-suffix, the '
        'list of all unambiguous suffixes, or @macro/gin.macro, wrapped likewise; optional parse of '
        'an ambiguous suffix after each text; 0-2 gin.clear_config() calls before a quarter of '
        'the texts (plain constant values are lists, dicts and user objects, never atomic for '
        'copy/deepcopy; every unambiguous suffix is also read through query_parameter after '
        'each clear and each observation); 1-2 shared files of 1-4 statements reached only through '
        '`include` statements placed anywhere in the texts (file 1 may include file 0), so files '
        'are included repeatedly, in diamonds and across parse calls, with re-bindings in '
        'between; gin.query_parameter on a macro (%name, name/macro.value, name/gin.macro.value) '
        'after a text and on every macro of the case before finalize; before a third of the texts '
        'a macro is bound under a constant name / suffix (config line or bind_parameter) and '
        '%name is then parsed and must still be the constant (or the ambiguity error); `with gin.config.'
        'interactive_mode():` blocks (left by an exception of the body, by a rejected gin.constant '
        'or by a rejected ambiguous parse inside; or completed) among the constant definitions and '
        'after texts, each followed outside the block by definitions duplicating an existing '
        'constant; in a third of the cases gin.finalize() already after an earlier parse: the '
        'probes are then called under the locked config, later texts are parsed inside `with '
        'gin.unlock_config():` and the probes called again after each (delivery "api" binds '
        'literal macros through gin.bind_parameter("%name", v)); optional closing text binding every referenced but '
        'unbound macro; probes called after observed parses and twice after the last; '
        'gin.finalize() or gin.parse_config_files_and_bindings with nothing to parse ((None, None), '
        '([], []), ((), ()), ([], None), (None, "")), with an empty file and a binding, or with '
        'only a binding. Non-trivial = a checked macro use precedes a definition of that macro, '
        'or a later parse redefines an already used macro, or >=2 constants share a suffix and a '
        'constant was used or an ambiguous suffix was rejected. Distinct = distinct case JSON. '
        'Sweeps: every ordered pair of constant names over {a,b,c} depth<=3 (quick: depth<=2 first '
        'name) with all suffix queries; one reference (%n, @n/gin.macro(), @n/gin.macro) in each '
        'of 9 placements (bare, list, tuple, dict value, dict key, tuple inside a key, three '
        'levels deep) x holder (probe binding, macro value) x n bound or not.')
ASSUMPTIONS = [
    'macro names are chosen so that no macro name is a scope prefix of another (%a/b with only '
    '`a` bound inherits a through scoping; the property does not say what that means for macros)',
    'macro names and constant names are disjoint (the property does not rank one over the other)',
    'a query that is the complete name of one constant and a proper suffix of another is not '
    'used, and defining x.K after K may be accepted or rejected (exact-match precedence is C08)',
    'all constants are defined before the first text is parsed (precondition P)',
    'gin.query_parameter of a never-bound macro must raise ValueError and leave no trace (the '
    'rest of the history, finalize included, is judged as if it had not been made); of a macro '
    'bound to a reference-free literal it must return an equal value; of other macros nothing '
    'is asserted (only the scope-exact binding counts: %s/m with only s bound is unbound)',
    'leaving a `with gin.config.interactive_mode():` block, normally or by an exception, ends '
    'interactive mode: duplicate definitions outside are errors; nothing is defined or '
    're-defined inside the blocks (what interactive mode allows is not part of the property)',
    'bindings made inside `with gin.unlock_config():` after a successful finalize, and through '
    'gin.bind_parameter("%name", value), are bindings like any other for "most recently bound"; '
    'once a finalize has succeeded no second finalize is made (it is documented to raise)',
    'a dict display with several reference keys is generated only with keys that differ as '
    'written (different macro names, different constants, different literals); what the consumer '
    'receives is what Python builds from the evaluated keys in order (an evaluated key equal to '
    'an earlier one keeps the earlier position and takes the later value)',
    'gin.finalize(), accepted or rejected, is not a use: it must not run the counter '
    'configurables that macros are bound to',
    'constants_from_enum makes one constant per name of the enum, aliases included '
    '(module.Class.ALIAS yields the member it is another name of); alias names never repeat a '
    'member name',
    'a macro bound (by a value-less config line or bind_parameter("%name", v)) under a name that '
    'is a constant\'s name or abbreviation does not change what %name means: the constant, or an '
    'error when the abbreviation is ambiguous; such macros get plain literal values and are '
    'never expected to be delivered',
    'gin.parse_config_files_and_bindings (finalize_config defaults to True) is a finalizing '
    'entry point like gin.finalize(): whatever it is given to parse, nothing included, it must '
    'reject / accept exactly as finalize would and lock the config when it accepts',
    'an include statement is in-place inclusion every time it is executed, however often the '
    'same file was included before',
    'gin.clear_config() (default clear_constants=False, documented to keep constants) empties '
    'the model of macros and bindings and leaves the constants -- the same objects -- defined',
    'gin.query_parameter(<unambiguous constant suffix>) is read as another way of evaluating '
    '%name (as C08 does); it must return the very object too',
    'an enum whose members are partly duplicates leaves the table in an unspecified state: such '
    'cases are out of domain unless the first member is already rejected',
    'invalid names are near-misses of dotted identifiers (empty, stray/duplicate dots, digit-led '
    'component, slash, space, hyphen, sigil, trailing whitespace or newline); non-ASCII letters '
    'are not generated',
    'calling a probe that reaches an unbound macro is not asserted (only finalize is)',
    'the number of counter evaluations per use is not asserted, only that every use site '
    'receives a value never delivered before',
    'rejections by finalize are accepted as any Exception; by gin.constant and for an ambiguous '
    'suffix as ValueError',
]
_H = 'layer:history'
FLOORS = {'nontrivial': (0.3, _H), 'nt:use-before-def': (0.15, _H),
          'nt:redefined-in-later-parse': (0.1, _H), 'nt:shared-suffix': (0.1, _H),
          'macro:counter-checked': (0.08, _H), 'macro:chain-checked': (0.08, _H),
          'macro:scoped-name-checked': (0.1, _H), 'const:by-proper-suffix': (0.1, _H),
          'const:ambiguous-rejected': (0.04, _H), 'const:invalid-rejected': (0.05, _H),
          'const:duplicate-rejected': (0.05, _H), 'const:suffix-duplicate-rejected': (0.03, _H),
          'const:enum': (0.08, _H), 'finalize:rejected-unbound': (0.05, _H),
          'finalize:rejected-unevaluated': (0.03, _H), 'finalize:accepted': (0.2, _H),
          'finalize:offender-only-nested': (0.03, _H), 'via:file-or-include': (0.2, _H),
          'observed-mid-history': (0.1, _H), 'clear_config': (0.15, _H),
          'const:identity-after-clear': (0.05, _H), 'const:query_parameter': (0.3, _H),
          'include:same-file-again': (0.1, _H), 'include:again-after-rebinding': (0.05, _H),
          'query:unbound-macro-refused': (0.1, _H), 'query:bound-literal-read': (0.1, _H),
          'finalize:rejected-after-failed-query': (0.03, _H),
          'interactive:block-left-by-exception': (0.1, _H),
          'interactive:duplicate-after-block-rejected': (0.05, _H),
          'lock:finalized-mid-history': (0.05, _H),
          'lock:rebound-under-unlock-rechecked': (0.02, _H),
          'use:several-reference-keys-checked': (0.05, _H),
          'finalize:counter-macros-not-evaluated': (0.1, _H),
          'const:enum-with-alias': (0.05, _H), 'const:enum-alias-checked': (0.03, _H),
          'shadow:constant-used-under-macro-name': (0.08, _H),
          'shadow:ambiguous-still-rejected': (0.01, _H),
          'finalize:via pcfb with nothing to parse': (0.2, _H),
          'finalize:rejected-via-pcfb-with-nothing': (0.03, _H)}
TECHNIQUE = ('model-based property testing: Hypothesis-generated parse/define/use histories against '
             'a last-writer-wins reference map, identity checks for constants, plus an exhaustive '
             'sweep of ordered constant-name pairs')
LEVEL_TEXT = ('Generated histories of constant definitions, config texts (in every order of '
              'definition and use, across several parses and included files) and a final '
              'finalize are executed in a fresh fork each; every value a probe receives is '
              'compared with a naive last-writer-wins model, constants by identity, counter-backed '
              'macros for freshness at every use site, finalize for rejecting exactly the '
              'histories whose final configuration references an unbound or unevaluated macro at '
              'any depth. All ordered pairs of constant names over a 39-name universe are '
              'enumerated with every suffix query. Exploration: no counter-example within the '
              'generated space, not a proof.')
LEVEL_NOTE = ('Trusted: the 60-line model (last writer wins; suffix match = equal or ends with '
              '"."+query); the probe and counter configurables of this module; in-place semantics '
              'of include (C14) for the order of redefinitions across an included file.')

UNSET = 'c05-unset'
_COUNTS = {}


def _mk_counter(tag):
  def counter():
    _COUNTS[tag] = _COUNTS.get(tag, 0) + 1
    return (tag, _COUNTS[tag])
  counter.__name__ = counter.__qualname__ = tag
  return gin.configurable(tag)(counter)


def _mk_probe(tag):
  def probe(a=UNSET, b=UNSET, c=UNSET):
    return {'a': a, 'b': b, 'c': c}
  probe.__name__ = probe.__qualname__ = tag
  return gin.configurable(tag)(probe)


COUNTERS = ['c05counter', 'c05ticker']
PROBES = ['c05p0', 'c05p1', 'c05p2']
PARAMS = ['a', 'b', 'c']
_counter_fns = [_mk_counter(t) for t in COUNTERS]
_probe_fns = [_mk_probe(t) for t in PROBES]

# ----------------------------------------------------------------------------- generator
MACROS = ['m', 'n', 'M', 'k_1', 's/m', 's/n', 't/s/m', 't/m', 'S/m', 's', 'm/t']
MODS = ['', 'a', 'b', 'a.b', 'b.a', 'c.a.b', 'c']
LEAVES = ['K', 'L', 'k']
EXTRA_CONSTS = ['E.A', 'b.E.A', 'A', 'F.K', 'e.E.B', 'x.a.e.E.A']
CONST_NAMES = [(m + '.' + l) if m else l for m in MODS for l in LEAVES] + EXTRA_CONSTS
BAD_NAMES = ['', '.', 'K.', '.K', 'a..K', '1K', 'a.1K', 'a/K', 'a K', 'a-K', '%K', '@K', 'K ',
             ' K', 'K\n', 'a.K\n', 'a.K\t', 'a.K()', 'a.b/K']
ENUM_MODS = ['e', 'a', 'a.e']
ENUM_CLASSES = ['E', 'F']
ENUM_MEMBERS = ['A', 'B', 'K']
ENUM_ALIASES = ['C', 'R', 'k']      # alias member names ('k' is also a plain constant leaf)

_small = st.integers(0, 7)
_lit = st.one_of(
    st.tuples(st.just('i'), st.integers(0, 999)),
    st.tuples(st.just('i'), st.integers(0, 999)),
    st.tuples(st.just('s'), st.sampled_from(['', 'a', '%m', '@c05counter()', 'K', 'a.K'])),
    st.tuples(st.just('none')),
    st.tuples(st.just('b'), st.booleans()),
).map(list)
_mac = st.tuples(st.just('mac'), _small).map(list)
_macx = st.tuples(st.just('macx'), _small).map(list)
_const = st.tuples(st.just('const'), st.integers(0, 30)).map(list)
_ctr = st.tuples(st.just('ctr'), st.integers(0, 1)).map(list)
_unev = st.tuples(st.just('unev'), _small).map(list)


def _hashable_node(node):
  """Can the parser put this node into a dict key (lists and dicts cannot be hashed)?"""
  if node[0] == 'tuple':
    return all(_hashable_node(x) for x in node[1])
  return node[0] not in ('list', 'dict', 'dictk', 'dictm')


_keyref = st.one_of(_mac, _const, _macx, _mac, _unev)
_keynode = st.one_of(
    _keyref, _keyref,
    st.tuples(st.just('tuple'), st.tuples(_keyref, _lit).map(list)).map(list),
    _lit)


@st.composite
def _wrap(draw, core, sibling):
  """core, or core inside 1-3 nested containers with up to two siblings per level."""
  node = draw(core)
  for _ in range(draw(st.sampled_from([0, 1, 0, 2, 1, 3]))):
    sibs = draw(st.lists(sibling, min_size=0, max_size=2))
    pos = draw(st.integers(0, len(sibs)))
    items = sibs[:pos] + [node] + sibs[pos:]
    kind = draw(st.sampled_from(['list', 'tuple', 'dict', 'dictk', 'dictm']))
    if kind in ('dictk', 'dictm') and not _hashable_node(node):
      kind = 'list'
    if kind == 'dictm':
      # a dict display with several keys, two or more of them different macros / constants
      more = draw(st.lists(st.tuples(_keynode, st.one_of(_lit, sibling)).map(list), min_size=1,
                           max_size=2))
      at = draw(st.integers(0, len(more)))
      node = ['dictm', more[:at] + [[node, sibs[0] if sibs else ['i', 0]]] + more[at:]]
    elif kind == 'dictk':
      # the value built so far becomes the single *key* of a dict
      node = ['dictk', node, sibs[0] if sibs else ['i', 0]]
    elif kind == 'dict':
      keys = draw(st.sampled_from([['x', 'y', 0], [1, 'x', 'z'], ['k', 0, 1]]))
      node = ['dict', [[k, it] for k, it in zip(keys, items)]]
    else:
      node = [kind, items]
  return node


def _def(core, sibling=st.one_of(_lit, _mac, _ctr, _const)):
  return st.tuples(st.just('def'), _small, _wrap(core, sibling)).map(list)


def _use(core, sibling=st.one_of(_mac, _lit, _const, _macx)):
  return st.tuples(st.just('use'), st.integers(0, 2), st.integers(0, 2),
                   _wrap(core, sibling)).map(list)


# Hypothesis favours early alternatives: the ones that carry the property come first
_inc = st.tuples(st.just('inc'), st.integers(0, 1)).map(list)
# re-bind the first macro a shared file binds, then include that file (again)
_reinc = st.tuples(st.just('reinc'), st.integers(0, 1), st.integers(0, 999)).map(list)
_stmt = st.one_of(
    _use(_mac),
    _def(_lit),
    _inc,
    _def(_ctr),
    _def(_mac),
    _use(_const),
    _reinc,
    _use(_unev),
    _use(_macx),
    _def(_lit, _lit),
    _use(_mac),
    _def(_const),
    st.tuples(st.just('allconst'), st.integers(0, 2), st.integers(0, 2)).map(list),
    _def(_unev),
    _use(_lit, _lit),
    _inc,
)
# statements of the shared include files: mostly macro definitions, so that including a file
# again after one of its macros was re-bound makes a difference
_file_stmt = st.one_of(_def(_lit), _def(_ctr), _inc, _def(_mac), _use(_mac), _def(_lit, _lit),
                       _def(_const))
VIAS = ['str', 'str', 'list', 'file', 'include', 'split', 'api']


# [how the interactive block ends, which existing constant is defined again afterwards]
_iblock_st = st.tuples(st.integers(0, 3), _small).map(list)


@st.composite
def _parse_op(draw):
  return {'via': draw(st.sampled_from(VIAS)),
          'stmts': draw(st.lists(_stmt, min_size=2, max_size=7)),
          'cut': [draw(_small), draw(_small)],
          'observe': draw(st.booleans()),
          'skip': draw(st.integers(0, 3)) == 0,
          # number of gin.clear_config() calls (constants are kept) made before this text
          'clear': draw(st.sampled_from([0, 0, 0, 0, 0, 0, 1, 2])),
          # query_parameter on a macro after this text: [macro index, spelling]
          'query': draw(st.none() | st.tuples(_small, st.integers(0, 2)).map(list)),
          # an interactive_mode block left by an exception, then duplicate definitions outside
          'iblock': draw(st.none() | st.none() | st.none() | _iblock_st),
          # before this text: bind a MACRO whose name is a constant's name or abbreviation
          # [which query, literal value, 0 = value-less config line / 1 = bind_parameter]
          'shadow': draw(st.none() | st.none() |
                         st.tuples(st.integers(0, 30), st.integers(0, 999),
                                   st.integers(0, 1)).map(list)),
          'ambig': draw(st.none() | st.none() | st.tuples(_small, st.integers(0, 2)).map(list))}


_const_op = st.one_of(
    st.tuples(st.just('c'), st.sampled_from(CONST_NAMES)),
    st.tuples(st.just('c'), st.sampled_from(CONST_NAMES)),
    st.tuples(st.just('c'), st.sampled_from(CONST_NAMES)),
    st.tuples(st.just('c'), st.sampled_from(CONST_NAMES)),
    st.tuples(st.just('bad'), st.sampled_from(BAD_NAMES)),
    st.tuples(st.just('iblock'), st.integers(0, 3), _small),
    st.tuples(st.just('enum'), st.sampled_from(ENUM_MODS), st.sampled_from(ENUM_CLASSES),
              st.lists(st.sampled_from(ENUM_MEMBERS), min_size=1, max_size=3, unique=True),
              st.booleans(),
              # aliases: [alias name, index of the member it is another name of]; IntEnum or Enum
              st.lists(st.tuples(st.sampled_from(ENUM_ALIASES), _small).map(list), min_size=0,
                       max_size=2, unique_by=lambda a: a[0]),
              st.booleans()),
).map(list)


@st.composite
def strategy(draw):
  return {
      'macros': draw(st.lists(st.sampled_from(MACROS), min_size=2, max_size=4, unique=True)),
      'consts': draw(st.lists(_const_op, min_size=0, max_size=6)),
      'parses': draw(st.lists(_parse_op(), min_size=1, max_size=4)),
      # shared files reached only through `include` statements (['inc', i]); file 1 may itself
      # include file 0, so diamonds and repeated includes arise
      'files': draw(st.lists(st.lists(_file_stmt, min_size=1, max_size=4), min_size=1,
                             max_size=2)),
      # spelling used to query every macro of the case right before finalize (None: no queries)
      'query_end': draw(st.sampled_from([None, 0, 1, 2])),
      # gin.finalize() already after this parse (index modulo the number of parses); when it
      # succeeds the probes are called under the locked config and every later text is parsed
      # inside `with gin.unlock_config():`
      'lock_after': draw(st.sampled_from([None, None, 0, 0, 1, 2])),
      # unevaluated macro references make every finalize fail: only a third of the cases keep
      # them, in the others an 'unev' node is rendered as an ordinary %macro use
      'unev': draw(st.sampled_from([False, False, True])),
      'close': draw(st.sampled_from([None, 'str', 'str', 'file'])),
      'finalize': draw(st.sampled_from([True, True, True, False])),
      # finalize may be called while a config scope is active: what it rejects does not depend
      # on that
      'finalize_scope': draw(st.sampled_from(['', '', 'zs', 'zs/zt'])),
      # which finalizing entry point is used (see FINALIZE_VIAS)
      'finalize_via': draw(st.sampled_from([0, 1, 0, 2, 3, 4, 5, 6, 7])),
  }


# ----------------------------------------------------------------------------- model
def suffixes(name):
  parts = name.split('.')
  return ['.'.join(parts[i:]) for i in range(len(parts))]


def c_match(names, q):
  return sorted(n for n in names if n == q or n.endswith('.' + q))


class Unbound(Exception):
  pass


class UnhashableKey(Exception):
  pass


def _exp_hashable(exp):
  kind = exp[0]
  if kind == 'macro':
    return _exp_hashable(exp[2])
  if kind == 'tuple':
    return all(_exp_hashable(x) for x in exp[1])
  if kind == 'is':
    try:
      hash(exp[3])
    except TypeError:
      return False
    return True
  return kind in ('lit', 'fresh', 'any')


def _key_token(exp):
  """What decides whether two evaluated dict keys are the same key (Python's own rule)."""
  kind = exp[0]
  if kind == 'lit':
    return exp[1]
  if kind == 'macro':
    return _key_token(exp[2])
  if kind == 'tuple':
    return tuple(_key_token(x) for x in exp[1])
  if kind == 'is':
    try:
      hash(exp[3])
    except TypeError:
      raise UnhashableKey(repr(exp[3]))
    return exp[3]
  if kind in ('fresh', 'any'):
    return object()          # a fresh counter result / a function: equal to nothing else
  raise UnhashableKey(kind)


def _walk(node):
  yield node
  kind = node[0]
  if kind in ('list', 'tuple'):
    for x in node[1]:
      yield from _walk(x)
  elif kind == 'dict':
    for _, x in node[1]:
      yield from _walk(x)
  elif kind == 'dictk':
    yield from _walk(node[1])
    yield from _walk(node[2])
  elif kind == 'dictm':
    for k, v in node[1]:
      yield from _walk(k)
      yield from _walk(v)


def _key_sig(node):
  """The macros and constants a concrete key node mentions."""
  kind = node[0]
  if kind in ('mac', 'macx', 'unev'):
    return {('macro', node[1])}
  if kind == 'const':
    return {('const', node[2])}
  if kind == 'tuple':
    return set().union(*[_key_sig(x) for x in node[1]]) if node[1] else set()
  return set()


class Model:
  """Last writer wins, nothing else."""

  def __init__(self, macro_names, allow_unev=True):
    self.names = macro_names
    self.allow_unev = allow_unev
    self.macros = {}       # macro name -> concrete value node
    self.binds = {}        # (probe index, param) -> concrete value node
    self.consts = {}       # complete constant name -> object
    self.pos = 0
    self.clears = 0        # clear_config() calls so far
    self.deflog = []       # macro names in the order they were (re)bound since the last clear
    self.alias_names = set()   # complete names of constants made from enum aliases
    self.locked = False    # a finalize succeeded and no clear_config came since
    self.checked_locked = set()   # macros whose use was checked while the config was locked
    self.rebound_unlocked = set()  # ... and that were re-bound under unlock_config afterwards
    self.refused = set()   # never-bound macros on which a query was refused since the last clear
    self.inc_state = {}    # shared file index -> (deflog length after its last inclusion,
                           #                       names it bound then)
    self.uses = {}         # macro name -> [(pos, parse index)]
    self.defs = {}         # macro name -> [(pos, parse index)]

  # constants ---------------------------------------------------------------
  def ok_queries(self):
    names = sorted(self.consts)
    res = []
    for n in names:
      for q in suffixes(n):
        if c_match(names, q) == [n]:
          res.append((q, n))
    return res

  def ambiguous_queries(self):
    names = sorted(self.consts)
    qs = set()
    for n in names:
      for q in suffixes(n):
        if q not in self.consts and len(c_match(names, q)) >= 2:
          qs.add(q)
    return sorted(qs)

  # values ------------------------------------------------------------------
  def realise(self, node, owner):
    """Abstract node (indices) -> concrete node (names/objects), given the current state.

    owner = index (in the case's macro order) of the macro being defined, or None for a probe
    binding.  A macro may only mention macros later in the order, so no cycle can ever form.
    """
    kind = node[0]
    if kind in ('i', 's', 'b'):
      return ('lit', node[1])
    if kind == 'none':
      return ('lit', None)
    if kind in ('mac', 'macx', 'unev'):
      lo = 0 if owner is None else owner + 1
      pool = self.names[lo:]
      if not pool:
        return ('lit', 4242)
      if kind == 'unev' and not self.allow_unev:
        kind = 'mac'
      return (kind, pool[node[1] % len(pool)])
    if kind == 'const':
      oks = self.ok_queries()
      if not oks:
        return ('lit', 777)
      q, n = oks[node[1] % len(oks)]
      return ('const', q, n)
    if kind == 'ctr':
      return ('ctr', COUNTERS[node[1] % len(COUNTERS)])
    if kind in ('list', 'tuple'):
      return (kind, [self.realise(x, owner) for x in node[1]])
    if kind == 'dict':
      return ('dict', [(k, self.realise(x, owner)) for k, x in node[1]])
    if kind == 'dictk':
      if not _hashable_node(node[1]):
        raise OutOfDomain('unhashable dict key')
      return ('dictk', self.realise(node[1], owner), self.realise(node[2], owner))
    if kind == 'dictm':
      # keys must be different keys of the display as written: different macro names,
      # different constants, different literals (an entry repeating one is dropped)
      entries, seen_sig, seen_lit = [], set(), set()
      for k, v in node[1]:
        if not _hashable_node(k):
          raise OutOfDomain('unhashable dict key')
        ck = self.realise(k, owner)
        sig = _key_sig(ck)
        if sig:
          if sig & seen_sig:
            continue
          seen_sig |= sig
        else:
          pure, val = _pure(ck)
          if not pure or val in seen_lit:
            continue
          seen_lit.add(val)
        entries.append((ck, self.realise(v, owner)))
      return ('dictm', entries)
    raise OutOfDomain(f'unknown value node {kind!r}')

  def refs(self, node, depth=0, in_key=False):
    """Yields (kind, name, depth, inside a dict key) for every macro reference in a node."""
    kind = node[0]
    if kind in ('mac', 'macx', 'unev'):
      yield kind, node[1], depth, in_key
    elif kind in ('list', 'tuple'):
      for x in node[1]:
        yield from self.refs(x, depth + 1, in_key)
    elif kind == 'dict':
      for _, x in node[1]:
        yield from self.refs(x, depth + 1, in_key)
    elif kind == 'dictk':
      yield from self.refs(node[1], depth + 1, True)
      yield from self.refs(node[2], depth + 1, in_key)
    elif kind == 'dictm':
      for k, v in node[1]:
        yield from self.refs(k, depth + 1, True)
        yield from self.refs(v, depth + 1, in_key)

  def expected(self, node, chain=0):
    """Concrete node -> expectation tree under the current macro map."""
    kind = node[0]
    if kind == 'lit':
      return node
    if kind in ('mac', 'macx'):
      if node[1] not in self.macros:
        raise Unbound(node[1])
      return ('macro', node[1], self.expected(self.macros[node[1]], chain + 1), chain)
    if kind == 'unev':
      return ('any',)
    if kind == 'const':
      return ('is', node[1], node[2], self.consts[node[2]])
    if kind == 'ctr':
      return ('fresh', node[1])
    if kind in ('list', 'tuple'):
      return (kind, [self.expected(x, chain) for x in node[1]])
    if kind == 'dict':
      return ('dict', [(k, self.expected(x, chain)) for k, x in node[1]])
    if kind == 'dictk':
      key = self.expected(node[1], chain)
      if not _exp_hashable(key):
        # Python itself raises TypeError for such a display; the property is silent
        raise UnhashableKey(render(node[1]))
      return ('dictk', key, self.expected(node[2], chain))
    if kind == 'dictm':
      # as Python builds it: entries in order; a key equal to an earlier one keeps the earlier
      # key and position and takes the later value
      built = {}
      for k, v in node[1]:
        ek, ev = self.expected(k, chain), self.expected(v, chain)
        tok = _key_token(ek)
        built[tok] = (built[tok][0] if tok in built else ek, ev)
      return ('dictm', list(built.values()), len(node[1]))
    raise AssertionError(kind)

  def offenders(self):
    """References of the final configuration that finalize must reject."""
    res = []
    holders = [('macro ' + k, v) for k, v in sorted(self.macros.items())]
    holders += [(f'{PROBES[p]}.{a}', v) for (p, a), v in sorted(self.binds.items())]
    for where, node in holders:
      for kind, name, depth, in_key in self.refs(node):
        if kind == 'unev':
          res.append(('unevaluated', name, depth, where, in_key))
        elif name not in self.macros:
          res.append(('unbound', name, depth, where, in_key))
    return res


def render(node):
  kind = node[0]
  if kind == 'lit':
    return repr(node[1])
  if kind == 'mac':
    return '%' + node[1]
  if kind == 'macx':
    return '@' + node[1] + '/gin.macro()'
  if kind == 'unev':
    return '@' + node[1] + '/gin.macro'
  if kind == 'const':
    return '%' + node[1]
  if kind == 'ctr':
    return '@' + node[1] + '()'
  if kind == 'list':
    return '[' + ', '.join(render(x) for x in node[1]) + ']'
  if kind == 'tuple':
    return '(' + ', '.join(render(x) for x in node[1]) + ',)'
  if kind == 'dict':
    return '{' + ', '.join(repr(k) + ': ' + render(x) for k, x in node[1]) + '}'
  if kind == 'dictk':
    return '{' + render(node[1]) + ': ' + render(node[2]) + '}'
  if kind == 'dictm':
    return '{' + ', '.join(render(k) + ': ' + render(v) for k, v in node[1]) + '}'
  raise AssertionError(kind)


class Matcher:
  """Compares a delivered value with an expectation tree."""

  def __init__(self, seen, labels, alias_names=()):
    self.alias_names = alias_names
    self.seen = seen          # counter tag -> set of values delivered so far in this case
    self.labels = labels
    self.checked_macros = set()
    self.checked_consts = 0

  def match(self, exp, got, path):
    kind = exp[0]
    if kind == 'any':
      return
    if kind == 'lit':
      require(type(got) is type(exp[1]) and got == exp[1], 'macro-value',
              lambda: f'{path}: received {got!r}, the last binding in force gives {exp[1]!r}')
    elif kind == 'macro':
      self.checked_macros.add(exp[1])
      if exp[3] >= 1:
        self.labels.add('macro:chain-checked')
      self.match(exp[2], got, f'{path} -> %{exp[1]}')
    elif kind == 'is':
      self.checked_consts += 1
      self.labels.add('const:by-complete-name' if exp[1] == exp[2] else 'const:by-proper-suffix')
      if exp[2] in self.alias_names:
        self.labels.add('const:enum-alias-checked')
      require(got is exp[3], 'constant-identity',
              lambda: f'{path}: %{exp[1]} delivered {got!r} (id {id(got)}), not the object '
                      f'defined as {exp[2]!r}: {exp[3]!r} (id {id(exp[3])})')
    elif kind == 'fresh':
      seen = self.seen.setdefault(exp[1], set())
      require(isinstance(got, tuple) and len(got) == 2 and got[0] == exp[1] and
              isinstance(got[1], int), 'macro-value',
              lambda: f'{path}: expected a result of @{exp[1]}(), received {got!r}')
      require(got[1] not in seen, 'counter-not-reevaluated',
              lambda: f'{path}: received {got!r}, which an earlier use already received '
                      f'(delivered so far: {sorted(seen)})')
      seen.add(got[1])
      self.labels.add('macro:counter-checked')
    elif kind in ('list', 'tuple'):
      want = list if kind == 'list' else tuple
      require(type(got) is want and len(got) == len(exp[1]), 'macro-value',
              lambda: f'{path}: received {got!r}, expected a {kind} of {len(exp[1])}')
      for i, (e, g) in enumerate(zip(exp[1], got)):
        self.match(e, g, f'{path}[{i}]')
    elif kind == 'dict':
      require(type(got) is dict and list(got) == [k for k, _ in exp[1]], 'macro-value',
              lambda: f'{path}: received {got!r}, expected keys {[k for k, _ in exp[1]]}')
      for k, e in exp[1]:
        self.match(e, got[k], f'{path}[{k!r}]')
    elif kind == 'dictk':
      require(type(got) is dict and len(got) == 1, 'macro-value',
              lambda: f'{path}: received {got!r}, expected a dict with one entry')
      (k, v), = got.items()
      self.labels.add('use:dict-key-checked')
      self.match(exp[1], k, f'{path}<key>')
      self.match(exp[2], v, f'{path}<value>')
    elif kind == 'dictm':
      require(type(got) is dict and len(got) == len(exp[1]), 'macro-value',
              lambda: f'{path}: received {got!r}, expected a dict with {len(exp[1])} entries '
                      f'(the display has {exp[2]} different keys)')
      if len(exp[1]) >= 2:
        self.labels.add('use:several-reference-keys-checked')
      for i, ((k, v), (ek, ev)) in enumerate(zip(got.items(), exp[1])):
        self.match(ek, k, f'{path}<key {i}>')
        self.match(ev, v, f'{path}<value {i}>')
    else:
      raise AssertionError(kind)


# ----------------------------------------------------------------------------- interpreter
class Payload:
  """A user object used as a constant value (equal-looking copies are not the constant)."""

  def __init__(self, name, serial):
    self.name = name
    self.serial = serial
    self.items = [name]

  def __repr__(self):
    return f'Payload({self.name!r}, {self.serial})'


def _const_value(name, serial):
  # none of these is atomic for copy.copy / copy.deepcopy: a copy is a different object
  if serial % 3 == 0:
    return ['const', name, serial]
  if serial % 3 == 1:
    return {'const': name, 'serial': serial, 'nested': [name]}
  return Payload(name, serial)


def _clear(model, labels, flags):
  """gin.clear_config() with its default clear_constants=False: bindings and macros go,
  constants stay -- the very objects."""
  flags.update(_nt_flags(model, flags['checked']()))
  gin.clear_config()
  model.macros.clear()
  model.binds.clear()
  model.uses.clear()
  model.defs.clear()
  model.clears += 1
  model.deflog = []
  model.inc_state = {}
  model.refused = set()
  model.locked = False           # documented: clear_config unlocks
  model.checked_locked = set()
  model.rebound_unlocked = set()
  labels.add('clear_config')
  for q, n in model.ok_queries():
    got = gin.query_parameter(q)
    require(got is model.consts[n], 'constant-identity',
            lambda: f'after {model.clears} clear_config(): query_parameter({q!r}) returned '
                    f'{got!r} (id {id(got)}), not the object defined as {n!r}: '
                    f'{model.consts[n]!r} (id {id(model.consts[n])})')


class _CellFailed(Exception):
  pass


def _iblock(model, labels, how, idx):
  """A `with gin.config.interactive_mode():` block, mostly left by an exception; afterwards, outside
  the block, definitions duplicating an existing constant must be errors as always."""
  names = sorted(model.consts)
  amb = model.ambiguous_queries()
  how %= 4
  try:
    with gin.config.interactive_mode():
      if how == 0:
        raise _CellFailed('user code failed inside the block')
      if how == 1:
        gin.constant('a..K', ['never'])          # rejected operation inside the block
      if how == 2 and amb:
        gin.parse_config(f'{PROBES[0]}.c = %{amb[idx % len(amb)]}\n')
      if how == 2:
        raise _CellFailed('user code failed inside the block')
    left_by = None
  except (_CellFailed, ValueError) as e:
    left_by = e
  require((left_by is None) == (how == 3), 'interactive-block-exception-lost',
          lambda: f'interactive_mode block of kind {how} ended with {left_by!r}')
  labels.add('interactive:block-completed' if how == 3 else 'interactive:block-left-by-exception')
  if not names:
    return
  full = names[idx % len(names)]
  for dup in sorted({full, suffixes(full)[-1]}):
    if not c_match(names, dup):
      continue
    try:
      gin.constant(dup, Payload(dup, -1))
    except ValueError:
      labels.add('interactive:duplicate-after-block-rejected')
      continue
    raise Violation('duplicate-constant-accepted',
                    f'after an interactive_mode block (kind {how}, left by {left_by!r}) and '
                    f'outside any such block, gin.constant({dup!r}) was accepted although it '
                    f'matches {c_match(names, dup)}')
  for q, n in model.ok_queries():
    got = gin.query_parameter(q)
    require(got is model.consts[n], 'constant-identity',
            lambda: f'after an interactive_mode block: query_parameter({q!r}) returned {got!r}, '
                    f'not the object defined as {n!r}')


def _shadow(model, labels, spec, k, ambiguous_rejected):
  """Binds a macro under a name that (also) designates constants, then parses a use of that
  name: a '%name' that matches a constant is the constant, whatever macros exist."""
  oks = model.ok_queries()
  ambs = model.ambiguous_queries()
  pool = [q for q, _ in oks] + ambs
  if not pool:
    return ambiguous_rejected
  name = pool[spec[0] % len(pool)]
  with _unlocked(model):
    if spec[2] % 2 == 0 and '.' not in name:
      gin.parse_config(f'{name} = {spec[1]}\n')
      labels.add('shadow:macro-by-config-line')
    else:
      gin.bind_parameter('%' + name, spec[1])
      labels.add('shadow:macro-by-bind_parameter')
  text = f'{PROBES[2]}.c = [%{name}]\n'
  if name in ambs:
    try:
      with _unlocked(model):
        try:
          gin.parse_config(text)
        except ValueError:
          raise
    except ValueError:
      labels.add('shadow:ambiguous-still-rejected')
      labels.add('const:ambiguous-rejected')
      return ambiguous_rejected + 1
    raise Violation('ambiguous-constant-accepted',
                    f'after a macro was bound under the name {name!r}, `{text.strip()}` parsed '
                    f'although %{name} matches {c_match(sorted(model.consts), name)}')
  n = dict(oks)[name]
  with _unlocked(model):
    gin.parse_config(text)
  model.pos += 1
  model.binds[(2, 'c')] = ('list', [('const', name, n)])
  labels.add('shadow:constant-used-under-macro-name')
  return ambiguous_rejected


# gin.finalize() or gin.parse_config_files_and_bindings(files, bindings), which finalizes too:
# with nothing at all to parse (five spellings of nothing), with a file and a binding, with only
# a binding
FINALIZE_VIAS = ['finalize()', 'pcfb(None, None)', 'pcfb([], [])', 'pcfb((), ())',
                 'pcfb([], None)', "pcfb(None, '')", 'pcfb([file], [binding])',
                 'pcfb(None, [binding])']
_NOTHING = {1: (None, None), 2: ([], []), 3: ((), ()), 4: ([], None), 5: (None, '')}


def _unlocked(model):
  """Texts parsed after a successful finalize go through the documented unlock_config()."""
  return gin.unlock_config() if model.locked else contextlib.nullcontext()


def _pure(node):
  """(True, value) for a concrete node without any reference."""
  kind = node[0]
  if kind == 'lit':
    return True, node[1]
  if kind in ('list', 'tuple'):
    parts = [_pure(x) for x in node[1]]
    if not all(p[0] for p in parts):
      return False, None
    vals = [p[1] for p in parts]
    return True, (vals if kind == 'list' else tuple(vals))
  if kind == 'dict':
    parts = [(k, _pure(x)) for k, x in node[1]]
    if not all(p[0] for _, p in parts):
      return False, None
    return True, {k: p[1] for k, p in parts}
  if kind in ('dictk', 'dictm'):
    pairs = [(node[1], node[2])] if kind == 'dictk' else node[1]
    parts = [(_pure(k), _pure(v)) for k, v in pairs]
    if not all(pk[0] and pv[0] for pk, pv in parts):
      return False, None
    return True, {pk[1]: pv[1] for pk, pv in parts}
  return False, None


def _same(a, b):
  if type(a) is not type(b):
    return False
  if isinstance(a, (list, tuple)):
    return len(a) == len(b) and all(_same(x, y) for x, y in zip(a, b))
  if isinstance(a, dict):
    return list(a) == list(b) and all(_same(a[k], b[k]) for k in a)
  return a == b


QUERY_SPELLINGS = ['%{}', '{}/macro.value', '{}/gin.macro.value']


def _query_macro(model, labels, name, spelling, when):
  """gin.query_parameter on a macro: a never-bound one must be refused (and, as every later
  step of the history re-checks, leave no trace); a literal one must read back."""
  key = QUERY_SPELLINGS[spelling % len(QUERY_SPELLINGS)].format(name)
  if name not in model.macros:
    try:
      got = gin.query_parameter(key)
    except ValueError:
      labels.add('query:unbound-macro-refused')
      model.refused.add(name)
      return
    raise Violation('unbound-macro-query-returned',
                    f'{when}: query_parameter({key!r}) returned {got!r} although {name!r} was '
                    f'never bound (bound: {sorted(model.macros)})')
  pure, want = _pure(model.macros[name])
  if not pure:
    try:
      gin.query_parameter(key)       # unevaluated references inside: nothing to compare
    except ValueError:
      pass
    return
  got = gin.query_parameter(key)
  require(_same(got, want), 'macro-value',
          lambda: f'{when}: query_parameter({key!r}) returned {got!r}, the last binding in '
                  f'force gives {want!r}')
  labels.add('query:bound-literal-read')


def _nt_flags(model, checked):
  use_before_def = any(u[0] < d[0] for m in checked for u in model.uses.get(m, ())
                       for d in model.defs.get(m, ()))
  redefined_later = any(
      len(model.defs.get(m, ())) >= 2 and
      any(d[1] > u[1] and d[0] > model.defs[m][0][0] for u in model.uses.get(m, ())
          for d in model.defs[m])
      for m in checked)
  res = {}
  if use_before_def:
    res['nt:use-before-def'] = True
  if redefined_later:
    res['nt:redefined-in-later-parse'] = True
  if any(len(v) >= 2 for v in model.defs.values()):
    res['macro:redefined'] = True
  return res


def _define_constants(case, model, labels):
  serial = itertools.count()
  for op in case['consts']:
    kind = op[0]
    names = sorted(model.consts)
    if kind == 'bad':
      try:
        gin.constant(op[1], ['bad', op[1]])
      except ValueError:
        labels.add('const:invalid-rejected')
        continue
      raise Violation('invalid-constant-name-accepted',
                      f'gin.constant({op[1]!r}, ...) returned normally')
    if kind == 'c':
      name = op[1]
      obj = _const_value(name, next(serial))
      hits = c_match(names, name)
      extends = [n for n in names if name.endswith('.' + n)]
      try:
        gin.constant(name, obj)
      except ValueError:
        if hits:
          labels.add('const:duplicate-rejected' if name in hits else
                     'const:suffix-duplicate-rejected')
          continue
        if extends:
          labels.add('const:extension-of-existing-rejected')
          continue
        raise Violation('constant-rejected',
                        f'gin.constant({name!r}) raised ValueError while only {names} were '
                        f'defined (none of them is matched by {name!r})')
      require(not hits, 'duplicate-constant-accepted',
              lambda: f'gin.constant({name!r}) accepted although it matches {hits}')
      if extends:
        labels.add('const:extension-of-existing-accepted')
      model.consts[name] = obj
      continue
    if kind == 'iblock':
      _iblock(model, labels, op[1], op[2])
      continue
    if kind == 'enum':
      _, module, cls_name, members, explicit = op[:5]
      aliases = [(a, t % len(members)) for a, t in (op[5] if len(op) > 5 else [])
                 if a not in members]
      base = enum.IntEnum if len(op) > 6 and op[6] else enum.Enum
      # definition order: the members (values 1..n), then the aliases (a value used before)
      pairs = [(m, i + 1) for i, m in enumerate(members)] + [(a, t + 1) for a, t in aliases]
      all_names = [n for n, _ in pairs]
      fulls = [f'{module}.{cls_name}.{m}' for m in all_names]
      hits = [bool(c_match(names, f)) for f in fulls]
      ext = [any(f.endswith('.' + n) for n in names) for f in fulls]
      if any(hits) and not hits[0]:
        raise OutOfDomain('enum partly colliding with existing constants')
      if explicit:
        cls = base(cls_name, pairs, module='c05.unused')
        deco = lambda c, module=module: gin.constants_from_enum(module=module)(c)
      else:
        cls = base(cls_name, pairs, module=module)
        deco = gin.constants_from_enum
      members = all_names
      try:
        res = deco(cls)
      except ValueError:
        if not hits[0] and any(ext):
          raise OutOfDomain('enum extending existing constant names was rejected: table state '
                            'unspecified')
        require(hits[0], 'constant-rejected',
                lambda: f'constants_from_enum({module}.{cls_name}{members}) raised ValueError '
                        f'while only {names} were defined')
        labels.add('const:enum-duplicate-rejected')
        continue
      require(not hits[0], 'duplicate-constant-accepted',
              lambda: f'constants_from_enum({module}.{cls_name}{members}) accepted although '
                      f'{fulls[0]!r} matches {c_match(names, fulls[0])}')
      require(res is cls, 'enum-decorator-not-identity', repr(res))
      for f, m in zip(fulls, members):
        model.consts[f] = cls[m]     # for an alias: the member it is another name of
      model.alias_names.update(f'{module}.{cls_name}.{a}' for a, _ in aliases)
      labels.add('const:enum')
      if aliases:
        labels.add('const:enum-with-alias')
      if base is enum.IntEnum:
        labels.add('const:int-enum')
      continue
    raise OutOfDomain(f'unknown constant op {kind!r}')


def _deliver(via, lines, cut, tmpdir, counter, skip=False, concs=None):
  """Hands the text made of `lines` to Gin in the way `via` says.

  With `skip`, the parse is made with skip_unknown=True: every name in these texts is known
  (macro definitions bind the always-known gin.macro), so nothing may be skipped."""
  kw = {'skip_unknown': True} if skip else {}

  def write(ls):
    path = os.path.join(tmpdir, f'f{next(counter)}.gin')
    with open(path, 'w') as f:
      f.write('\n'.join(ls) + '\n')
    return path

  if via == 'str':
    gin.parse_config('\n'.join(lines) + '\n', **kw)
  elif via == 'list':
    gin.parse_config(list(lines), **kw)
  elif via == 'file':
    gin.parse_config_file(write(lines), **kw)
  elif via == 'include':
    gin.parse_config(f"include '{write(lines)}'\n", **kw)
  elif via == 'api':
    # statement by statement; a macro bound to a reference-free literal goes through
    # gin.bind_parameter('%name', value), everything else through parse_config
    for line, c in zip(lines, concs or [None] * len(lines)):
      pure, value = _pure(c[2]) if c is not None and c[0] == 'def' else (False, None)
      if pure:
        gin.bind_parameter('%' + c[1], value)
      else:
        gin.parse_config(line + '\n', **kw)
  elif via == 'split':
    i, j = sorted((cut[0] % (len(lines) + 1), cut[1] % (len(lines) + 1)))
    path = write(lines[i:j])
    gin.parse_config('\n'.join(lines[:i] + [f"include '{path}'"] + lines[j:]) + '\n', **kw)
  else:
    raise OutOfDomain(f'unknown delivery {via!r}')


def _observe(model, seen, labels, when, stats):
  checked_now = set()
  for p, fn in enumerate(_probe_fns):
    params = [a for a in PARAMS if (p, a) in model.binds]
    if not params:
      continue
    try:
      exp = {a: model.expected(model.binds[(p, a)]) for a in params}
    except Unbound:
      labels.add('call-skipped:reaches-unbound-macro')
      continue
    except UnhashableKey:
      labels.add('call-skipped:unhashable-dict-key')
      continue
    try:
      got = fn()
    except Exception as e:  # pylint: disable=broad-except
      texts = {a: render(model.binds[(p, a)]) for a in params}
      bound = {k: render(v) for k, v in sorted(model.macros.items())}
      raise Violation('macro-use-failed',
                      f'{when}: calling {PROBES[p]} with bindings {texts} raised '
                      f'{type(e).__name__}: {str(e)[:200]!r} although every macro it reaches is '
                      f'bound ({bound}) and every constant defined')
    m = Matcher(seen, labels, model.alias_names)
    for a in PARAMS:
      if a in exp:
        m.match(exp[a], got[a], f'{when}: {PROBES[p]}.{a}')
      else:
        require(got[a] == UNSET, 'macro-value',
                lambda: f'{when}: {PROBES[p]}.{a} was never bound but received {got[a]!r}')
    stats['checked_macros'] |= m.checked_macros
    checked_now |= m.checked_macros
    stats['checked_consts'] += m.checked_consts
    stats['calls'] += 1
    if m.checked_consts and model.clears:
      labels.add('const:identity-after-clear')
  for q, n in model.ok_queries():
    got = gin.query_parameter(q)
    require(got is model.consts[n], 'constant-identity',
            lambda: f'{when}: query_parameter({q!r}) returned {got!r} (id {id(got)}), not the '
                    f'object defined as {n!r}: {model.consts[n]!r} (id {id(model.consts[n])})')
    labels.add('const:query_parameter')
  if model.locked:
    labels.add('lock:probes-called-while-locked')
    if checked_now & model.rebound_unlocked:
      # the same reference objects were evaluated before the re-binding, also under the lock
      labels.add('lock:rebound-under-unlock-rechecked')
    model.rebound_unlocked -= checked_now
    model.checked_locked |= checked_now


def check_case(case):
  _COUNTS.clear()
  labels = set()
  names = list(case['macros'])
  if len(set(names)) != len(names) or not set(names) <= set(MACROS) or not names:
    raise OutOfDomain('macro names')
  model = Model(names, bool(case.get('unev')))
  _define_constants(case, model, labels)
  seen = {}
  stats = {'checked_macros': set(), 'checked_consts': 0, 'calls': 0}
  flags = {'checked': lambda: stats['checked_macros']}   # + non-trivial flags kept across clears
  ambiguous_rejected = 0
  tmpdir = tempfile.mkdtemp(prefix='c05-')
  fileno = itertools.count()
  try:
    parses = list(case['parses'])
    if not 1 <= len(parses) <= 4:
      raise OutOfDomain('1-4 parses')
    files = [list(f) for f in (case.get('files') or [])]
    if len(files) > 2:
      raise OutOfDomain('at most two shared files')
    file_paths = []

    def concrete(stmt, ctx):
      """Statement -> ('def', name, node) | ('bind', probe, param, node) | ('inc', file) | None.

      ctx = index of the shared file the statement stands in (None: a parsed text).  It only
      depends on the case (constants are all defined by now), so a file has one fixed text.
      """
      kind = stmt[0]
      if kind == 'def':
        owner = stmt[1] % len(names)
        return ('def', names[owner], model.realise(stmt[2], owner))
      if kind == 'use':
        return ('bind', stmt[1] % len(PROBES), PARAMS[stmt[2] % len(PARAMS)],
                model.realise(stmt[3], None))
      if kind == 'allconst':
        labels.add('const:all-suffixes')
        return ('bind', stmt[1] % len(PROBES), PARAMS[stmt[2] % len(PARAMS)],
                ('list', [('const', q, n) for q, n in model.ok_queries()]))
      if kind == 'inc':
        limit = len(files) if ctx is None else ctx     # a file only includes earlier files
        return ('inc', stmt[1] % limit) if limit else None
      raise OutOfDomain(f'unknown statement {kind!r}')

    def first_def(j):
      for stmt in files[j]:
        if stmt[0] == 'def':
          return stmt[1]
        if stmt[0] in ('inc', 'reinc') and j > 0:
          got = first_def(stmt[1] % j)
          if got is not None:
            return got
      return None

    def expand(stmt, ctx):
      """['reinc', j, v] stands for two statements: X = v; include file j."""
      if stmt[0] != 'reinc':
        return [stmt]
      limit = len(files) if ctx is None else ctx
      if not limit:
        return []
      owner = first_def(stmt[1] % limit)
      rebind = [['def', owner, ['i', stmt[2]]]] if owner is not None else []
      return rebind + [['inc', stmt[1]]]

    def line_of(c):
      if c[0] == 'def':
        return f'{c[1]} = {render(c[2])}'
      if c[0] == 'bind':
        return f'{PROBES[c[1]]}.{c[2]} = {render(c[3])}'
      return f"include '{file_paths[c[1]]}'"

    def apply(c, k):
      """What the statement does to the model (an include: what the file's statements do)."""
      if c[0] == 'inc':
        j = c[1]
        prev = model.inc_state.get(j)
        if prev is not None:
          labels.add('include:same-file-again')
          if set(model.deflog[prev[0]:]) & prev[1]:
            labels.add('include:again-after-rebinding')
        start = len(model.deflog)
        for stmt in files[j]:
          for prim in expand(stmt, j):
            cc = concrete(prim, j)
            if cc is not None:
              apply(cc, k)
        model.inc_state[j] = (len(model.deflog), set(model.deflog[start:]))
        labels.add('include:shared-file')
        return
      model.pos += 1
      if c[0] == 'def':
        node = c[2]
        model.macros[c[1]] = node
        model.defs.setdefault(c[1], []).append((model.pos, k))
        model.deflog.append(c[1])
        if model.locked and c[1] in model.checked_locked:
          model.rebound_unlocked.add(c[1])
      else:
        node = c[3]
        model.binds[(c[1], c[2])] = node
      for rkind, rname, depth, in_key in model.refs(node):
        if rkind != 'unev':
          model.uses.setdefault(rname, []).append((model.pos, k))
        if depth:
          labels.add('use:nested')
        if in_key:
          labels.add('use:in-dict-key')

    def do_finalize(scope, when):
      """gin.finalize() against the model; True when it had to succeed (config now locked)."""
      via = (case.get('finalize_via') or 0) % len(FINALIZE_VIAS)
      labels.add('finalize:via ' + FINALIZE_VIAS[via])
      if via in _NOTHING:
        labels.add('finalize:via pcfb with nothing to parse')
        entry = lambda: gin.parse_config_files_and_bindings(*_NOTHING[via])
      elif via >= 6:
        # something harmless to parse: an empty file and one literal binding (applied to the
        # model first: it is part of the configuration that gets validated)
        path = os.path.join(tmpdir, f'fin{next(fileno)}.gin')
        with open(path, 'w') as f:
          f.write('# nothing\n')
        model.pos += 1
        model.binds[(2, 'b')] = ('lit', 0)
        files_arg = [path] if via == 6 else None
        entry = lambda: gin.parse_config_files_and_bindings(files_arg, [f'{PROBES[2]}.b = 0'])
      else:
        entry = gin.finalize
      offenders = model.offenders()
      counts = dict(_COUNTS)
      try:
        with gin.config_scope(scope or None):
          entry()
        raised = None
      except Exception as e:  # pylint: disable=broad-except
        raised = e
      # a macro bound to an evaluated reference is evaluated at every *use*; validating the
      # configuration is not a use
      require(_COUNTS == counts, 'finalize-evaluated-a-macro-reference',
              lambda: f'{when}: finalize() ran the counter configurables: calls before {counts}, '
                      f'after {_COUNTS}; macros: '
                      f'{ {k: render(v) for k, v in sorted(model.macros.items())} }, bindings: '
                      f'{ {PROBES[p_] + "." + a_: render(v) for (p_, a_), v in sorted(model.binds.items())} }')
      if any(c[0] == 'ctr' for v in model.macros.values() for c in _walk(v)):
        labels.add('finalize:counter-macros-not-evaluated')
      if scope:
        labels.add('finalize:inside-config-scope')
      if offenders:
        require(raised is not None, 'finalize-accepted',
                lambda: f'{when}: {FINALIZE_VIAS[via]} returned although the configuration has '
                        f'{offenders[:4]}')
        require(not gin.config_is_locked(), 'locked-after-rejected-finalize',
                lambda: f'{when}: finalize() raised {type(raised).__name__} and left the config '
                        f'locked')
        if any(o[0] == 'unbound' and o[1] in model.refused for o in offenders):
          labels.add('finalize:rejected-after-failed-query')
        if via in _NOTHING:
          labels.add('finalize:rejected-via-pcfb-with-nothing')
        kinds = {o[0] for o in offenders}
        for kd in kinds:
          labels.add('finalize:rejected-' + kd)
        if all(o[2] > 0 for o in offenders):
          labels.add('finalize:offender-only-nested')
        if all(o[4] for o in offenders):
          labels.add('finalize:offender-only-in-dict-key')
        if len(offenders) == 1:
          labels.add('finalize:single-offender')
        return False
      require(raised is None, 'finalize-rejected',
              lambda: f'{when}: finalize() raised {type(raised).__name__}: {str(raised)[:300]} '
                      f'although every referenced macro is bound and evaluated')
      require(gin.config_is_locked(), 'not-locked-after-accepted-finalize',
              lambda: f'{when}: {FINALIZE_VIAS[via]} returned and the config is not locked')
      labels.add('finalize:accepted')
      model.locked = True
      return True

    for i, fstmts in enumerate(files):
      flines = [line_of(c) for c in (concrete(prim, i) for st_ in fstmts
                                     for prim in expand(st_, i)) if c is not None]
      path = os.path.join(tmpdir, f'shared{i}.gin')
      with open(path, 'w') as f:
        f.write('\n'.join(flines) + '\n')
      file_paths.append(path)
    for k, op in enumerate(parses):
      for _ in range(op.get('clear', 0) or 0):
        _clear(model, labels, flags)
      if op.get('shadow') is not None:
        ambiguous_rejected = _shadow(model, labels, op['shadow'], k, ambiguous_rejected)
      lines, concs = [], []
      for stmt in op['stmts']:
        for prim in expand(stmt, None):
          c = concrete(prim, None)
          if c is None:
            continue
          lines.append(line_of(c))
          concs.append(c)
          apply(c, k)
      if not lines:
        lines.append('# nothing')
        concs.append(None)
      with _unlocked(model):
        _deliver(op['via'], lines, op.get('cut', [0, 0]), tmpdir, fileno,
                 skip=op.get('skip', False), concs=concs)
      if model.locked:
        labels.add('lock:text-under-unlock_config')
        require(gin.config_is_locked(), 'unlock_config-did-not-relock', '')
      labels.add('via:' + op['via'])
      if op['via'] in ('file', 'include', 'split'):
        labels.add('via:file-or-include')
      if op.get('ambig') is not None:
        qs = model.ambiguous_queries()
        if op['ambig'][0] >= 0 and qs:
          qs = [qs[op['ambig'][0] % len(qs)]]
        for q in qs:
          text = ['%' + q, '[1, %' + q + ']', "{'x': (0, [%" + q + '])}'][op['ambig'][1] % 3]
          try:
            with _unlocked(model):
              try:
                gin.parse_config(f'{PROBES[0]}.c = {text}\n')
              except ValueError:
                raise
          except ValueError:
            ambiguous_rejected += 1
            labels.add('const:ambiguous-rejected')
          else:
            raise Violation('ambiguous-constant-accepted',
                            f'`{PROBES[0]}.c = {text}` parsed although %{q} matches '
                            f'{c_match(sorted(model.consts), q)}')
      if op.get('query') is not None:
        _query_macro(model, labels, names[op['query'][0] % len(names)], op['query'][1],
                     f'after parse {k + 1}')
      if op.get('iblock') is not None:
        _iblock(model, labels, op['iblock'][0], op['iblock'][1])
      if (op.get('observe') or model.locked) and k < len(parses) - 1:
        _observe(model, seen, labels, f'after parse {k + 1}', stats)
        labels.add('observed-mid-history')
      if (case.get('lock_after') is not None and not model.locked and
          k == case['lock_after'] % len(parses) and k < len(parses) - 1):
        if do_finalize('', f'finalize after parse {k + 1}'):
          labels.add('lock:finalized-mid-history')
          _observe(model, seen, labels, f'locked after parse {k + 1}', stats)

    if case.get('close'):
      missing = sorted({name for _, name, _, _, _ in model.offenders()
                        if name not in model.macros})
      if missing:
        lines = []
        for name in missing:
          model.pos += 1
          node = ('lit', 5000 + names.index(name))
          lines.append(f'{name} = {render(node)}')
          model.macros[name] = node
          model.defs.setdefault(name, []).append((model.pos, len(parses)))
          model.deflog.append(name)
          if model.locked and name in model.checked_locked:
            model.rebound_unlocked.add(name)
        with _unlocked(model):
          _deliver(case['close'], lines, [0, 0], tmpdir, fileno)
        labels.add('closing-text')

    _observe(model, seen, labels, 'after the last parse', stats)
    _observe(model, seen, labels, 'after the last parse, second call', stats)

    if case.get('query_end') is not None:
      for name in names:
        _query_macro(model, labels, name, case['query_end'], 'before finalize')

    if case.get('finalize') and not model.locked:
      if do_finalize(case.get('finalize_scope') or '', 'finalize'):
        _observe(model, seen, labels, 'after finalize', stats)
  finally:
    shutil.rmtree(tmpdir, ignore_errors=True)

  # ---- labels / non-trivial --------------------------------------------------------------
  checked = stats['checked_macros']
  flags.update(_nt_flags(model, checked))
  use_before_def = bool(flags.get('nt:use-before-def'))
  redefined_later = bool(flags.get('nt:redefined-in-later-parse'))
  cnames = sorted(model.consts)
  shared = any(len(c_match(cnames, q)) >= 2 for n in cnames for q in suffixes(n))
  shared_used = shared and (stats['checked_consts'] > 0 or ambiguous_rejected > 0)
  if use_before_def:
    labels.add('nt:use-before-def')
  if redefined_later:
    labels.add('nt:redefined-in-later-parse')
  if shared_used:
    labels.add('nt:shared-suffix')
  if flags.get('macro:redefined'):
    labels.add('macro:redefined')
  if any('/' in m for m in checked):
    labels.add('macro:scoped-name-checked')
  if stats['calls']:
    labels.add('probe-called')
  labels.add(f'parses:{len(case["parses"])}')
  labels.add('layer:sweep' if case.get('sweep') else 'layer:history')
  reincluded = 'include:again-after-rebinding' in labels
  if reincluded:
    labels.add('nt:re-included-after-rebinding')
  nt = use_before_def or redefined_later or shared_used or reincluded
  if nt:
    labels.add('nontrivial')
  return ok(labels, nt)


# ----------------------------------------------------------------------------- sweep
def _sweep_pairs(tier):
  comps = 'abc'
  universe = ['.'.join(t) for d in (1, 2, 3) for t in itertools.product(comps, repeat=d)]
  firsts = universe if tier == 'thorough' else [n for n in universe if n.count('.') <= 1]
  cases = []
  for x in firsts:
    for y in universe:
      if x == y and tier != 'thorough':
        continue
      cases.append({
          'macros': ['m', 'n'],
          'consts': [['c', x], ['c', y]],
          'parses': [{'via': 'str', 'stmts': [['allconst', 0, 0]], 'cut': [0, 0],
                      'observe': False, 'ambig': [-1, 0]},
                     {'via': 'str', 'stmts': [['allconst', 1, 1]], 'cut': [0, 0], 'clear': 1,
                      'observe': False, 'ambig': [-1, 2]}],
          'sweep': True,
          'unev': False,
          'close': None,
          'finalize': True,
      })
  return cases, True


def _sweep_placements(tier):
  """One reference to macro n in every placement, from a probe binding and from a macro value."""
  del tier
  shapes = [
      lambda c: c,
      lambda c: ['list', [['i', 1], c]],
      lambda c: ['tuple', [c]],
      lambda c: ['dict', [['x', c]]],
      lambda c: ['dictk', c, ['i', 0]],
      lambda c: ['dictk', ['tuple', [c, ['i', 1]]], ['i', 0]],
      lambda c: ['list', [['dict', [['x', ['tuple', [c]]]]]]],
      lambda c: ['dict', [['x', ['dictk', c, ['none']]]]],
      lambda c: ['list', [['dictk', ['tuple', [['tuple', [c]]]], ['list', []]]]],
  ]
  cases = []
  for shape in shapes:
    for kind in ('mac', 'macx', 'unev'):
      for holder in ('probe', 'macro'):
        for bound in ((True,) if kind == 'unev' else (False, True)):
          if holder == 'probe':
            stmts = [['use', 0, 0, shape([kind, 1])]]
          else:
            stmts = [['def', 0, shape([kind, 0])], ['use', 1, 1, ['mac', 0]]]
          parses = [{'via': 'str', 'stmts': stmts, 'cut': [0, 0], 'observe': False,
                     'ambig': None}]
          if bound:
            parses.append({'via': 'str', 'stmts': [['def', 1, ['i', 5]]], 'cut': [0, 0],
                           'observe': False, 'ambig': None})
          cases.append({'macros': ['m', 'n'], 'consts': [], 'parses': parses, 'sweep': True,
                        'unev': True, 'close': None, 'finalize': True})
  return cases, True


SWEEPS = {'constant-name-pairs': _sweep_pairs, 'reference-placements': _sweep_placements}
