"""C14 — includes act as in-place inclusion; files resolve through ordered locations.

A case describes a tree of <=6 config files (include depth <=3), where every file exists in a
generated set of *places* (search location x reader) with a different content in every place, plus
the registered search locations / custom readers, an entry point with its arguments, an optional
file that nobody can read and an optional statement on an unknown name.

check_case computes, from the case alone, (a) which place the documented search order selects for
every file, (b) the FLATTENED text (every `include` replaced, recursively, by the selected content,
truncated at the first fault) and (c) the expected include/import tree.  A fresh fork of the
pristine process parses the flattened text (reference); then the files are materialised, the
locations and readers are registered, the real entry point is called and the two are compared.
"""
import importlib
import importlib.util
import io
import os
import pathlib
import shutil
import sys
import tempfile

from hypothesis import strategies as st

from vf import ginenv
from vf import iso
from vf.core import OutOfDomain, Violation, ok, require  # pylint: disable=unused-import

gin = ginenv.import_gin()

ID = 'C14'
LEVEL = 'exploration'
ISOLATE = True
BUDGET = {'quick': (16, 110), 'thorough': (16, 1500)}
RULE = ('Hypothesis-generated cases: 1-6 static-registration files forming an include tree (<=3 '
        'include levels; a child may be included twice), each file = 0-6 statements over an '
        '8-key space (2 probes x 2 params x scope {"", s}) + macro definitions + constant-valued '
        'bindings + a per-file marker + stdlib '
        'imports, so bindings before and after every include collide with the included file; '
        'names are relative (f.gin, c14sub/f.gin, c14sub/deep/f.gin), absolute or '
        'package-relative (c14pkg.sub/f.gin via a generated regular package on sys.path; '
        'c14ns.cfg/f.gin and c14ns/cfg/f.gin via a namespace package whose portions lie under '
        'three sys.path entries, the file in any subset of the portions with different contents, '
        'further portions holding no file, decoys one directory up and in a site that is not on '
        'sys.path); every file is '
        'placed in 1-4 places of the grid {cwd, 1-3 registered locations (absolute or relative '
        'prefixes), one unregistered dir} x {open, package reader, 1-3 registered in-memory '
        'readers, one unregistered reader, entries the reader\'s own predicate denies}, each '
        'place holding a distinct content; added locations are given as str or pathlib.Path; a '
        'copy of an include target (conflicting content) may sit NEXT TO THE INCLUDING FILE in '
        'a directory that is neither cwd nor a location (includes never resolve relative to '
        'the includer); names c14pkg/c14mod/f.gin go through a plain MODULE c14pkg/c14mod.py '
        'with f.gin next to it (not a package: unreadable through the package reader); '
        'in 0-2 further locations the name exists as a '
        'DIRECTORY (unreadable: the search must go on); '
        'optionally one file is unreadable everywhere (decoys '
        'only) and one statement targets an unknown configurable/module; entry point in '
        '{parse_config, parse_config_file, parse_config_files_and_bindings (0-3 files, extra '
        'bindings, finalize_config default/False/True)} x skip_unknown {not passed, True, False, '
        'a list / tuple / set of names}; up to two statements on unknown names (a configurable the '
        'collection lists, one it does not list, an unknown module) in the root or in files '
        'included at any depth; '
        'finalize_config / skip_unknown are omitted, passed by keyword or passed positionally '
        '(third / fourth argument of the multi-file entry point, second of the other two); '
        'optionally an already registered reader (a custom one, or the package reader that '
        '`import gin` registered) is registered a second time after all others; '
        'gin.clear_config() is called after the first location is registered / after all '
        'registrations / between a failed call and its repetition (registered locations and '
        'readers survive it); after a failed call (unreadable file, unknown name) the same call '
        '- or, for parse_config_file, a text including the root file - is optionally repeated '
        'after creating the file / with skip_unknown=True and must behave like a first parse; '
        'after a successful call that left the config unlocked (or with clear_config in '
        'between) optionally the places change - a copy with different content appears in a place '
        'searched earlier than the one that won (disk or in-memory reader), or the winning copy '
        'is deleted - and the same call is made again: the search starts afresh; '
        'with no files the files argument is [] / None / (), with no bindings the bindings '
        'argument is [] / None / ""; optionally, after a successful call that left the config '
        'unlocked, the multi-file entry point is called again with nothing to parse '
        '(finalize_config default/False/True, skip_unknown variants) and must finalize iff not '
        'told otherwise; '
        'sys.path holds the generated package dir, optionally also the current directory or '
        'plain directories (namespace packages) named like the directory part of the names. '
        'Non-trivial = >=2 include levels were parsed and a binding was overridden across a file '
        'boundary, or some parsed name had >=2 readable candidates in different (location, '
        'reader) places. Distinct = distinct case JSON.')
ASSUMPTIONS = [
    '"finalizes" is observed as: config_is_locked() is true, a finalize hook registered by the '
    'check ran exactly once and saw the final config, and a further bind_parameter is refused; '
    'this also holds when there is nothing to parse (no files, no bindings)',
    'static registration only (dynamic-registration files belong to C19)',
    'skip_unknown given as a list / tuple / set of names means the same in an included file as in '
    'the flattened text: a listed unknown configurable is skipped, an unlisted one raises; unknown '
    'imports under a collection are not generated (C15)',
    'a search location given as pathlib.Path behaves like the same location given as str',
    'include targets are resolved like any other name (cwd, then the registered locations), '
    'never relative to the directory of the including file',
    'a dotted/slashed prefix naming a plain module (not a package) is not a package-relative '
    'name: the package reader cannot read it even if a file of that name sits next to the module',
    'clear_config() resets bindings, not the registered search locations and readers',
    'registering an already registered reader again (same predicate) does not change its place in '
    'the reader order',
    'every parse resolves every name afresh by the documented search order: a file that appears '
    'in an earlier place between two parses wins the second time',
    'a failed parse applies only statements of the text it was parsing (a prefix), so repeating '
    'the complete parse afterwards yields the config of the complete flattened text; files that '
    'were being parsed when the failure happened can be parsed again',
    'a directory carrying the name is not a file anybody can read: resolution continues with the '
    'next reader / location, and if nothing else holds the name it is "a name nobody can read"',
    'a search location is a path prefix joined to the name with "/"; the current directory is the '
    'empty prefix and precedes every added location; readers are tried in registration order '
    'after the built-in file reader and the package reader registered by `import gin`',
    'returned tree nodes are matched by the base name of their filename (whether the spelled or '
    'the resolved name is reported is not asserted); imports are compared as sorted lists of '
    'module names, for `import m` / `import p.m` / `import m as a` forms only',
    'after a failed parse only bindings are compared (import lines of config_str are ignored: '
    'whether imports of a half-parsed file are recorded is C16 territory)',
    'for an unreadable ABSOLUTE name passed directly to an entry point the error text must not '
    'name the added search locations (they were bypassed, hence not searched)',
    'when a statement on an unknown name raises, only the fact that it raises is asserted',
    'the same module is always imported in the same form (config_str picks one representative '
    'per module among differently aliased imports, which is outside this property)',
    'a namespace package (directories without __init__.py under several sys.path entries) is a '
    'package on the Python path: a name relative to it denotes the file in the first portion, in '
    'sys.path order, that holds it',
    'apart from the namespace package c14ns.cfg, packages that hold a generated file are regular '
    'packages (__init__.py). Plain directories '
    'on sys.path named like the directory part of a name (nspath=2), and the current directory '
    'on sys.path (nspath=1), are generated too, but such a namespace package never holds a file '
    'the file reader would not find first at the same location, so the expected result is the '
    'same whether or not the package reader looks inside namespace packages',
]
FLOORS = {
    'outcome:ok': 0.25, 'outcome:ioerror': 0.10, 'outcome:unknown-raised': 0.05,
    'nontrivial': 0.20, 'override:post-include-over-included': 0.15,
    'override:included-over-pre-include': 0.15, 'cand:swap-sensitive': 0.04,
    'cand:cwd-first-sensitive': 0.05, 'levels>=2': 0.15, 'tree:imports-differ': 0.08,
    'multi:bindings-override-file': 0.03, 'multi:finalize-default': 0.05,
    'default-skip-with-unknown:config': 0.01, 'default-skip-with-unknown:file': 0.01,
    'default-skip-with-unknown:multi': 0.006, 'missing:abs-direct': 0.003,
    'nspath:namespace-dir-consulted': 0.05, 'selected:custom-reader': 0.05,
    'reparse:earlier-copy-appeared,direct': 0.01, 'reparse:earlier-copy-appeared,included': 0.02,
    'reparse:earlier-copy-appeared,entry-multi': 0.005,
    'reparse:earlier-copy-appeared,after-clear_config': 0.01, 'reparse:winner-deleted': 0.008,
    'rereg:order-sensitive': 0.01, 'unknown:unlisted-name,included-file': 0.01,
    'unknown:listed-name,included-file': 0.01, 'unknown:unlisted-name,top': 0.01,
    'location:pathlib.Path': 0.2,
    'beside:copy-next-to-includer,shadowing': 0.02, 'beside:copy-next-to-includer,only-copy': 0.004,
    'name:mod': 0.05,
    'retry:ok,after-unknown': 0.02, 'retry:ok,after-missing': 0.03,
    'retry:ok,reparses-file-open-at-failure': 0.03, 'retry:ok,through-another-root': 0.005,
    'clear:after-first-location,more-follow': 0.05, 'clear:after-all-registrations': 0.2,
    'clear:between-two-parses': 0.03,
    'dir:before-real-file,direct': 0.01, 'dir:before-real-file,included': 0.01,
    'dir:and-no-real-file': 0.01, 'unknown:in-extra-bindings,skipped': 0.004,
    'unknown:skipped': 0.02,
    'multi:nothing-to-parse,finalize-default': 0.004, 'args:multi-finalize-positional-False': 0.02,
    'args:multi-skip-positional': 0.03, 'args:skip-positional': 0.05,
    'after:nothing-to-parse,finalize-default': 0.03, 'ns:file-only-in-later-portion': 0.015,
    'ns:several-portions-hold-file': 0.005,
    'selected:package-reader': 0.03, 'decoy-present': 0.10,
}
TECHNIQUE = ('model-based differential testing: Hypothesis-generated file trees and placements; '
             'a resolution/flattening reference model written from the property text; the '
             'flattened text parsed by a fresh fork of the pristine process')
LEVEL_TEXT = ('For every generated tree, placement, search configuration and entry point the '
              'resulting config_str must equal that of a pristine process parsing the flattened '
              'text built from the contents the documented search order selects; the returned '
              'tree must mirror the include tree with each file\'s imports; an unreadable name '
              'must raise IOError naming the searched locations with exactly the preceding '
              'statements applied; the multi-file entry point must apply files, then bindings, '
              'then finalize unless told not to; unknown names must raise unless skip_unknown is '
              'passed. Exploration: no counter-example within the generated space, not a proof.')
LEVEL_NOTE = ('Trusted: the 40-line resolution/flattening model, gin.parse_config + config_str on '
              'include-free text as the reference, CPython import machinery for the generated '
              'package. Trees are bounded to 6 files / 3 include levels, 3 added locations and 3 '
              'custom readers.')


# ----------------------------------------------------------------------------- probes (parent)
@gin.configurable('c14_a')
def _probe_a(x=None, y=None):
  return x, y


@gin.configurable('c14_b')
def _probe_b(x=None, y=None):
  return x, y


@gin.configurable('c14_mark')
def _probe_mark(f0=None, f1=None, f2=None, f3=None, f4=None, f5=None):
  return f0, f1, f2, f3, f4, f5


gin.constant('c14.K0', 'constant-0')
gin.constant('c14.K1', 'constant-1')

PROBES = ['c14_a', 'c14_b']
PARAMS = ['x', 'y']
SCOPES = ['', 's/']
# (module, alias): one fixed form per module
MODULES = [('math', None), ('json', 'c14j'), ('string', None), ('collections.abc', None),
           ('os.path', None), ('textwrap', 'c14tw'), ('fractions', None), ('bisect', None)]
UNKNOWN_MODULE = 'c14_no_such_module'
# how skip_unknown is passed; the collections list c14_nosuch (and names never used), not c14_typo
SKIP_VALUES = {'default': False, 'false': False, 'true': True,
               'list': ['c14_nosuch'], 'tuple': ('c14_other', 'c14_nosuch'),
               'set': {'c14_nosuch', 'c14_other'}}
# A namespace package (no __init__.py anywhere) spread over three sys.path entries (tmp/site0..2).
NS_PKG = 'c14ns.cfg'
NS_SITES = 3
MAX_LEVELS = 3

# ----------------------------------------------------------------------------- strategy
_small = st.integers(0, 7)


def _stmt():
  binding = st.tuples(st.just('b'), st.sampled_from([0, 0, 0, 1]), st.sampled_from([0, 0, 1]),
                      st.sampled_from([0, 0, 1])).map(list)
  return st.one_of(
      binding, binding, binding,
      st.just(['k']),
      st.tuples(st.just('m'), st.integers(0, 1)).map(list),
      st.tuples(st.just('u'), st.integers(0, 1), st.integers(0, 1), st.integers(0, 1)).map(list),
      binding,
      st.tuples(st.just('i'), _small).map(list),
      st.tuples(st.just('d'), _small).map(list),
  )


def _file():
  place = st.tuples(st.integers(0, 4), st.integers(0, 5),
                    st.sampled_from([False, False, False, True])).map(list)
  return st.fixed_dictionaries({
      'kind': st.sampled_from(['rel', 'rel', 'sub', 'sub', 'abs', 'abs', 'pkg', 'ns', 'mod']),
      'beside': st.booleans(),
      'parent': st.sampled_from([0, 0, 1, 2, 3]),
      'at': _small,
      'stmts': st.integers(0, 6).flatmap(lambda k: st.lists(_stmt(), min_size=k, max_size=6)),
      'places': st.integers(1, 4).flatmap(lambda k: st.lists(place, min_size=k, max_size=4)),
      'dirs': st.one_of(st.just([]), st.just([]),
                        st.lists(st.sampled_from([0, 0, 1, 2, 3, 4]), min_size=1, max_size=2)),
  })


_unknown = st.fixed_dictionaries({'file': _small, 'at': _small, 'form': st.integers(0, 4)})


def strategy():
  files = st.sampled_from([1, 2, 3, 3, 4, 4, 5, 6]).flatmap(
      lambda n: st.lists(_file(), min_size=n, max_size=n))
  return st.fixed_dictionaries({
      'entry': st.sampled_from(['config', 'file', 'multi']),
      'skip': st.sampled_from(['default', 'default', 'true', 'true', 'false', 'list', 'tuple',
                               'set']),
      'unknown2': st.one_of(st.none(), st.none(), st.none(), _unknown),
      'finalize': st.sampled_from(['default', 'default', 'false', 'true']),
      'roots': st.sampled_from([0, 1, 1, 2, 2, 3]),
      'eform': st.integers(0, 8),
      'argstyle': st.integers(0, 2),
      'clear': st.integers(0, 7),
      'rereg': st.sampled_from([0, 0, 1, 1, 2, 3, 4, 4]),
      'retry': st.one_of(st.none(), st.fixed_dictionaries({'mode': st.integers(0, 1)})),
      'reparse': st.one_of(st.none(), st.fixed_dictionaries(
          {'file': st.sampled_from([0, 0, 0, 1, 2, 3, 4, 5]), 'op': st.sampled_from([0, 0, 1]),
           'pick': _small})),
      'after': st.one_of(st.none(), st.none(), st.fixed_dictionaries({
          'argstyle': st.integers(0, 2),
          'finalize': st.sampled_from(['default', 'default', 'false', 'true']),
          'skip': st.sampled_from(['default', 'true', 'false']),
          'eform': st.integers(0, 8)})),
      'locs': st.lists(st.sampled_from(['abs', 'abs', 'rel', 'abs-path', 'rel-path']),
                       min_size=1, max_size=3),
      'nread': st.integers(1, 3),
      'nspath': st.sampled_from([0, 0, 1, 2]),
      'nsdirs': st.integers(0, 7),
      'files': files,
      'bindings': st.integers(0, 3).flatmap(lambda k: st.lists(
          _stmt().filter(lambda s: s[0] in 'bmuk'), min_size=max(0, k - 1), max_size=3)),
      'missing': st.one_of(st.none(), _small),
      'unknown': st.one_of(st.none(), _unknown),
  })


# ----------------------------------------------------------------------------- model
class _Fault(Exception):

  def __init__(self, kind, where):
    super().__init__(kind)
    self.kind = kind
    self.where = where


def _join(prefix, name):
  """A search location is a path prefix; the empty prefix is the current directory."""
  if not prefix or name.startswith('/'):
    return name
  return prefix.rstrip('/') + '/' + name


class Model:
  """Everything that follows from the case (and the temp dir name) alone."""

  def __init__(self, case, tmp, retry_of=None, mutate=None):
    # retry_of: the kind of fault the first call ran into.  'unknown' -> the same call is repeated
    # with skip_unknown=True; 'missing' -> the unreadable file is created first.
    self.case = case
    self.tmp = tmp
    self.entry = case['entry']
    self.retry_of = retry_of
    self.retry_ok = retry_of is not None
    self.mutate = mutate           # {'file': j, 'op': 0 add an earlier copy | 1 delete the winner}
    self.mutation = None           # the concrete file-system / reader-store action, if possible
    # skip_unknown as passed: True/False, or a list / tuple / set of configurable names
    self.skip_value = True if retry_of == 'unknown' else SKIP_VALUES[case['skip']]
    self.collection = not isinstance(self.skip_value, bool)
    files = case['files']
    n = self.n = len(files)
    self.nroots = min(case['roots'], n) if self.entry == 'multi' else 1
    self.cwd = tmp + '/cwd'
    self.pydir = tmp + '/py'
    # registered prefixes, index 0 = current directory
    self.prefixes = ['']
    for k, form in enumerate(case['locs']):
      self.prefixes.append(f'{tmp}/L{k}' if form.startswith('abs') else f'rel_location_{k}')
    self.unregistered_prefix = tmp + '/LX'
    self.nread = case['nread']
    # names
    self.names = []
    for i, f in enumerate(files):
      base = f'f{i}.gin'
      kind = f['kind']
      if kind == 'rel':
        self.names.append(base)
      elif kind == 'sub':
        self.names.append(('c14sub/deep/' if i % 2 else 'c14sub/') + base)
      elif kind == 'abs':
        self.names.append(f'{tmp}/abs/{base}')
      elif kind == 'ns':
        self.names.append(('c14ns/cfg/' if i % 2 else 'c14ns.cfg/') + base)
      elif kind == 'mod':
        # c14pkg is a regular package, c14pkg.c14mod a plain MODULE (c14mod.py): not a package,
        # so the package reader cannot read this name, although a file f<i>.gin sits next to
        # the module
        self.names.append(('c14pkg.c14mod/' if i % 2 else 'c14pkg/c14mod/') + base)
      else:
        self.names.append('c14pkg.sub/' + base)
    # tree: parents, levels, children
    self.level = [0] * n
    self.children = [[] for _ in range(n)]
    for j in range(max(1, self.nroots), n):    # nroots == 0: no file is passed, none is reached
      cands = [i for i in range(j) if self.level[i] < MAX_LEVELS]
      p = cands[-1 - (files[j]['parent'] % len(cands))]
      self.level[j] = self.level[p] + 1
      self.children[p].append(j)
    self.desc = [set() for _ in range(n)]
    for j in range(n - 1, -1, -1):
      for c in self.children[j]:
        self.desc[j] |= {c} | self.desc[c]
    # per-file item lists: statements + include items + the unknown statement
    self.items = []
    for i, f in enumerate(files):
      items = [list(s) for s in f['stmts']]
      for j in self.children[i]:
        items.insert(files[j]['at'] % (len(items) + 1), ['inc', j])
      self.items.append(items)
    self.binding_items = [list(s) for s in case['bindings']]
    unk = case['unknown']
    if unk is not None:
      if self.entry == 'multi':
        # odd: the extra bindings; even: one of the files
        w = n if unk['file'] % 2 else (unk['file'] // 2) % n
      else:
        w = unk['file'] % n
      target = self.items[w] if w < n else self.binding_items
      target.insert(unk['at'] % (len(target) + 1), ['unk', self._unk_form(unk['form'])])
    unk = case.get('unknown2')
    if unk is not None:             # a second one, in any file reached or not
      target = self.items[unk['file'] % n]
      target.insert(unk['at'] % (len(target) + 1), ['unk', self._unk_form(unk['form'])])
    self.missing = None if case['missing'] is None else case['missing'] % n
    if self.entry == 'config' and self.missing == 0:
      self.missing = None          # the root is a string, not a file
    self._plan()

  def _unk_form(self, form):
    # with a collection of names, unknown IMPORTS are outside this property (C15): use an
    # unlisted configurable instead
    return 3 if form == 2 and not isinstance(SKIP_VALUES[self.case['skip']], bool) else form

  def skips(self, form):
    """Is the unknown-name statement of that form skipped under the skip_unknown passed?"""
    if isinstance(self.skip_value, bool):
      return self.skip_value
    return form in (0, 1)          # names the collection lists; forms 3, 4 are not listed

  # ---- placement ------------------------------------------------------------------------
  def _plan(self):
    self.disk = {}                 # absolute path -> (content, tag)
    self.sysf = {}                 # (dotted package, file name) -> (content, tag)
    self.nsf = {}                  # (portion of NS_PKG, file name) -> (content, tag)
    self.ns_decoys = {}            # (file name) -> content, in a site that is not on sys.path
    self.mod_decoys = {}           # (file name) -> content, next to the module c14pkg/c14mod.py
    self.cust = [dict() for _ in range(self.nread + 1)]   # path -> (content, tag, allowed)
    self.decoys = 0
    nloc = len(self.prefixes) - 1
    for i, f in enumerate(self.case['files']):
      if self.entry == 'config' and i == 0:
        continue
      name = self.names[i]
      for loc, reader, denied in f['places']:
        l = loc % (nloc + 2)
        q = reader % (self.nread + 3)
        if f['kind'] in ('pkg', 'ns') and q in (0, 1):
          q = 1 - q                # package-relative names: the package reader is the usual home
        if f['kind'] == 'mod' and q == 1:
          q = 0                    # no package to put it in
        if f['kind'] == 'ns' and q == 1:
          # a portion of the namespace package: the location coordinate selects the sys.path
          # entry (3 = a site that is not on sys.path); only the bare name reaches the package
          portion = loc % (NS_SITES + 1)
          if i == self.missing:
            portion = NS_SITES
          tag = f'f{i}@ns{portion}'
          content = self._render(i, tag)
          if portion == NS_SITES:
            self.ns_decoys.setdefault(name.rsplit('/', 1)[1], content)
            self.decoys += 1
          else:
            self.nsf.setdefault((portion, name.rsplit('/', 1)[1]), (content, tag))
          continue
        if i == self.missing:      # nobody may be able to read it: keep decoys only
          l = nloc + 1
          denied = True
          if f['kind'] == 'abs' and q < 2:
            continue               # an absolute name has no location to hide a disk file in
        prefix = self.prefixes[l] if l <= nloc else self.unregistered_prefix
        path = _join(prefix, name)
        tag = f'f{i}@{l}.{q}' + ('!' if denied and q >= 2 else '')
        content = self._render(i, tag)
        if q == 1:
          key = self._sys_key(path)
          if key is None:
            q = 0                  # not expressible as package/file: fall back to a disk file
          else:
            self.sysf.setdefault(key, (content, tag))
        if q == 0:
          self.disk.setdefault(self._abs(path), (content, tag))
        elif q >= 2:
          self.cust[q - 2].setdefault(path, (content, tag, not denied))
        if ((l > nloc and f['kind'] != 'abs') or q == self.nread + 2
            or (q >= 2 and denied)):
          self.decoys += 1
      if f['kind'] == 'mod':
        self.mod_decoys[name.rsplit('/', 1)[1]] = self._render(i, f'f{i}@next-to-module')
        self.decoys += 1
      if i != self.missing and not self.candidates(name):
        tag = f'f{i}@fallback'
        content = self._render(i, tag)
        key = self._sys_key(name) if f['kind'] == 'pkg' else None
        if f['kind'] == 'ns':
          # a later portion on purpose: the first portion exists but does not hold the file
          self.nsf[(1 + i % 2, name.rsplit('/', 1)[1])] = (content, tag)
        elif key is not None:
          self.sysf[key] = (content, tag)
        elif (f.get('dirs') and f['kind'] != 'abs') or f['kind'] == 'mod':
          # a directory of that name will sit in an earlier place: keep the file in the last one
          self.disk[self._abs(_join(self.prefixes[nloc], name))] = (content, tag)
        else:
          self.disk[self._abs(name)] = (content, tag)
    # directories carrying the name of a file: nobody can read them, the search goes on
    self.dirs = {}                 # absolute path -> None
    self.dir_locs = {}             # file -> registered location indexes holding such a directory
    for i, f in enumerate(self.case['files']):
      if self.entry == 'config' and i == 0:
        continue
      for loc in f.get('dirs', ()):
        l = loc % (nloc + 2)
        prefix = self.prefixes[l] if l <= nloc else self.unregistered_prefix
        path = self._abs(_join(prefix, self.names[i]))
        if path in self.disk:
          continue
        self.dirs[path] = None
        if l <= nloc:
          self.dir_locs.setdefault(i, set()).add(0 if f['kind'] == 'abs' else l)
    # copies of include targets NEXT TO THE INCLUDING FILE, in a directory that is neither the
    # current directory nor a registered location: never what an include denotes
    self.loc_dirs = {self.cwd} | {os.path.normpath(self._abs(p)) for p in self.prefixes[1:]}
    self.beside = 0
    for i in range(self.n):
      if self.entry == 'config' and i == 0:
        continue
      homes = sorted({os.path.dirname(path) for path, (_, tag) in self.disk.items()
                      if tag.startswith(f'f{i}@') and 'beside' not in tag})
      for home in homes:
        if home in self.loc_dirs:
          continue
        for j in self.children[i]:
          fj = self.case['files'][j]
          if not fj.get('beside') or fj['kind'] == 'abs':
            continue
          path = home + '/' + self.names[j]
          if path in self.disk or path in self.dirs:
            continue
          tag = f'f{j}@beside-includer-f{i}'
          self.disk[path] = (self._render(j, tag), tag)
          self.beside += 1
    if self.mutate is not None:
      self._mutate()
    if self.retry_of == 'missing':
      # the file nobody could read is created (as a plain file in the first location where the
      # name is free) before the call is repeated
      self.retry_ok = False
      i = self.missing
      if i is not None and not self.candidates(self.names[i]):
        spots = [''] if self.case['files'][i]['kind'] == 'abs' else self.prefixes
        for prefix in spots:
          path = self._abs(_join(prefix, self.names[i]))
          if path not in self.dirs and path not in self.disk:
            tag = f'f{i}@created-for-retry'
            self.disk[path] = (self._render(i, tag), tag)
            self.retry_ok = True
            break

  def _mutate(self):
    """Between two parses the places change: a copy (different content) appears in a place that
    is searched before the one that won, or the winning copy disappears."""
    j = self.mutate['file']
    name = self.names[j]
    cands = self.candidates(name)
    if not cands:
      return
    l0, r0, _ = cands[0]
    prefixes = [''] if name.startswith('/') else self.prefixes
    if self.mutate['op'] == 1 and len(cands) >= 2 and r0 != 1:
      path = _join(prefixes[l0], name)
      if r0 == 0:
        del self.disk[self._abs(path)]
        self.mutation = ('remove', self._abs(path))
      else:
        del self.cust[r0 - 2][path]
        self.mutation = ('cust-del', r0 - 2, path)
      return
    spots = []
    for l in range(l0 + 1):
      path = _join(prefixes[l], name)
      for r in [0] + list(range(2, 2 + self.nread)):
        if (l, r) >= (l0, r0):
          continue
        if r == 0 and (self._abs(path) in self.dirs or self._abs(path) in self.disk):
          continue
        if r >= 2 and path in self.cust[r - 2]:
          continue
        spots.append((l, r, path))
    if not spots:
      return
    l, r, path = spots[self.mutate['pick'] % len(spots)]
    tag = f'f{j}@appeared-later@{l}.{r}'
    content = self._render(j, tag)
    if r == 0:
      self.disk[self._abs(path)] = (content, tag)
      self.mutation = ('write', self._abs(path), content)
    else:
      self.cust[r - 2][path] = (content, tag, True)
      self.mutation = ('cust-add', r - 2, path, (content, tag, True))

  def _abs(self, path):
    return path if path.startswith('/') else self.cwd + '/' + path

  @staticmethod
  def _sys_key(path):
    if path.startswith('/') or '/' not in path:
      return None
    head, fname = path.rsplit('/', 1)
    return head.replace('/', '.'), fname

  # ---- resolution: locations in registration order ('' first), readers in order within ----
  def _lookup(self, reader, path):
    if reader == 0:
      e = self.disk.get(self._abs(path))
      return e
    if reader == 1:
      key = self._sys_key(path)
      if key and key[0] == NS_PKG:
        # namespace package: its portions in sys.path order, the first one holding the file
        for portion in range(NS_SITES):
          e = self.nsf.get((portion, key[1]))
          if e is not None:
            return e
        return None
      return self.sysf.get(key) if key else None
    e = self.cust[reader - 2].get(path)
    return (e[0], e[1]) if e is not None and e[2] else None

  def candidates(self, name):
    prefixes = [''] if name.startswith('/') else self.prefixes
    out = []
    for li, prefix in enumerate(prefixes):
      path = _join(prefix, name)
      for reader in range(2 + self.nread):         # registered readers only
        e = self._lookup(reader, path)
        if e is not None:
          out.append((li, reader, e[1]))
    return out

  # ---- rendering ------------------------------------------------------------------------
  def _render_item(self, i, tag, idx, item):
    kind = item[0]
    if kind == 'b':
      return f"{SCOPES[item[1]]}{PROBES[item[2]]}.{PARAMS[item[3]]} = '{tag}#{idx}'"
    if kind == 'k':
      slot = i if isinstance(i, int) else 5
      return f"c14_mark.f{slot} = '{tag}'"
    if kind == 'm':
      return f"C14M{item[1]} = '{tag}#{idx}'"
    if kind == 'u':
      return f'{PROBES[item[1]]}.{PARAMS[item[2]]} = %c14.K{item[3]}'
    if kind == 'i':
      mod, alias = MODULES[item[1] % len(MODULES)]
      return f'import {mod}' + (f' as {alias}' if alias else '')
    if kind == 'inc':
      q = '"' if (idx + item[1]) % 2 else "'"
      return f'include {q}{self.names[item[1]]}{q}'
    if kind == 'unk':
      return ['c14_nosuch.x = 1', 's/c14_nosuch.y = [1, 2]', f'import {UNKNOWN_MODULE}',
              'c14_typo.x = 1', 's/t/c14_typo.rate = 0.5'][item[1]]
    raise AssertionError(item)

  def _effective_items(self, i):
    """Items of file i with 'd' (include child k again) resolved and duplicate imports dropped."""
    out = []
    seen = set()
    for item in self.items[i]:
      if item[0] == 'd':
        ch = self.children[i]
        if not ch:
          continue
        item = ['inc', ch[item[1] % len(ch)]]
      elif item[0] == 'i':
        m = item[1] % len(MODULES)
        if m in seen:
          continue
        seen.add(m)
      out.append(item)
    return out

  def _render(self, i, tag):
    lines = [self._render_item(i, tag, idx, item)
             for idx, item in enumerate(self._effective_items(i))]
    return '\n'.join(lines) + '\n'

  # ---- flattening -----------------------------------------------------------------------
  def flatten(self):
    """Returns (lines, expected trees, fault or None, labels)."""
    self.lines = []
    self.resolved = []
    self.labels = set()
    self.last = {}                 # binding key -> file that bound it last
    self.stack = []
    self.homes = []                # directory of each file being parsed (None: not a disk file)
    self.max_levels = 0
    self.multi_cands = False
    self.boundary_override = False
    trees = []
    fault = None
    try:
      if self.entry == 'config':
        trees.append(self._walk(0, 'root'))
      else:
        for r in range(self.nroots):
          trees.append(self._file(r))
        if self.entry == 'multi':
          self._walk('B', 'B')
    except _Fault as f:
      fault = f
    return self.lines, trees, fault, self.labels

  def _file(self, i):
    cands = self.candidates(self.names[i])
    self.resolved.append((i, cands[0] if cands else None))
    dir_locs = self.dir_locs.get(i, ())
    if dir_locs:
      self.labels.add('dir:name-is-a-directory-somewhere')
      if not cands:
        self.labels.add('dir:and-no-real-file')
      elif any(l < cands[0][0] or (l == cands[0][0] and cands[0][1] > 0) for l in dir_locs):
        self.labels.add('dir:before-real-file')
        self.labels.add('dir:before-real-file,' + ('included' if self.stack else 'direct'))
    # a copy of this include target sits next to the file that includes it?
    if self.homes and self.homes[-1] is not None and (
        self.homes[-1] + '/' + self.names[i]) in self.disk:
      self.labels.add('beside:copy-next-to-includer')
      self.labels.add('beside:copy-next-to-includer,' + ('shadowing' if cands else 'only-copy'))
    if not cands:
      raise _Fault('missing', i)
    l0, r0, tag = cands[0]
    if len(cands) > 1:
      self.multi_cands = True
      self.labels.add('cand:>=2')
      if any(l != l0 for l, _, _ in cands):
        self.labels.add('cand:multi-location')
      if any(r != r0 for _, r, _ in cands):
        self.labels.add('cand:multi-reader')
      if any(l > l0 and r < r0 for l, r, _ in cands):
        self.labels.add('cand:swap-sensitive')
      if l0 == 0 and any(l > 0 for l, _, _ in cands):
        self.labels.add('cand:cwd-first-sensitive')
    self.labels.add(['selected:file-reader', 'selected:package-reader'][r0] if r0 < 2
                    else 'selected:custom-reader')
    if r0 == 1 and l0 == 0 and self.case['files'][i]['kind'] == 'ns':
      fname = self.names[i].rsplit('/', 1)[1]
      holders = [k for k in range(NS_SITES) if (k, fname) in self.nsf]
      self.labels.add('ns:selected-from-namespace-package')
      if holders and holders[0] > 0:
        self.labels.add('ns:file-only-in-later-portion')
      if len(holders) > 1:
        self.labels.add('ns:several-portions-hold-file')
    if l0 > 0:
      self.labels.add('selected:added-location')
    self.labels.add('name:' + self.case['files'][i]['kind'])
    home = None
    if r0 == 0:                    # read from disk by the built-in reader: it has a directory
      prefix = '' if self.names[i].startswith('/') else self.prefixes[l0]
      home = os.path.dirname(self._abs(_join(prefix, self.names[i])))
    self.homes.append(home)
    node = self._walk(i, tag)
    self.homes.pop()
    return node

  def _walk(self, i, tag):
    node = {'name': self.names[i] if isinstance(i, int) else None, 'imports': [], 'includes': []}
    self.stack.append(i)
    self.max_levels = max(self.max_levels, len(self.stack) - 1)
    items = self.binding_items if i == 'B' else self._effective_items(i)
    for idx, item in enumerate(items):
      kind = item[0]
      if kind == 'inc':
        if item[1] in [c['_id'] for c in node['includes']]:
          self.labels.add('include-twice')
        child = self._file(item[1])
        child['_id'] = item[1]
        node['includes'].append(child)
        continue
      if kind == 'unk':
        self.labels.add('unknown:in-included-file' if len(self.stack) > 1 else 'unknown:top')
        if i == 'B':
          self.labels.add('unknown:in-extra-bindings')
          if self.skips(item[1]):
            self.labels.add('unknown:in-extra-bindings,skipped')
        if self.collection:
          where = 'included-file' if len(self.stack) > 1 else 'top'
          self.labels.add(f'unknown:{"listed" if self.skips(item[1]) else "unlisted"}-name,'
                          f'{where}')
          if len(self.stack) > 2:
            self.labels.add(f'unknown:{"listed" if self.skips(item[1]) else "unlisted"}-name,'
                            'included-at-depth>=2')
        if not self.skips(item[1]):
          raise _Fault('unknown', i)
        self.labels.add('unknown:skipped')
      elif kind == 'i':
        node['imports'].append(MODULES[item[1] % len(MODULES)][0])
      elif kind in 'bmu':
        key = ('macro', item[1]) if kind == 'm' else (
            (item[1], item[2], item[3]) if kind == 'b' else (0, item[1], item[2]))
        prev = self.last.get(key)
        if prev is not None and prev != i:
          self.boundary_override = True
          if i == 'B':
            self.labels.add('multi:bindings-override-file')
          elif prev in self.stack:
            self.labels.add('override:included-over-pre-include')
          elif prev in self.desc[i]:
            self.labels.add('override:post-include-over-included')
          else:
            self.labels.add('override:other-file')
        self.last[key] = i
      self.lines.append(self._render_item(i, tag, idx, item))
    self.stack.pop()
    return node


def _known_namespace_dir(case, verdict):
  """Open finding: directory part is a plain dir on sys.path -> TypeError (package reader)."""
  return (bool(case.get('nspath')) and 'TypeError' in verdict.get('detail', '') and
          verdict.get('kind') in ('unexpected-error', 'unreadable-file-wrong-exception'))


KNOWN = {'namespace_dir_on_sys_path': _known_namespace_dir}


# ----------------------------------------------------------------------------- reference side
def _reference(payload):
  """Runs in a fresh fork of the pristine process: parse the flattened text, report config_str."""
  gin.parse_config(payload['text'], skip_unknown=payload['skip'])
  return ok(cs=gin.config_str())


def _strip_imports(cs):
  return '\n'.join(l for l in cs.split('\n')
                   if not (l.startswith('import ') or l.startswith('from '))).strip()


# ----------------------------------------------------------------------------- real side
def _materialise(m):
  os.makedirs(m.cwd)
  os.makedirs(m.pydir)
  os.makedirs(m.tmp + '/abs')
  for prefix in m.prefixes[1:] + [m.unregistered_prefix]:
    os.makedirs(m._abs(prefix), exist_ok=True)    # pylint: disable=protected-access
  for path, (content, _) in m.disk.items():
    os.makedirs(os.path.dirname(path), exist_ok=True)
    with open(path, 'w') as f:
      f.write(content)
  for fname, content in m.mod_decoys.items():
    os.makedirs(m.pydir + '/c14pkg', exist_ok=True)
    for path, text in ((m.pydir + '/c14pkg/__init__.py', ''),
                       (m.pydir + '/c14pkg/c14mod.py', 'VALUE = 1\n'),
                       (m.pydir + '/c14pkg/' + fname, content)):
      with open(path, 'w') as f:
        f.write(text)
  for (pkg, fname), (content, _) in m.sysf.items():
    d = m.pydir
    for part in pkg.split('.'):
      d = d + '/' + part
      os.makedirs(d, exist_ok=True)
      init = d + '/__init__.py'
      if not os.path.exists(init):
        with open(init, 'w') as f:
          f.write('')
    with open(d + '/' + fname, 'w') as f:
      f.write(content)
  for path in m.dirs:
    if not os.path.exists(path):
      os.makedirs(path)
  # the namespace package: plain directories only; `nsdirs` adds portions that hold no file
  nsdir = '/' + NS_PKG.replace('.', '/')
  if any(f['kind'] == 'ns' for f in m.case['files']):
    for k in range(NS_SITES):
      os.makedirs(f'{m.tmp}/site{k}', exist_ok=True)
      if (m.case.get('nsdirs', 7) >> k) & 1:
        os.makedirs(f'{m.tmp}/site{k}{nsdir}', exist_ok=True)
  for (k, fname), (content, _) in m.nsf.items():
    os.makedirs(f'{m.tmp}/site{k}{nsdir}', exist_ok=True)
    with open(f'{m.tmp}/site{k}{nsdir}/{fname}', 'w') as f:
      f.write(content)
    # decoy one directory level up in the same portion: never what the name denotes
    with open(f'{m.tmp}/site{k}/c14ns/{fname}', 'w') as f:
      f.write("c14_mark.f5 = 'decoy-wrong-directory'\nc14_a.x = 'decoy-wrong-directory'\n")
  for fname, content in m.ns_decoys.items():
    os.makedirs(f'{m.tmp}/siteX{nsdir}', exist_ok=True)
    with open(f'{m.tmp}/siteX{nsdir}/{fname}', 'w') as f:
      f.write(content)


def _make_reader(k, store, log):
  def exists(path):
    log.append(('exists', k, path))
    e = store.get(path)
    return e is not None and e[2]

  def reader(path):
    log.append(('open', k, path))
    return io.StringIO(store[path][0])
  return reader, exists


def _check_tree(got, exp, where):
  require(isinstance(got, gin.config.ParsedConfigFileIncludesAndImports), 'tree-node-type',
          lambda: f'{where}: {got!r}')
  require(os.path.basename(str(got.filename)) == os.path.basename(exp['name']), 'tree-filename',
          lambda: f'{where}: node names {got.filename!r}, the file parsed there is {exp["name"]!r}')
  got_imports = sorted(x for x in got.imports if x != UNKNOWN_MODULE)
  require(got_imports == sorted(exp['imports']), 'tree-imports',
          lambda: f'{where} ({exp["name"]}): imports {list(got.imports)}, the file imports '
                  f'{exp["imports"]}')
  require(len(got.includes) == len(exp['includes']), 'tree-shape',
          lambda: f'{where} ({exp["name"]}): {len(got.includes)} children '
                  f'{[c.filename for c in got.includes]}, the file includes '
                  f'{[c["name"] for c in exp["includes"]]}')
  for k, (g, e) in enumerate(zip(got.includes, exp['includes'])):
    _check_tree(g, e, f'{where}/{k}')


def _namespace_dir_consulted(m):
  """Label only: will the package reader be asked about a name whose directory part is a plain
  directory on sys.path (a namespace package)?"""
  for i, winner in m.resolved:
    name = m.names[i]
    if name.startswith('/'):
      continue
    last = len(m.prefixes) - 1 if winner is None else winner[0]
    for li in range(last + 1):
      if winner is not None and li == last and winner[1] == 0:
        continue               # the file reader answers first at the winning location
      key = m._sys_key(_join(m.prefixes[li], name))     # pylint: disable=protected-access
      if key is None:
        continue
      try:
        spec = importlib.util.find_spec(key[0])
      except (ImportError, ValueError):
        continue
      if spec is not None and spec.origin is None:
        return True
  return False


def _skip_arg(skip):
  v = SKIP_VALUES[skip]
  return v if isinstance(v, bool) else type(v)(v)     # a fresh list / tuple / set per call


def _multi_args(fin, skip, style):
  """Arguments after (config_files, bindings) of the multi-file entry point, whose documented
  signature continues (finalize_config=True, skip_unknown=False).  style 0: keywords only;
  1: finalize_config positional (third); 2: finalize_config and skip_unknown positional (third,
  fourth).  'default' = not passed, unless a later positional argument forces the value, in
  which case the documented default is passed explicitly."""
  pos, kw, how = [], {}, []
  skip_pos = style == 2 and skip != 'default'
  if (style and fin != 'default') or skip_pos:
    pos.append(fin != 'false')
    how.append('finalize-positional')
  elif fin != 'default':
    kw['finalize_config'] = fin == 'true'
    how.append('finalize-keyword')
  else:
    how.append('finalize-omitted')
  if skip_pos:
    pos.append(_skip_arg(skip))
    how.append('skip-positional')
  elif skip != 'default':
    kw['skip_unknown'] = _skip_arg(skip)
    how.append('skip-keyword')
  else:
    how.append('skip-omitted')
  if pos[:1] == [False]:
    how.append('finalize-positional-False')
  return pos, kw, how


def _empty_files(eform):
  return [[], None, ()][eform % 3]


def _empty_bindings(eform):
  return [[], None, ''][(eform // 3) % 3]


def _check_refuses_binding(desc, cs):
  """Finalized means locked: a further binding is refused and changes nothing."""
  try:
    gin.bind_parameter('c14_a.x', 'after-finalize')
  except Exception:  # pylint: disable=broad-except
    pass
  else:
    raise Violation('not-finalized', f'{desc}: bind_parameter was accepted after finalization')
  require(gin.config_str() == cs, 'not-finalized',
          lambda: f'{desc}: a refused bind_parameter changed the config')


def _tree_imports_differ(trees):
  seen = []

  def rec(n):
    seen.append(tuple(sorted(n['imports'])))
    for c in n['includes']:
      rec(c)
  for t in trees:
    rec(t)
  return len(set(seen)) > 1 and any(seen)


def check_case(case):
  tmp = os.path.realpath(tempfile.mkdtemp(prefix='c14-'))
  try:
    return _check(case, tmp)
  finally:
    try:
      os.chdir('/')
    except OSError:
      pass
    shutil.rmtree(tmp, ignore_errors=True)


def _make_call(m, case, skip, wrap=False):
  """The entry-point call of the case -> (callable, pos, kw, finalize_requested, labels)."""
  entry = case['entry']
  style = case.get('argstyle', 0)
  labels = set()
  finalize_requested = False
  if entry != 'multi':
    # skip_unknown is the second parameter of parse_config and parse_config_file
    pos, kw = [], {}
    if skip != 'default':
      if style:
        pos = [_skip_arg(skip)]
        labels.add('args:skip-positional')
      else:
        kw['skip_unknown'] = _skip_arg(skip)
  if entry == 'config':
    root_text = m._render(0, 'root')     # pylint: disable=protected-access
    call = lambda: gin.parse_config(root_text, *pos, **kw)
  elif entry == 'file' and wrap:
    # another root reaching the same files: a one-line text including the root file
    call = lambda: gin.parse_config(f"include '{m.names[0]}'\n", *pos, **kw)
  elif entry == 'file':
    call = lambda: gin.parse_config_file(m.names[0], *pos, **kw)
  else:
    pos, kw, how = _multi_args(case['finalize'], skip, style)
    labels.update('args:multi-' + h for h in how)
    finalize_requested = case['finalize'] != 'false'
    # 'default' in labels means: really not passed
    fin_label = 'true' if case['finalize'] == 'default' and pos else case['finalize']
    extra = [m._render_item('B', 'B', idx, item)     # pylint: disable=protected-access
             for idx, item in enumerate(m.binding_items)]
    if not extra:
      if 'eform' in case:
        extra = _empty_bindings(case['eform'])
      elif len(case['files']) % 2:
        extra = None
    roots = [m.names[r] for r in range(m.nroots)]
    if not roots:
      roots = _empty_files(case.get('eform', 0))
    if not roots and not extra:
      labels.add('multi:nothing-to-parse')
      labels.add('multi:nothing-to-parse,finalize-' + fin_label)
    call = lambda: gin.parse_config_files_and_bindings(roots, extra, *pos, **kw)
    labels.add('multi:finalize-' + fin_label)
    labels.add(f'multi:files={m.nroots}')
  return call, pos, kw, finalize_requested, labels


def _reference_cs(text, skip):
  v = iso.run(_reference, {'text': text, 'skip': skip})
  if v.get('status') == 'inconclusive':
    raise OutOfDomain('reference child inconclusive: ' + v.get('reason', ''))
  require(v.get('status') == 'ok', 'reference-parse-failed',
          lambda: f'flattened text did not parse in a pristine process:\n{text}\n{v}')
  return v['info']['cs']


def _check_success(case, entry, got, err, cs, ref_cs, trees, desc, flat_text, finalize_requested,
                   hook_snapshots, calls_before):
  """Everything asserted about a call that the model expects to succeed."""
  require(err is None, 'unexpected-error',
          lambda: f'{desc}: {type(err).__name__}: {err}\nflattened text:\n{flat_text}')
  require(cs == ref_cs, 'config-differs-from-flattened',
          lambda: f'{desc}\n--- got\n{cs}\n--- flattened text\n{flat_text}\n--- its config\n'
                  f'{ref_cs}')
  if entry == 'config':
    includes, imports = got
    root = trees[0]
    got_imports = sorted(x for x in imports if x != UNKNOWN_MODULE)
    require(got_imports == sorted(root['imports']), 'tree-imports',
            lambda: f'parse_config returned imports {imports}, the text imports '
                    f'{root["imports"]}')
    require(len(includes) == len(root['includes']), 'tree-shape',
            lambda: f'parse_config returned {len(includes)} includes, the text has '
                    f'{len(root["includes"])}')
    for k, (g, e) in enumerate(zip(includes, root['includes'])):
      _check_tree(g, e, f'root/{k}')
  elif entry == 'file':
    _check_tree(got, trees[0], 'root')
  else:
    require(isinstance(got, (list, tuple)) and len(got) == len(trees), 'tree-shape',
            lambda: f'multi-file entry point returned {got!r} for {len(trees)} files')
    for k, (g, e) in enumerate(zip(got, trees)):
      _check_tree(g, e, f'file{k}')
    locked = gin.config_is_locked()
    ran = len(hook_snapshots) - calls_before
    if finalize_requested:
      require(locked, 'not-finalized',
              lambda: f'{desc}: finalize_config={case["finalize"]} but the config is not locked')
      require(ran == 1, 'finalize-hook-calls', lambda: f'{desc}: finalize hook ran {ran} times')
      require(hook_snapshots[-1] == cs, 'finalized-before-everything-applied',
              lambda: f'{desc}: config at finalize time\n{hook_snapshots[-1]}\n--- final\n{cs}')
      _check_refuses_binding(desc, cs)
    else:
      require(not locked and not ran, 'finalized-although-told-not-to',
              lambda: f'{desc}: locked={locked} hook calls={ran}')


def _retry(case, m, retry, fault, labels, hook_snapshots):
  """A failed parse, then the parse again: it must behave like a first parse."""
  if retry is None:
    return
  m2 = retry['m']
  for path, (content, _) in m2.disk.items():
    if path not in m.disk:
      os.makedirs(os.path.dirname(path), exist_ok=True)
      with open(path, 'w') as f:
        f.write(content)
  if case.get('clear', 0) & 4:
    gin.clear_config()
    labels.add('clear:between-two-parses')
  entry = case['entry']
  wrap = bool(case['retry'].get('mode')) and entry == 'file'
  skip2 = 'true' if fault.kind == 'unknown' else case['skip']
  call, pos, kw, finalize_requested, _ = _make_call(m2, case, skip2, wrap=wrap)
  what = ('skip_unknown=True' if fault.kind == 'unknown'
          else f'creating {m2.names[m2.missing]!r}')
  desc = (f'after a failed {entry} call, retry with {what}'
          f'{" through a text including the root file" if wrap else ""}: extra positional '
          f'args={pos} kwargs={kw}')
  calls_before = len(hook_snapshots)
  got = err = None
  try:
    got = call()
  except Exception as e:  # pylint: disable=broad-except
    err = e
  cs = gin.config_str()
  fault2 = retry['fault']
  if fault2 is not None:
    # the repetition runs into the next fault (an unknown name further on)
    require(err is not None, 'unknown-name-not-an-error',
            lambda: f'{desc}: expected the next fault ({fault2.kind}) to raise')
    labels.add('retry:next-fault')
    return
  _check_success(case, 'config' if wrap else entry, got, err, cs, retry['ref'],
                 [{'name': None, 'imports': [], 'includes': retry['trees']}] if wrap
                 else retry['trees'],
                 desc, retry['text'], finalize_requested, hook_snapshots, calls_before)
  labels.add('retry:ok')
  labels.add('retry:ok,after-' + fault.kind)
  if wrap:
    labels.add('retry:ok,through-another-root')
  # files that were open (being parsed) when the first call failed and are parsed again now
  w = fault.where
  if fault.kind == 'unknown':
    reopened = isinstance(w, int) and not (entry == 'config' and w == 0)
  else:
    reopened = not (w < m.nroots and entry != 'config') and not (
        entry == 'config' and w in m.children[0])
  if reopened:
    labels.add('retry:ok,reparses-file-open-at-failure')


def _check(case, tmp):
  m = Model(case, tmp)
  lines, trees, fault, labels = m.flatten()
  labels = set(labels)
  entry, skip = case['entry'], case['skip']
  flat_text = '\n'.join(lines) + '\n'

  # ---- reference: a fresh fork of the pristine process parses the flattened text ----------
  ref_cs = None
  if fault is None or fault.kind == 'missing':
    ref_cs = _reference_cs(flat_text, m.skip_value)
  # the failed call is repeated (after creating the file / with skip_unknown=True): what must
  # the repetition yield?  Whatever the failed call applied is a prefix of the same statements,
  # so the result is that of the complete flattened text alone.
  retry = None
  if fault is not None and case.get('retry') is not None:
    m2 = Model(case, tmp, retry_of=fault.kind)
    if m2.retry_ok:
      lines2, trees2, fault2, _ = m2.flatten()
      text2 = '\n'.join(lines2) + '\n'
      retry = {'m': m2, 'trees': trees2, 'fault': fault2, 'text': text2,
               'ref': _reference_cs(text2, m2.skip_value) if fault2 is None else None}
  # a successful call, then the places change, then the same call again: every name is searched
  # afresh in the order registered.  All variants of a file bind the same keys, so the second
  # call leaves the config of ITS flattened text (with or without a clear_config in between).
  reparse = None
  winners = [i for i, w in m.resolved if w is not None]
  if fault is None and case.get('reparse') is not None and winners:
    rp = case['reparse']
    for k in range(len(winners)):          # the first reached file, from the drawn one on, whose
      m3 = Model(case, tmp, mutate={       # places can change that way
          'file': winners[(rp['file'] + k) % len(winners)], 'op': rp['op'], 'pick': rp['pick']})
      if m3.mutation is not None:
        break
    if m3.mutation is not None:
      lines3, trees3, fault3, _ = m3.flatten()
      if fault3 is None:
        text3 = '\n'.join(lines3) + '\n'
        reparse = {'m': m3, 'trees': trees3, 'text': text3,
                   'ref': _reference_cs(text3, m3.skip_value)}

  # ---- real side: materialise, register, call ---------------------------------------------
  _materialise(m)
  os.chdir(m.cwd)
  sys.path[:] = [p for p in sys.path if p not in ('', '.')]
  sys.path.insert(0, m.pydir)
  sys.path[1:1] = [f'{m.tmp}/site{k}' for k in range(NS_SITES)]
  nspath = case.get('nspath', 0)
  if nspath == 1:
    # the current directory on the Python path (interactive session, `python script.py`): every
    # plain directory below it is a namespace package
    sys.path.insert(1, '')
    labels.add('nspath:cwd-on-sys.path')
  elif nspath == 2:
    # plain directories (no __init__.py) on the Python path named like the directory part of
    # the generated names; they never contain the file
    for i, name in enumerate(m.names):
      for prefix in m.prefixes:
        key = m._sys_key(_join(prefix, name))     # pylint: disable=protected-access
        if key is not None:
          os.makedirs(m.pydir + '/' + key[0].replace('.', '/'), exist_ok=True)
    labels.add('nspath:plain-dirs-on-sys.path')
  importlib.invalidate_caches()
  if nspath and _namespace_dir_consulted(m):
    labels.add('nspath:namespace-dir-consulted')
  clear = case.get('clear', 0)
  for k, prefix in enumerate(m.prefixes[1:]):
    if case['locs'][k].endswith('-path'):
      prefix = pathlib.Path(prefix)      # a location may be given as a path object
      labels.add('location:pathlib.Path')
    if k % 2:
      gin.config.add_config_file_search_path(prefix)
    else:
      gin.add_config_file_search_path(prefix)
    if k == 0 and clear & 1:
      # clear_config resets the configuration, not where config files are looked for
      gin.clear_config()
      labels.add('clear:after-first-location' + (',more-follow' if len(m.prefixes) > 2 else ''))
  log = []
  registered = []
  for k in range(m.nread):
    reader, exists = _make_reader(k, m.cust[k], log)
    registered.append((reader, exists))
    if k % 2:
      gin.config.register_file_reader(exists)(reader)      # decorator form
    else:
      gin.config.register_file_reader(reader, exists)
  # a reader that is already registered is registered a second time, after the others: its place
  # in the order is that of its first registration
  rereg = case.get('rereg', 0)
  rereg_reader = None
  if rereg == 4:
    from gin import resource_reader     # pylint: disable=g-import-not-at-top
    gin.config.register_file_reader(resource_reader.system_path_reader,
                                    resource_reader.system_path_file_exists)
    rereg_reader = 1
    labels.add('rereg:package-reader')
  elif rereg:
    k = (rereg - 1) % m.nread
    reader, exists = registered[k]
    if rereg % 2:
      gin.config.register_file_reader(reader, exists)
    else:
      gin.config.register_file_reader(exists)(reader)
    rereg_reader = 2 + k
    labels.add('rereg:custom-reader' + (',others-registered-in-between' if k < m.nread - 1
                                        else ''))
  if rereg_reader is not None:
    for i, winner in m.resolved:
      if winner is not None and winner[1] == rereg_reader and any(
          l == winner[0] and r > winner[1] for l, r, _ in m.candidates(m.names[i])):
        labels.add('rereg:order-sensitive')
  hook_snapshots = []

  def hook(config):
    del config
    hook_snapshots.append(gin.config_str())
    return None
  gin.config.register_finalize_hook(hook)
  if clear & 2:
    gin.clear_config()
    labels.add('clear:after-all-registrations')

  call, pos, kw, finalize_requested, call_labels = _make_call(m, case, skip)
  labels.update(call_labels)
  got = None
  err = None
  try:
    got = call()
  except Exception as e:  # pylint: disable=broad-except
    err = e
  cs = gin.config_str()
  desc = f'entry={entry} skip_unknown={skip} extra positional args={pos} kwargs={kw}'

  labels.add('entry:' + entry)
  labels.add('skip:' + skip)
  labels.add(f'levels={m.max_levels}')
  if m.max_levels >= 2:
    labels.add('levels>=2')
  if m.decoys:
    labels.add('decoy-present')
  if any(form.startswith('rel') for form in case['locs']):
    labels.add('location:relative-prefix')

  # a custom reader may only be used where its own predicate says yes; an absolute name is
  # never looked up under any other path
  abs_names = [m.names[i] for i, f in enumerate(case['files']) if f['kind'] == 'abs']
  for what, k, path in log:
    if what == 'open':
      e = m.cust[k].get(path)
      require(e is not None and e[2], 'reader-used-against-its-predicate',
              lambda: f'custom reader {k} was asked to open {path!r} which its predicate denies')
    for a in abs_names:
      require(path == a or os.path.basename(path) != os.path.basename(a),
              'absolute-name-searched-through-locations',
              lambda: f'reader {k} was asked about {path!r} for absolute name {a!r}')

  # ---- unknown name, skip_unknown not passed: must raise ------------------------------------
  if fault is not None and fault.kind == 'unknown':
    require(err is not None, 'unknown-name-not-an-error',
            lambda: f'{desc}: a statement on an unknown name (in {fault.where}) did not raise; '
                    f'flattened text so far:\n{flat_text}')
    labels.add('outcome:unknown-raised')
    if 'skip_unknown' not in kw and len(pos) < (2 if entry == 'multi' else 1):
      labels.add('default-skip-with-unknown:' + entry)
    elif len(pos) >= (2 if entry == 'multi' else 1):
      labels.add('positional-skip-false-with-unknown:' + entry)
    _retry(case, m, retry, fault, labels, hook_snapshots)
    return ok(labels, False)

  # ---- a name nobody can read -----------------------------------------------------------------
  if fault is not None:
    name = m.names[fault.where]
    kind = case['files'][fault.where]['kind']
    require(err is not None, 'unreadable-file-no-error',
            lambda: f'{desc}: {name!r} is readable by nobody, but no error was raised')
    require(isinstance(err, OSError), 'unreadable-file-wrong-exception',
            lambda: f'{desc}: {name!r}: {type(err).__mro__}: {err}')
    msg = str(err)
    direct = fault.where < m.nroots and entry != 'config'
    if kind == 'abs':
      if direct:
        for prefix in m.prefixes[1:]:
          require(prefix not in msg, 'ioerror-names-bypassed-location',
                  lambda: f'absolute name {name!r}: search locations are bypassed, yet the '
                          f'error names {prefix!r}: {msg}')
        labels.add('missing:abs-direct')
    else:
      for prefix in m.prefixes[1:]:
        require(prefix in msg, 'ioerror-does-not-name-location',
                lambda: f'{name!r} searched in {m.prefixes} but the error text lacks '
                        f'{prefix!r}: {msg}')
    require(_strip_imports(cs) == _strip_imports(ref_cs), 'partial-application',
            lambda: f'{desc}: after IOError on {name!r} the config differs from the statements '
                    f'preceding it.\n--- got\n{cs}\n--- flattened prefix\n{flat_text}\n'
                    f'--- its config\n{ref_cs}')
    labels.add('outcome:ioerror')
    labels.add('missing:' + kind)
    labels.add('missing:direct' if direct else 'missing:via-include')
    if lines:
      labels.add('missing:after-applied-statements')
    nt = (m.max_levels >= 2 and m.boundary_override) or m.multi_cands
    if nt:
      labels.add('nontrivial')
    _retry(case, m, retry, fault, labels, hook_snapshots)
    return ok(labels, nt)

  # ---- success path -------------------------------------------------------------------------
  _check_success(case, entry, got, err, cs, ref_cs, trees, desc, flat_text, finalize_requested,
                 hook_snapshots, 0)
  # ---- the places change, then the same call again -----------------------------------------
  if reparse is not None and (clear & 4 or not gin.config_is_locked()):
    m3 = reparse['m']
    action = m3.mutation
    if action[0] == 'write':
      os.makedirs(os.path.dirname(action[1]), exist_ok=True)
      with open(action[1], 'w') as f:
        f.write(action[2])
    elif action[0] == 'remove':
      os.remove(action[1])
    elif action[0] == 'cust-add':
      m.cust[action[1]][action[2]] = action[3]
    else:
      del m.cust[action[1]][action[2]]
    if clear & 4:
      gin.clear_config()
      labels.add('clear:between-two-parses')
    call3, pos3, kw3, fin3, _ = _make_call(m3, case, skip)
    j = m3.mutate['file']
    desc3 = (f'{desc}; then {action[0]} {action[1:3]!r} for {m3.names[j]!r}'
             f'{", clear_config()" if clear & 4 else ""} and the same call again')
    calls_before = len(hook_snapshots)
    got3 = err3 = None
    try:
      got3 = call3()
    except Exception as e:  # pylint: disable=broad-except
      err3 = e
    cs = gin.config_str()
    desc = desc3
    _check_success(case, entry, got3, err3, cs, reparse['ref'], reparse['trees'],
                   desc3, reparse['text'], fin3, hook_snapshots, calls_before)
    what = 'earlier-copy-appeared' if action[0] in ('write', 'cust-add') else 'winner-deleted'
    labels.add('reparse:' + what)
    labels.add(f'reparse:{what},' + ('direct' if j < m.nroots and entry != 'config'
                                     else 'included'))
    labels.add(f'reparse:{what},entry-{entry}')
    if clear & 4:
      labels.add(f'reparse:{what},after-clear_config')
  after = case.get('after')
  # ---- later in the same process: the multi-file entry point with nothing to parse ----------
  if after is not None and not gin.config_is_locked():
    apos, akw, how = _multi_args(after['finalize'], after['skip'], after.get('argstyle', 0))
    labels.update('args:multi-' + h for h in how)
    a_files, a_bindings = _empty_files(after['eform']), _empty_bindings(after['eform'])
    adesc = (f'{desc}, then parse_config_files_and_bindings({a_files!r}, {a_bindings!r}, '
             f'*{apos}, **{akw})')
    calls_before = len(hook_snapshots)
    try:
      a_got = gin.parse_config_files_and_bindings(a_files, a_bindings, *apos, **akw)
    except Exception as e:  # pylint: disable=broad-except
      raise Violation('unexpected-error', f'{adesc}: {type(e).__name__}: {e}')
    require(isinstance(a_got, (list, tuple)) and not a_got, 'tree-shape',
            lambda: f'{adesc} returned {a_got!r}')
    require(gin.config_str() == cs, 'config-differs-from-flattened',
            lambda: f'{adesc} changed the config:\n{gin.config_str()}\n--- before\n{cs}')
    ran = len(hook_snapshots) - calls_before
    if after['finalize'] != 'false':
      require(gin.config_is_locked(), 'not-finalized',
              lambda: f'{adesc}: the config is not locked')
      require(ran == 1, 'finalize-hook-calls', lambda: f'{adesc}: finalize hook ran {ran} times')
      require(hook_snapshots[-1] == cs, 'finalized-before-everything-applied',
              lambda: f'{adesc}: config at finalize time\n{hook_snapshots[-1]}\n--- final\n{cs}')
      _check_refuses_binding(adesc, cs)
    else:
      require(not gin.config_is_locked() and ran == 0, 'finalized-although-told-not-to',
              lambda: f'{adesc}: locked={gin.config_is_locked()} hook calls={ran}')
    labels.add('after:nothing-to-parse')
    labels.add('after:nothing-to-parse,finalize-' +
               ('true' if after['finalize'] == 'default' and apos else after['finalize']))
  if _tree_imports_differ(trees):
    labels.add('tree:imports-differ')
  labels.add('outcome:ok')
  nt = (m.max_levels >= 2 and m.boundary_override) or m.multi_cands
  if nt:
    labels.add('nontrivial')
  return ok(labels, nt)
