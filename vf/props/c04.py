"""C04 — references deliver the configurable or a fresh result, in the right scope.

Case: a consumer probe whose three parameters are bound (through parse_config text) to containers
holding `@p`, `@p()`, `@s/p`, `@s/t/p()` leaves at depth 0-3; two producer configurables that
return a fresh mutable record (who, call index, active scope, received value) with their own
bindings under several scopes; an ambient scope; a history of consumer calls, each choosing per
parameter omitted / positional / keyword / REQUIRED, followed by mutation of everything received.
"""
import contextlib
import copy

from hypothesis import strategies as st

from vf import ginenv
from vf.core import OutOfDomain, Violation, ok, require
from vf.gen import signatures as G
from vf.model import bindings as M

gin = ginenv.import_gin()

ID = 'C04'
LEVEL = 'exploration'
ISOLATE = True
BUDGET = {'quick': (16, 120), 'thorough': (16, 3000)}
RULE = ('consumer (function or class, any registration API) with 3 defaulted parameters bound to '
        'value trees (lists/tuples/dicts, depth<=3) whose leaves are literals or references '
        '(@p, @p(), scoped with 1-2 scope components) to two producers; producer bindings under '
        '{root, s, s/t, x}; ambient scope in {[], s, x, s/t, t}; 1-4 consumer calls, each '
        'parameter omitted / positional / keyword / REQUIRED, then mutation of all received '
        'containers and produced objects. Non-trivial = an evaluated leaf at depth>=2, a scoped '
        'leaf with non-empty ambient scope, a caller override of a parameter bound to an '
        'evaluated reference, and a mutation followed by another call. Distinct = distinct JSON.')
ASSUMPTIONS = ['unevaluated references are compared by behaviour (and by identity with the '
               'registered configurable when unscoped)',
               'produced objects are identified by the call index the producer recorded']
FLOORS = {'nontrivial': 0.05, 'leaf:evaluated-deep': 0.2, 'leaf:scoped-under-ambient': 0.2,
          'override:kw-evaluated': 0.1, 'override:pos-evaluated': 0.05, 'mutation-then-call': 0.2}
TECHNIQUE = ('model-based property testing over call histories: structural oracle for delivered '
             'reference trees, producer call counting, scope observation, and a mutate-then-call '
             'metamorphic check')
LEVEL_TEXT = ('For generated reference trees and call histories every delivered value is checked '
              'structurally (configurable vs fresh result, exact scope), the number of producer '
              'runs per consumer call equals the number of evaluated leaves Gin had to supply '
              '(zero for caller-supplied parameters), and mutation of received values never '
              'changes later calls, queries or config strings. Exploration.')
LEVEL_NOTE = 'Trusted: the probe generator; the 20-line tree walker that states the expectation.'

PARAMS = G.DFLT            # consumer parameters (defaulted): v, e, q
PRODUCERS = ['prodA', 'prodB']
REQ = '<<REQUIRED>>'


def render(v):
  k = v[0]
  if k == 'lit':
    return repr(v[1])
  if k == 'ref':
    return '@' + (v[1] + '/' if v[1] else '') + v[2] + ('()' if v[3] else '')
  if k == 'list':
    return '[' + ', '.join(render(x) for x in v[1]) + ']'
  if k == 'tuple':
    return '(' + ', '.join(render(x) for x in v[1]) + (',' if len(v[1]) == 1 else '') + ')'
  if k == 'dict':
    # keys are plain strings or (uncalled) references: `{@prodA: 1, 'k': 2}`
    return '{' + ', '.join(f'{render(key) if isinstance(key, list) else repr(key)}: {render(x)}'
                           for key, x in v[1]) + '}'
  raise ValueError(v)


def leaves(v, depth=0):
  if v[0] == 'ref':
    yield v, depth
  elif v[0] in ('list', 'tuple'):
    for x in v[1]:
      yield from leaves(x, depth + 1)
  elif v[0] == 'dict':
    for key, x in v[1]:
      if isinstance(key, list):
        yield key, depth + 1
      yield from leaves(x, depth + 1)


class _BaseExit(BaseException):
  pass


def _base_exit():
  raise _BaseExit()


def check_case(case):
  labels = set()
  cshape = {'pos': [], 'dflt': list(PARAMS), 'varargs': False, 'kwonly': [], 'kwdflt': [],
            'varkw': False, 'kind': case['consumer_kind'], 'api': case['consumer_api'],
            'name': 'cons'}
  if (case.get('consumer_bases') and case['consumer_kind'] == 'class_init' and
      case['consumer_api'] == 'configurable'):
    # the consumer class inherits its constructor through one or two configurable base classes
    cshape['configurable_base'] = case['consumer_bases']
    labels.add('consumer-constructor-inherited-from-configurable-base')
  lead = bool(case.get('posonly_lead')) and case['consumer_kind'] == 'function'
  if lead:
    # def cons(lead, /, a=..., b=..., ...): every call passes `lead` by position; the positional
    # arguments after it still fill a, b, ... in order
    cshape['pos'], cshape['posonly_pos'] = ['lead'], 1
    labels.add('consumer-with-positional-only-first-parameter')
  cons = G.build(cshape, gin)
  if case.get('base_exit'):
    gin.external_configurable(_base_exit, 'c04base_exit', module='c04x')
  prods = {}
  gen_prod = case.get('generator_producer')

  def build_producer(name, api):
    return G.build({'pos': [], 'dflt': ['v'], 'varargs': False, 'kwonly': [], 'kwdflt': [],
                    'varkw': False, 'kind': 'function', 'api': api, 'name': name,
                    'generator': name == gen_prod,
                    'module': 'c04producers', 'mutate_scope': bool(case.get('mutate_scope'))}, gin)

  for name, api in zip(PRODUCERS, case['producer_apis']):
    prods[name] = build_producer(name, api)
  pmodel = {name: {} for name in PRODUCERS}
  lines = []
  for name, scope, value in case['producer_bindings']:
    lines.append(f"{scope + '/' if scope else ''}{name}.v = {value!r}")
    pmodel[name][(scope, 'v')] = value
  bound = {}
  for param, tree in case['consumer_bindings']:
    lines.append(f'cons.{param} = {render(tree)}')
    bound[param] = tree
  # the text may be parsed while some config scope is active: that scope has nothing to do with
  # the scope a reference runs under later ("the scope active at the consuming call")
  with gin.config_scope(case.get('parse_scope') or None):
    if case.get('skip_unknown'):
      # every name in the text is known: skip_unknown, in any form, changes nothing
      gin.parse_config('\n'.join(lines), skip_unknown={1: True, 2: ['nosuch'], 3: ('cons',)}[
          case['skip_unknown']])
      labels.add('parsed-with-skip_unknown')
    else:
      gin.parse_config('\n'.join(lines))
  if case.get('parse_scope'):
    labels.add('parsed-inside-a-scope')
  if case.get('finalize'):
    # a finalized (locked) configuration delivers references exactly like an unlocked one
    gin.finalize()
    labels.add('finalized-before-the-calls')
  ambient = case['ambient']

  def total_log():
    return sum(len(p.log) for p in prods.values())

  def drive(obj, name, where):
    """A generator-function producer delivers a generator: iterate it, as a consumer would. While
    it is suspended, and after it is exhausted, this thread's scope is what it was."""
    if name != gen_prod:
      return obj
    import inspect  # pylint: disable=g-import-not-at-top
    require(inspect.isgenerator(obj), 'generator-configurable-did-not-return-a-generator',
            lambda: f'{where}: {obj!r}')
    scope_now = gin.current_scope()
    first = next(obj)
    require(gin.current_scope() == scope_now, 'scope-changed-while-generator-suspended',
            lambda: f'{where}: {gin.current_scope()} vs {scope_now}')
    rest = list(obj)
    require(rest == [] and gin.current_scope() == scope_now, 'scope-changed-after-generator',
            lambda: f'{where}: rest={rest} scope={gin.current_scope()} vs {scope_now}')
    labels.add('generator-producer-iterated')
    return first

  def produced_ok(obj, ref, floor, where):
    _, rscope, name, _ = ref
    obj = drive(obj, name, where)
    require(isinstance(obj, dict) and 'named' in obj and 'n' in obj, 'not-a-produced-object',
            lambda: f'{where}: {obj!r}')
    exp_scope = rscope if rscope else '/'.join(ambient)
    # (the body of a generator function runs when it is iterated, i.e. here, under this scope;
    # what it was *given* is decided by the scope of the call, checked below)
    require(name == gen_prod or obj['scope'] == exp_scope, 'reference-scope',
            lambda: f'{where}: {render(ref)} ran under {obj["scope"]!r}, expected {exp_scope!r} '
                    f'(ambient {ambient})')
    who = prods[name]
    require(any(obj is rec for rec in who.log), 'produced-by-wrong-configurable',
            lambda: f'{where}: {obj!r} is not in the log of {name}')
    if floor is not None:
      require(obj['n'] >= floor[name], 'stale-result',
              lambda: f'{where}: {render(ref)} delivered a result made before this call '
                      f'(n={obj["n"]}, log had {floor[name]})')
    exp_v = M.overlay(pmodel[name], exp_scope.split('/') if exp_scope else []).get('v', 'D:v')
    require(obj['named']['v'] == exp_v, 'producer-arguments',
            lambda: f'{where}: {render(ref)} got v={obj["named"]["v"]!r}, expected {exp_v!r}')

  def walk(r, v, floor, where, seen):
    k = v[0]
    if k == 'lit':
      require(type(r) is type(v[1]) and r == v[1], 'literal-differs',
              lambda: f'{where}: {r!r} vs {v[1]!r}')
    elif k == 'ref':
      if v[3]:
        produced_ok(r, v, floor, where)
        require(id(r) not in seen, 'result-shared-between-leaves', where)
        seen.add(id(r))
      else:
        require(callable(r), 'uncalled-reference-not-callable', lambda: f'{where}: {r!r}')
        if not v[1]:
          require(r is prods[v[2]].configurable_obj, 'not-the-configurable-itself',
                  lambda: f'{where}: {r!r} is not the registered configurable of {v[2]}')
        out = r()
        produced_ok(out, v, None, where + '()')
    elif k in ('list', 'tuple'):
      require(type(r) is (list if k == 'list' else tuple) and len(r) == len(v[1]),
              'container-differs', lambda: f'{where}: {r!r} vs {render(v)}')
      for i, (ri, vi) in enumerate(zip(r, v[1])):
        walk(ri, vi, floor, f'{where}[{i}]', seen)
    elif k == 'dict':
      require(type(r) is dict and len(r) == len(v[1]), 'container-differs',
              lambda: f'{where}: {r!r} vs {render(v)}')
      for (rk, rv), (key, vi) in zip(r.items(), v[1]):
        if isinstance(key, list):
          # a reference in key position is delivered like any other: the configurable itself
          labels.add('reference-as-dict-key')
          walk(rk, key, floor, f'{where}.key({render(key)})', seen)
        else:
          require(rk == key, 'container-differs', lambda: f'{where}: {r!r} vs {render(v)}')
        walk(rv, vi, floor, f'{where}[{key!r}]', seen)

  def mutate(r):
    if isinstance(r, list):
      for x in list(r):
        mutate(x)
      r.append('MUTATED')
    elif isinstance(r, dict):
      for x in list(r.values()):
        mutate(x)
      r['MUTATED'] = True
    elif isinstance(r, tuple):
      for x in r:
        mutate(x)

  def stored_repr():
    out = []
    for param in sorted(bound):
      out.append(repr(gin.query_parameter(f'cons.{param}')))
    return out

  with contextlib.ExitStack() as es:
    if ambient:
      es.enter_context(gin.config_scope('/'.join(ambient)))
    if case.get('base_exit'):
      # a scoped configurable (the wrapper scoped references use) left by something that is not an
      # Exception, which the caller handles: the scope it ran under is left again, so what follows
      # runs under the scope active here
      for _ in range(2):
        try:
          gin.get_configurable('leaked/c04x.c04base_exit')()
        except _BaseExit:
          pass
      require(gin.current_scope() == list(ambient), 'scope-left-behind-by-scoped-configurable',
              lambda: f'after a scoped configurable raised a BaseException: '
                      f'{gin.current_scope()} (ambient {ambient})')
      labels.add('scoped-configurable-left-by-baseexception')
    cfg0, stored0 = gin.config_str(), stored_repr()
    mutated_before = False
    for ci, call in enumerate(case['calls']):
      if call.get('rebind'):
        # the binding of one parameter is replaced between two calls: the next call must deliver
        # the new tree (nothing about the old one may be remembered)
        param, tree = call['rebind']
        lines.append(f'cons.{param} = {render(tree)}')
        with gin.unlock_config():
          gin.parse_config(lines[-1])
        bound[param] = tree
        cfg0, stored0 = gin.config_str(), stored_repr()
        labels.add('rebind-between-calls')
      if call.get('reregister') is not None:
        # a producer is defined again under the same name (interactive mode: a notebook cell run
        # twice) and the config text is parsed again: every reference, scoped or not, now denotes
        # the configurable the name stands for *now*
        name = PRODUCERS[call['reregister'] % len(PRODUCERS)]
        api = case['producer_apis'][call['reregister'] % len(PRODUCERS)]
        with gin.unlock_config():
          with gin.config.interactive_mode(), gin.config_scope(None):
            prods[name] = build_producer(name, api)
          gin.parse_config('\n'.join(lines))
        cfg0, stored0 = gin.config_str(), stored_repr()
        labels.add('producer-registered-again-then-reparse')
      args, kwargs, supplied = [], {}, {}
      for i, param in enumerate(PARAMS):
        how = call['how'][i]
        if how in ('pos', 'req_pos') and len(args) == i:
          args.append(gin.REQUIRED if how == 'req_pos' else 'CALLER:' + param)
          supplied[param] = how
        elif how in ('kw', 'req_kw'):
          kwargs[param] = gin.REQUIRED if how == 'req_kw' else 'CALLER:' + param
          supplied[param] = how
        elif how in ('pos', 'req_pos'):
          supplied[param] = 'omit'     # positional gap: treated as omitted
        else:
          supplied[param] = 'omit'
      if lead:
        args.insert(0, 'CALLER:lead')
      by_gin = [p for p in PARAMS if supplied[p] in ('omit', 'req_pos', 'req_kw')]
      unbound_required = [p for p in PARAMS if supplied[p].startswith('req') and p not in bound]
      floor = {name: len(p.log) for name, p in prods.items()}
      before_total = total_log()
      if unbound_required:
        try:
          cons.call(args, kwargs)
          raise Violation('required-without-binding-accepted', str(unbound_required))
        except RuntimeError:
          labels.add('call:required-missing')
        continue
      rec = cons.call(args, kwargs)
      grew = total_log() - before_total
      expected_runs = sum(1 for p in by_gin if p in bound
                          for leaf, _ in leaves(bound[p]) if leaf[3] and leaf[2] != gen_prod)
      overridden_evaluated = [p for p in PARAMS if p not in by_gin and p in bound and
                              any(leaf[3] for leaf, _ in leaves(bound[p]))]
      for p in overridden_evaluated:
        labels.add('override:' + ('kw' if supplied[p] == 'kw' else 'pos') + '-evaluated')
      require(grew == expected_runs, 'producer-run-count',
              lambda: f'call {ci}: producers ran {grew} times, expected {expected_runs}; '
                      f'supplied={supplied} caller-supplied params bound to evaluated '
                      f'references: {overridden_evaluated}')
      seen = set()
      for param in PARAMS:
        r = rec['named'][param]
        if param not in by_gin:
          require(r == 'CALLER:' + param, 'caller-value-not-delivered',
                  lambda: f'{param}: {r!r}')
        elif param in bound:
          walk(r, bound[param], floor, f'call{ci}.{param}', seen)
        else:
          require(r == 'D:' + param, 'default-not-delivered', lambda: f'{param}: {r!r}')
      if mutated_before:
        labels.add('mutation-then-call')
      if call['mutate']:
        for param in by_gin:
          if param in bound:
            mutate(rec['named'][param])
        mutated_before = True
        require(gin.config_str() == cfg0, 'mutation-changed-config_str', '')
        require(stored_repr() == stored0, 'mutation-changed-stored-values',
                lambda: f'{stored_repr()} vs {stored0}')
      labels.add('call:ok')
  for param, tree in bound.items():
    for leaf, depth in leaves(tree):
      depth += 1
      if leaf[3] and depth >= 2:
        labels.add('leaf:evaluated-deep')
      if leaf[1] and ambient:
        labels.add('leaf:scoped-under-ambient')
      labels.add('leaf:' + ('evaluated' if leaf[3] else 'uncalled') +
                 (':scoped' if leaf[1] else ''))
  nt = ({'leaf:evaluated-deep', 'leaf:scoped-under-ambient', 'mutation-then-call'} <= labels and
        bool(labels & {'override:kw-evaluated', 'override:pos-evaluated'}))
  if nt:
    labels.add('nontrivial')
  return ok(labels, nt)


# ------------------------------------------------------------------------------ strategies
REF_SCOPES = ['', '', 's', 's/t', 'x', 't']


def _tree(depth):
  leaf = st.one_of(
      st.sampled_from([1, 'lit', None, 2.5]).map(lambda x: ['lit', x]),
      st.tuples(st.sampled_from(REF_SCOPES), st.sampled_from(PRODUCERS), st.booleans()).map(
          lambda t: ['ref', t[0], t[1], t[2]]),
      st.tuples(st.sampled_from(REF_SCOPES), st.sampled_from(PRODUCERS), st.just(True)).map(
          lambda t: ['ref', t[0], t[1], t[2]]))
  if depth <= 0:
    return leaf
  sub = _tree(depth - 1)
  return st.one_of(
      leaf,
      st.lists(sub, min_size=1, max_size=3).map(lambda xs: ['list', xs]),
      st.lists(sub, max_size=3).map(lambda xs: ['tuple', xs]),
      st.lists(sub, min_size=1, max_size=2).map(lambda xs: ['list', xs]),
      st.lists(st.tuples(st.sampled_from(['k1', 'k2', 'k3']), sub).map(list), min_size=1,
               max_size=3, unique_by=lambda kv: kv[0]).map(lambda xs: ['dict', xs]),
      st.lists(st.tuples(
          st.sampled_from(['k1', 'k2']) |
          st.tuples(st.sampled_from(REF_SCOPES), st.sampled_from(PRODUCERS)).map(
              lambda t: ['ref', t[0], t[1], False]), sub).map(list),
               min_size=1, max_size=3, unique_by=lambda kv: repr(kv[0])).map(
                   lambda xs: ['dict', xs]))


@st.composite
def strategy(draw):
  params = draw(st.lists(st.sampled_from(PARAMS), unique=True, min_size=1))
  calls = []
  for _ in range(draw(st.integers(1, 4))):
    n_pos = draw(st.sampled_from([0, 0, 1, 1, 2, 3]))
    how = [draw(st.sampled_from(['pos', 'pos', 'req_pos'])) for _ in range(n_pos)]
    how += [draw(st.sampled_from(['omit', 'omit', 'kw', 'kw', 'req_kw']))
            for _ in range(len(PARAMS) - n_pos)]
    rebind = None
    if calls and draw(st.integers(0, 3)) == 0:
      rebind = [draw(st.sampled_from(PARAMS)), draw(_tree(2))]
    calls.append({'rebind': rebind, 'how': how,
                  'reregister': (draw(st.integers(0, len(PRODUCERS) - 1))
                                 if calls and draw(st.integers(0, 3)) == 0 else None),
                  'mutate': draw(st.booleans()) or draw(st.booleans())})
  return {
      'skip_unknown': draw(st.sampled_from([0, 0, 1, 2, 3])),
      'finalize': draw(st.integers(0, 2)) == 0,
      'generator_producer': draw(st.sampled_from([None, None, None] + PRODUCERS)),
      'consumer_kind': draw(st.sampled_from(['function', 'function', 'class_init'])),
      'consumer_api': draw(st.sampled_from(['configurable', 'register', 'external'])),
      'posonly_lead': draw(st.integers(0, 3)) == 0,
      'base_exit': draw(st.integers(0, 3)) == 0,
      'consumer_bases': draw(st.sampled_from([0, 0, 1, 2])),
      'producer_apis': [draw(st.sampled_from(['configurable', 'register', 'external']))
                        for _ in PRODUCERS],
      'producer_bindings': draw(st.lists(
          st.tuples(st.sampled_from(PRODUCERS), st.sampled_from(['', 's', 's/t', 'x']),
                    st.sampled_from(['r', 'in-s', 'in-st', 'in-x'])).map(list),
          max_size=5, unique_by=lambda b: (b[0], b[1]))),
      'consumer_bindings': [[p, draw(_tree(3))] for p in params],
      'ambient': draw(st.sampled_from([[], ['s'], ['x'], ['s', 't'], ['t']])),
      'parse_scope': draw(st.sampled_from(['', '', 'setup', 's', 'x/y'])),
      'mutate_scope': draw(st.booleans()),
      'calls': calls,
  }
