"""Probe configurables generated from a signature *shape*.

shape = {'pos': [...], 'dflt': [...], 'varargs': bool, 'kwonly': [...], 'kwdflt': [...],
         'varkw': bool, 'kind': 'function'|'class_init'|'class_new'|'method',
         'api': 'configurable'|'register'|'external', 'name': 'probe0',
         'required_defaults': [names of dflt/kwdflt whose default is gin.REQUIRED],
         'allowlist': [...]|None, 'denylist': [...]|None}

build(shape) execs the generated source in a real module object (sys.modules), registers it with
Gin through the requested API and returns a Built with:
  original   the undecorated function / class / method function (for inspect.signature)
  call(args, kwargs) -> record   calls Gin's configurable version, returns what the body saw
  direct(args, kwargs) -> record calls the original directly (no Gin)
A record is {'named': {param: value}, 'args': [...], 'kw': {...}, 'scope': 'a/b', 'n': call index}.
"""
import functools
import inspect
import sys
import types

from hypothesis import strategies as st

# pool order = signature order; deliberately not alphabetical so that "signature order" differs
# from sorted order
POS = ['w', 'b', 'r']
DFLT = ['v', 'e', 'q']
KWONLY = ['u', 'k']
KWDFLT = ['t', 'm']
EXTRA = ['x', 'y']          # names only **kw can take

_counter = [0]


class _NonLiteral:
  """A default value with no literal form (its repr does not parse)."""

  def __repr__(self):
    return '<nonliteral default>'


NONLITERAL = _NonLiteral()


def default_of(name):
  return 'D:' + name


def signature_source(shape, first=None):
  parts = [first] if first else []
  parts += list(shape['pos'])
  k = shape.get('posonly_pos') or 0
  if k and shape.get('kind') == 'function' and len(shape['pos']) >= k:
    parts.insert(len(parts) - len(shape['pos']) + k, '/')   # def f(a, /, b, ...): a.. positional-only
  req = set(shape.get('required_defaults') or [])
  nonlit = set(shape.get('nonliteral_defaults') or [])

  def dflt(d):
    if d in req:
      return f'{d}=REQUIRED'
    if d in nonlit:
      return f'{d}=NONLITERAL'
    return f'{d}={default_of(d)!r}'

  for i, d in enumerate(shape['dflt']):
    parts.append(dflt(d))
    if (i == 0 and shape.get('posonly_first_default') and not shape['pos'] and not first and
        shape.get('kind') == 'function'):
      parts.append('/')       # def f(v='D:v', /, e='D:e', ...): v is positional-only
  if shape['varargs']:
    parts.append('*args')
  elif shape['kwonly'] or shape['kwdflt']:
    parts.append('*')
  parts += list(shape['kwonly'])
  for d in shape['kwdflt']:
    parts.append(dflt(d))
  if shape['varkw']:
    parts.append('**kw')
  return ', '.join(parts)


def named_params(shape):
  return shape['pos'] + shape['dflt'] + shape['kwonly'] + shape['kwdflt']


def posonly_params(shape):
  """The leading required parameters declared positional-only (`posonly_pos`): they cannot be
  bound, the caller passes them by position."""
  k = shape.get('posonly_pos') or 0
  return list(shape['pos'][:k]) if k and shape.get('kind') == 'function' else []


def record_source(shape):
  named = ', '.join(f'{p!r}: {p}' for p in named_params(shape))
  args = 'list(args)' if shape['varargs'] else '[]'
  kw = 'dict(kw)' if shape['varkw'] else '{}'
  return f"_record({{{named}}}, {args}, {kw})"


class ProbeRaised(Exception):
  """Raised by a probe body when one of the values it receives is the string 'RAISE'."""


class Built:

  def __init__(self, shape, module, original, cfg_call, direct_call, selector, cls=None,
               configurable_obj=None):
    self.shape = shape
    self.module = module
    self.original = original
    self._cfg_call = cfg_call
    self._direct_call = direct_call
    self.selector = selector
    self.cls = cls
    self.configurable_obj = configurable_obj

  @property
  def log(self):
    return self.module.LOG

  def call(self, args=(), kwargs=None):
    return self._cfg_call(*args, **(kwargs or {}))

  def direct(self, args=(), kwargs=None):
    return self._direct_call(*args, **(kwargs or {}))

  def signature(self):
    """Signature as the caller sees it (without self / cls)."""
    sig = inspect.signature(self.original)
    if self.shape['kind'] != 'function':     # drop self / cls
      params = list(sig.parameters.values())[1:]
      sig = sig.replace(parameters=params)
    return sig


def build(shape, gin, lists_on='target'):
  """Registers a probe for `shape`. Returns Built. Must run in a forked child."""
  _counter[0] += 1
  name = shape.get('name') or f'probe{_counter[0]}'
  modname = shape.get('module') or f'vfprobes{_counter[0]}'
  mod = types.ModuleType(modname)
  mod.__dict__['gin'] = gin
  mod.__dict__['REQUIRED'] = gin.REQUIRED
  # (a default without a literal form: an arbitrary object, or a non-finite float, whose repr
  # 'inf' is a name, not a literal)
  mod.__dict__['NONLITERAL'] = {'inf': float('inf'), '-inf': float('-inf')}.get(
      shape.get('nonliteral_kind'), NONLITERAL)
  mod.LOG = []

  def _record(named, args, kw):
    if any(isinstance(v, str) and v == 'RAISE'
           for v in list(named.values()) + list(args) + list(kw.values())):
      raise ProbeRaised('the body raises after receiving its arguments')
    rec = {'named': named, 'args': args, 'kw': kw, 'scope': gin.current_scope_str(),
           'n': len(mod.LOG)}
    mod.LOG.append(rec)
    if shape.get('read_operative'):
      # the body looks at the operative config (the usual "log the config from inside train()")
      rec['operative_inside'] = gin.operative_config_str()
    if shape.get('mutate_scope'):
      # user code may do what it likes with the list current_scope() hands out
      handed_out = gin.current_scope()
      handed_out.append('zz_appended_by_probe')
      del handed_out[:1]
    return rec

  mod._record = _record
  sys.modules[modname] = mod
  kind, api = shape['kind'], shape['api']
  lists = {}
  if shape.get('allowlist') is not None:
    lists['allowlist'] = list(shape['allowlist'])
  if shape.get('denylist') is not None:
    lists['denylist'] = list(shape['denylist'])
  gin_module = shape.get('gin_module')     # module path used for the Gin selector
  reg_kwargs = dict(lists)
  if gin_module is not None:
    reg_kwargs['module'] = gin_module

  def register(obj, reg_name=None, extra=None):
    kw = dict(extra if extra is not None else reg_kwargs)
    if api == 'configurable':
      return gin.configurable(reg_name, **kw)(obj)
    if api == 'register':
      gin.register(reg_name, **kw)(obj)
      return None
    return gin.external_configurable(obj, name=reg_name, **kw)

  if kind == 'function':
    # (a generator function: the body, and so the record, only runs once the result is iterated)
    verb = 'yield' if shape.get('generator') else 'return'
    src = f'def {name}({signature_source(shape)}):\n  {verb} {record_source(shape)}\n'
    exec(compile(src, f'<{modname}>', 'exec'), mod.__dict__)  # pylint: disable=exec-used
    original = mod.__dict__[name]
    target = original
    for _ in range(shape.get('decorated') or 0):
      # a non-Gin decorator written with functools.wraps: (*args, **kwargs) on the outside, the
      # real signature reachable through __wrapped__
      def deco(f):
        @functools.wraps(f)
        def inner(*args, **kwargs):
          return f(*args, **kwargs)
        return inner
      target = deco(target)
    if shape.get('first_lists') is not None and api != 'configurable':
      # the same object was registered under this very name before, with other lists: the later
      # registration is the one in force
      fl = dict(shape['first_lists'])
      if gin_module is not None:
        fl['module'] = gin_module
      register(target, extra=fl)
    if shape.get('also_as') and api != 'configurable':
      # the very same function object is registered under another name first (without lists):
      # each registration is a configurable of its own, with its own bindings and lists
      first_kw = {k: v for k, v in reg_kwargs.items() if k not in ('allowlist', 'denylist')}
      if 'module' not in first_kw:
        first_kw['module'] = modname
      # (optionally with lists of its own, which say nothing about the second registration)
      first_kw.update(shape.get('also_as_lists') or {})
      gin.external_configurable(target, name=shape['also_as'], **first_kw)
    tw = shape.get('twin_required_defaults')
    if tw is None and shape.get('twin_other_defaults'):
      tw = list(shape.get('required_defaults') or [])
    if tw is not None:
      # a sibling made from the very same `def` (one code object, as a factory or a closure
      # produces them) whose defaults differ, registered *first*
      src2 = (f'def {name}_twinsrc({signature_source(dict(shape, required_defaults=list(tw)))}):\n'
              f'  return 0\n')
      if shape.get('twin_other_defaults'):
        src2 = src2.replace("='D:", "='TWIN:")
      exec(compile(src2, f'<{modname}>', 'exec'), mod.__dict__)  # pylint: disable=exec-used
      t = mod.__dict__[name + '_twinsrc']
      twin = types.FunctionType(original.__code__, original.__globals__, name + '_twin',
                                t.__defaults__)
      twin.__kwdefaults__ = t.__kwdefaults__
      twin.__qualname__ = name + '_twin'
      mod.__dict__[name + '_twin'] = twin
      register(twin, reg_name=name + '_twin')
    if shape.get('earlier_version') and not shape.get('decorated'):
      # an earlier definition of the same function (same module, same name, other parameter
      # order) was registered before; this one replaces it in interactive mode (a notebook cell
      # edited and run again)
      older = dict(shape, pos=list(reversed(shape['dflt'])), dflt=list(reversed(shape['pos'])),
                   required_defaults=[], nonliteral_defaults=[])
      src0 = f'def {name}({signature_source(older)}):\n  return "older version"\n'
      ns = dict(mod.__dict__)
      exec(compile(src0, f'<{modname}>', 'exec'), ns)  # pylint: disable=exec-used
      ns[name].__module__ = modname
      kw0 = {k: v for k, v in reg_kwargs.items() if k not in ('allowlist', 'denylist')}
      if 'module' not in kw0:
        kw0['module'] = modname
      gin.external_configurable(ns[name], name=name, **kw0)
      with gin.config.interactive_mode():
        cfg = register(target)
    else:
      cfg = register(target)
    if cfg is None:
      cfg = gin.get_configurable(target)
    selector = (gin_module + '.' if gin_module else modname + '.') + name
    return Built(shape, mod, original, cfg, target, selector, configurable_obj=cfg)

  if kind in ('callobj', 'boundmethod'):
    # a callable instance (its class defines __call__) or a bound method of an instance, handed
    # to Gin as it is: `self` is already bound, the caller's first argument is the first parameter
    fname = '__call__' if kind == 'callobj' else 'run'
    src = (f'class {name}Type:\n  def {fname}(self, {signature_source(shape)}):\n'
           f'    return {record_source(shape)}\n')
    exec(compile(src, f'<{modname}>', 'exec'), mod.__dict__)  # pylint: disable=exec-used
    inst = mod.__dict__[name + 'Type']()
    target = inst if kind == 'callobj' else inst.run
    kw = dict(reg_kwargs)
    if gin_module is None:
      kw['module'] = modname
    if shape.get('plain_function_first') and kind == 'boundmethod':
      # the plain function behind the bound method is a configurable of its own (with `self` as an
      # ordinary parameter), registered and looked at first
      plain_kw = {k: v for k, v in kw.items() if k not in ('allowlist', 'denylist')}
      gin.external_configurable(getattr(type(inst), fname), name=name + '_unbound', **plain_kw)
      gin.bind_parameter(f"{plain_kw['module']}.{name}_unbound.self", 'SELF')
    if api == 'register':
      gin.register(name, **kw)(target)
      cfg = gin.get_configurable(target)
    else:
      cfg = gin.external_configurable(target, name=name, **kw)
    original = getattr(type(inst), fname)
    selector = (gin_module + '.' if gin_module else modname + '.') + name
    return Built(shape, mod, original, cfg, target, selector, configurable_obj=cfg)

  if kind in ('class_init', 'class_new'):
    if kind == 'class_init':
      body = (f'  def __init__(self, {signature_source(shape)}):\n'
              f'    self.rec = {record_source(shape)}\n')
    else:
      body = (f'  def __new__(cls, {signature_source(shape)}):\n'
              f'    obj = object.__new__(cls)\n'
              f'    obj.rec = {record_source(shape)}\n'
              f'    return obj\n')
    src = f'class {name}:\n{body}'
    if shape.get('far_ctor'):
      # a base class defines the *other* constructor (cooperative: swallows everything, and names
      # one parameter, zz_base, of its own): the class's own constructor comes first in the MRO
      # and is the one whose signature decides what can be passed
      if kind == 'class_new':
        base = (f'class {name}_Base:\n  def __init__(self, *args, zz_base=None, **kwargs):\n'
                f'    self.zz_base = zz_base\n')
      else:
        base = (f'class {name}_Base:\n  def __new__(cls, *args, zz_base=None, **kwargs):\n'
                f'    return object.__new__(cls)\n')
      exec(compile(base, f'<{modname}>', 'exec'), mod.__dict__)  # pylint: disable=exec-used
      src = f'class {name}({name}_Base):\n{body}'
    inherited = None
    if shape.get('configurable_base') and api == 'configurable' and not shape.get('far_ctor'):
      # the class defines no constructor of its own: it inherits the one of a base class that is
      # itself decorated with @gin.configurable (a plain subclass of a configurable class)
      base_src = src.replace(f'class {name}:', f'class {name}GinBase:')
      exec(compile(base_src, f'<{modname}>', 'exec'), mod.__dict__)  # pylint: disable=exec-used
      inherited = mod.__dict__[name + 'GinBase'].__dict__[
          '__init__' if kind == 'class_init' else '__new__']
      gin.configurable(name + 'GinBase', module=modname)(mod.__dict__[name + 'GinBase'])
      parent = name + 'GinBase'
      if shape.get('configurable_base') == 2:
        # ... through one more configurable class that defines no constructor either
        exec(f'class {name}GinMid({parent}):\n  pass\n', mod.__dict__)  # pylint: disable=exec-used
        gin.configurable(name + 'GinMid', module=modname)(mod.__dict__[name + 'GinMid'])
        parent = name + 'GinMid'
      src = f'class {name}({parent}):\n  pass\n'
    exec(compile(src, f'<{modname}>', 'exec'), mod.__dict__)  # pylint: disable=exec-used
    cls = mod.__dict__[name]
    original = inherited or cls.__dict__['__init__' if kind == 'class_init' else '__new__']
    if isinstance(original, staticmethod):
      original = original.__func__
    # `direct` must use the class as it was *before* an in-place registration
    if api == 'configurable' and inherited is not None:
      plain = cls      # (direct calls are not meaningful here: the base is decorated in place)
    elif api == 'configurable':
      src2 = src.replace(f'class {name}:', f'class {name}_plain:').replace(
          f'class {name}(', f'class {name}_plain(')
      exec(compile(src2, f'<{modname}>', 'exec'), mod.__dict__)  # pylint: disable=exec-used
      plain = mod.__dict__[name + '_plain']
    else:
      plain = cls
    cfg = register(cls)
    if cfg is None:
      cfg = gin.get_configurable(cls)
    selector = (gin_module + '.' if gin_module else modname + '.') + name
    return Built(shape, mod, original, lambda *a, **k: cfg(*a, **k).rec,
                 lambda *a, **k: plain(*a, **k).rec, selector, cls=cls, configurable_obj=cfg)

  if kind == 'method':
    host = name + 'Host'
    meth = name
    if shape.get('method_contains_class'):
      meth = host + '_run'      # a method whose own name contains its class's name
    meth_api = shape.get('method_api', 'register')
    deco = '@gin.register' if meth_api == 'register' else '@gin.configurable'
    if lists:
      args = ', '.join(f'{k}={v!r}' for k, v in lists.items())
      deco += f'({args})'
    src = (f'class {host}:\n'
           f'  def __init__(self, hp=None):\n'
           f'    self.hp = hp\n'
           f'  {deco}\n'
           f'  def {meth}(self, {signature_source(shape)}):\n'
           f'    return {record_source(shape)}\n')
    if shape.get('nested_host') == 'class':
      # the host class is nested in another class: its qualname is Outer.Host
      src = f'class {host}Outer:\n' + ''.join('  ' + l + '\n' for l in src.splitlines())
    elif shape.get('nested_host') == 'function':
      # ... or defined inside a function: its qualname is make.<locals>.Host
      src = (f'def {host}_make():\n' + ''.join('  ' + l + '\n' for l in src.splitlines()) +
             f'  return {host}\n{host} = {host}_make()\n')
    exec(compile(src, f'<{modname}>', 'exec'), mod.__dict__)  # pylint: disable=exec-used
    cls = (mod.__dict__[host + 'Outer'].__dict__[host] if shape.get('nested_host') == 'class'
           else mod.__dict__[host])
    name = meth
    original = inspect.unwrap(cls.__dict__[name])
    host_kwargs = {'module': gin_module} if gin_module is not None else {}
    # methods are only re-homed under their class by register / external_configurable
    if api == 'external':
      cfg_cls = gin.external_configurable(cls, **host_kwargs)
    else:
      gin.register(**host_kwargs)(cls)
      cfg_cls = gin.get_configurable(cls)
    if shape.get('later_sibling') and meth_api == 'register' and not lists:
      # a second class of the same module, defined and registered afterwards, with a registered
      # method of the same name (two model classes that both have `call`)
      src2 = (f'@gin.register\nclass {host}Sibling:\n'
              f'  @gin.register\n'
              f'  def {meth}(self, *args, **kwargs):\n'
              f'    return ("sibling", args, kwargs)\n')
      exec(compile(src2, f'<{modname}>', 'exec'), mod.__dict__)  # pylint: disable=exec-used
    if meth_api == 'register':
      selector = (gin_module + '.' if gin_module else modname + '.') + host + '.' + name
    else:
      # a method decorated in place with @gin.configurable is registered at class-body time
      # under its own module; it is not re-homed under the class
      selector = modname + '.' + name
    return Built(shape, mod, original,
                 lambda *a, **k: getattr(cfg_cls(), name)(*a, **k),
                 lambda *a, **k: original(cls(), *a, **k), selector, cls=cls,
                 configurable_obj=cfg_cls)
  raise ValueError(kind)


# ------------------------------------------------------------------------------ strategies
@st.composite
def shapes(draw, kinds=('function', 'function', 'class_init', 'class_new', 'method'),
           apis=('configurable', 'register', 'external')):
  def ordered(pool):
    return lambda xs: [p for p in pool if p in xs]
  pos = draw(st.lists(st.sampled_from(POS), max_size=3, unique=True).map(ordered(POS)))
  dflt = draw(st.lists(st.sampled_from(DFLT), max_size=3, unique=True).map(ordered(DFLT)))
  kwonly = draw(st.lists(st.sampled_from(KWONLY), max_size=2, unique=True).map(ordered(KWONLY)))
  kwdflt = draw(st.lists(st.sampled_from(KWDFLT), max_size=2, unique=True).map(ordered(KWDFLT)))
  return {'pos': pos, 'dflt': dflt, 'varargs': draw(st.booleans()), 'kwonly': kwonly,
          'kwdflt': kwdflt, 'varkw': draw(st.booleans()),
          'kind': draw(st.sampled_from(kinds)), 'api': draw(st.sampled_from(apis)),
          'method_api': draw(st.sampled_from(['register', 'configurable']))}
