"""Renderings of Python literals in Gin's value grammar, in many layouts.

Every strategy yields (text, feats): the source text of one literal and the list of
non-canonical rendering features it uses.  The *expected value* is never computed here: checks
ask Python (ast.literal_eval) what the text means, so the generator cannot be wrong about it.
"""
from hypothesis import strategies as st

PLAIN = 'abXY01 _-+*/=:;,.#@%$&()[]{}<>!?~^|`'
# (non-ASCII text, including characters that are not in a Unicode normal form -- ANGSTROM SIGN,
# OHM SIGN, a combining acute accent, conjoining Hangul jamo -- which a reader must not normalise)
UNI = 'é漢 😀\u212b\u2126\u0301\u1100\u1161'

ESC_STR = ['\\n', '\\t', '\\\\', "\\'", '\\"', '\\x41', '\\u00e9', '\\N{BULLET}', '\\0',
           '\\101', '\\U0001F600', '\\\n', '\\a', '\\r']
ESC_BYTES = ['\\n', '\\t', '\\\\', "\\'", '\\"', '\\x41', '\\xff', '\\0', '\\101', '\\\n']


@st.composite
def string_piece(draw, kind=None, in_brackets=False):
  """One string/bytes literal token."""
  feats = []
  kind = kind or draw(st.sampled_from(['str', 'str', 'str', 'bytes']))
  raw = draw(st.integers(0, 5)) == 0
  triple = draw(st.integers(0, 4)) == 0
  q = draw(st.sampled_from(["'", '"']))
  quote = q * 3 if triple else q
  if kind == 'bytes':
    prefix = draw(st.sampled_from(['rb', 'br', 'Rb', 'bR', 'RB']) if raw
                  else st.sampled_from(['b', 'B']))
  else:
    prefix = draw(st.sampled_from(['r', 'R']) if raw
                  else st.sampled_from(['', '', '', 'u', 'U']))
  if prefix:
    feats.append('prefix')
  if triple:
    feats.append('triple')
  plain = [c for c in PLAIN if c != q]
  if kind == 'str' and not raw:
    plain += list(UNI)
  other_q = '"' if q == "'" else "'"
  plain.append(other_q)
  if triple:
    plain.append('\n')
  if raw:
    frag = st.sampled_from(plain) | st.sampled_from(['\\d', '\\w', '\\n', '\\.', '\\\\'])
  else:
    esc = ESC_BYTES if kind == 'bytes' else ESC_STR
    frag = st.sampled_from(plain) | st.sampled_from(plain) | st.sampled_from(esc)
  frags = draw(st.lists(frag, min_size=0, max_size=8))
  if any(len(f) > 1 for f in frags):
    feats.append('escape' if not raw else 'raw-backslash')
  if any(f == '\n' or f == '\\\n' for f in frags):
    feats.append('multiline-string')
  body = ''.join(frags)
  if any(ord(c) > 127 for c in body):
    feats.append('non-ascii')
  return prefix + quote + body + quote, feats, kind


@st.composite
def string_value(draw, in_brackets=False):
  text, feats, kind = draw(string_piece())
  n_more = draw(st.sampled_from([0, 0, 0, 1, 1, 2, 3]))
  if n_more:
    feats = feats + ['adjacent']
    seps = [' ', ' ', '  ', '\t']
    if in_brackets:
      seps += ['\n', '\n    ', ' # c\n', ' \\\n']
    else:
      seps += [' \\\n  ']
    for _ in range(n_more):
      t2, f2, _ = draw(string_piece(kind=kind))
      sep = draw(st.sampled_from(seps))
      if '\n' in sep:
        feats = feats + ['adjacent-multiline']
      text += sep + t2
      feats = feats + f2
    if "''" in text.replace("'''", '') or '""' in text.replace('"""', ''):
      feats.append('adjacent-empty-piece')
  return text, feats


@st.composite
def number(draw):
  feats = []
  form = draw(st.sampled_from(['dec', 'dec', 'dec', 'hex', 'oct', 'bin', 'under', 'big', 'float',
                               'float', 'exp', 'dotlead', 'dottrail', 'imag', 'floatunder']))
  n = draw(st.integers(0, 10**6) | st.integers(0, 20))
  if form == 'dec':
    text = str(n)
  elif form == 'hex':
    text = draw(st.sampled_from(['0x%x', '0X%X', '0x%X'])) % n
  elif form == 'oct':
    text = draw(st.sampled_from(['0o%o', '0O%o'])) % n
  elif form == 'bin':
    text = draw(st.sampled_from(['0b', '0B'])) + bin(n)[2:]
  elif form == 'under':
    s = str(n + 1000)
    text = s[:-3] + '_' + s[-3:]
  elif form == 'big':
    text = str(n) + '0' * draw(st.integers(15, 40))
  elif form == 'float':
    text = repr(draw(st.floats(min_value=0, allow_nan=False, allow_infinity=False)))
  elif form == 'exp':
    text = '%d%s%s%d' % (n % 1000, draw(st.sampled_from(['e', 'E'])),
                         draw(st.sampled_from(['', '+', '-'])), draw(st.integers(0, 400)))
  elif form == 'dotlead':
    text = '.%d' % n
  elif form == 'dottrail':
    text = '%d.' % n
  elif form == 'imag':
    text = draw(st.sampled_from(['%dj', '%dJ', '%d.5j', '%de1j'])) % (n % 1000)
  else:
    text = '1_0.0_%d' % (n % 10)
  if form not in ('dec', 'float'):
    feats.append('numform:' + form)
  neg = draw(st.sampled_from(['', '', '-', '-', '- ', '-\t']))
  if neg:
    feats.append('negative')
    if len(neg) > 1:
      feats.append('neg-space')
  return neg + text, feats


WS_IN = ['', '', '', ' ', ' ', '  ', '\n', '\n  ', ' # c\n', '\n# c [\n      ', '\t', ' \\\n ']


@st.composite
def value(draw, depth=3, in_brackets=False):
  """Any literal value; `in_brackets` says whether line breaks may be used between tokens."""
  kinds = ['num', 'num', 'str', 'str', 'const']
  if depth > 0:
    kinds += ['list', 'tuple', 'dict', 'paren', 'list', 'dict']
  kind = draw(st.sampled_from(kinds))
  if kind == 'num':
    return draw(number())
  if kind == 'str':
    return draw(string_value(in_brackets=in_brackets))
  if kind == 'const':
    return draw(st.sampled_from(['True', 'False', 'None'])), []
  ws = st.sampled_from(WS_IN)
  feats = ['depth%d' % (4 - depth)]

  def w():
    s = draw(ws)
    if '\n' in s:
      feats.append('linebreak-in-brackets')
    if '#' in s:
      feats.append('comment-in-brackets')
    return s

  if kind == 'paren':
    t, f = draw(value(depth - 1, True))
    feats.append('redundant-parens')
    return '(' + w() + t + w() + ')', feats + f
  n = draw(st.sampled_from([0, 1, 1, 2, 2, 3, 4]))
  items = []
  for _ in range(n):
    if kind == 'dict':
      kt, kf = draw(dict_key(in_brackets=True))
      vt, vf = draw(value(depth - 1, True))
      items.append(kt + w() + ':' + w() + vt)
      feats += kf + vf
    else:
      t, f = draw(value(depth - 1, True))
      items.append(t)
      feats += f
  open_, close = {'list': '[]', 'tuple': '()', 'dict': '{}'}[kind]
  text = open_ + w()
  for i, it in enumerate(items):
    text += it + w()
    if i < len(items) - 1:
      text += ',' + w()
  trailing = draw(st.booleans())
  if kind == 'tuple' and n == 1:
    trailing = True
    feats.append('one-tuple')
  if n and trailing:
    text += ',' + w()
    feats.append('trailing-comma')
  if n == 0:
    feats.append('empty-container')
  return text + close, feats


@st.composite
def dict_key(draw, in_brackets=True):
  kind = draw(st.sampled_from(['num', 'str', 'str', 'const', 'tuple']))
  if kind == 'num':
    return draw(number())
  if kind == 'str':
    return draw(string_value(in_brackets=in_brackets))
  if kind == 'const':
    return draw(st.sampled_from(['True', 'False', 'None'])), []
  a, fa = draw(number())
  b, fb = draw(string_value(in_brackets=True))
  return '(' + a + ', ' + b + ')', fa + fb + ['tuple-key']


def simple_value():
  """Small canonical literals for checks where the value is not the point."""
  return st.one_of(
      st.integers(-99, 99).map(repr), st.sampled_from(['True', 'None', '1.5', "'s'", '"t u"']),
      st.lists(st.integers(0, 9), max_size=3).map(repr),
      st.sampled_from(["{'k': 1}", '(1, 2)', "[1, ['a']]", '()']))


def unorderable_keys(x):
  """True if some dict in value `x` has two keys of one type that cannot be compared.

  pprint (used by gin.config_str) orders such keys by id(), i.e. by memory address, so the text of
  a config string holding such a dict is not a function of the value — a CPython pprint property,
  not Gin's.  Checks that compare config strings treat such values as out of domain."""
  if isinstance(x, dict):
    keys = list(x)
    for i, a in enumerate(keys):
      for b in keys[i + 1:]:
        if type(a) is type(b):
          try:
            a < b  # pylint: disable=pointless-statement
          except TypeError:
            return True
    return any(unorderable_keys(k) or unorderable_keys(v) for k, v in x.items())
  if isinstance(x, (list, tuple)):
    return any(unorderable_keys(i) for i in x)
  return False
