"""Statement ASTs for Gin config text and a renderer with independent layout choices.

AST (JSON):
  ["bind", scope, selector, arg, VALUE]      scope '' | 'a' | 'a/b'
  ["macro", scope, name, VALUE]              `scope/name = VALUE`
  ["import", form, module, alias|None]       form 'import' | 'from' (module 'a.b.c' => from a.b import c)
  ["include", path]
VALUE:
  ["lit", text] | ["ref", scoped_name, evaluate] | ["mac", scoped_name]
  | ["list", [VALUE..]] | ["tuple", [VALUE..]] | ["dict", [[VALUE(lit), VALUE]..]]

render(stmts, tape) -> (text, features).  `tape` is a list of small ints consumed in order (0 when
exhausted), so the all-zero tape is the plain one-statement-per-line layout and Hypothesis
shrinks layouts towards it.
"""
import ast
import random
import warnings

from hypothesis import strategies as st

from vf.gen import literals


class Tape:
  """Choice tape: explicit ints first, then (if seed != 0) a deterministic PRNG stream.

  The case stores {'t': [ints], 's': seed}; seed 0 means "zeros after the explicit part", so the
  shrinker can move a failing layout towards the plain one. A bare list is accepted too.
  """

  def __init__(self, spec):
    if isinstance(spec, dict):
      self.ints = list(spec.get('t', []))
      seed = spec.get('s', 0)
    else:
      self.ints = list(spec)
      seed = 0
    self.rng = random.Random(seed) if seed else None
    self.i = 0

  def pick(self, n):
    if self.i < len(self.ints):
      v = self.ints[self.i] % n
    elif self.rng is not None:
      v = self.rng.randrange(n)
    else:
      v = 0
    self.i += 1
    return v

  def choose(self, options):
    return options[self.pick(len(options))]


COMMENTS = ['# c', '#', '# x.y = 1', '#@ref() %m', "# 'unterminated", '# [', '\t# tab', '    # ind',
            '# a/b:']


def render_value(v, tape, feats, in_brackets=False):
  kind = v[0]
  if kind == 'lit':
    return v[1]
  if kind == 'ref':
    return '@' + v[1] + ('()' if v[2] else '')
  if kind == 'mac':
    return '%' + v[1]
  ws_opts = ['', ' ', '\n', '\n    ', ' # c\n  ', '  ']

  def w():
    s = tape.choose(ws_opts)
    if '\n' in s:
      feats.add('linebreak-in-value')
    return s

  if kind == 'dict':
    items = [render_value(k, tape, feats, True) + w() + ':' + (w() or ' ') +
             render_value(x, tape, feats, True) for k, x in v[1]]
    o, c = '{', '}'
  else:
    items = [render_value(x, tape, feats, True) for x in v[1]]
    o, c = ('[', ']') if kind == 'list' else ('(', ')')
  text = o + w()
  for i, it in enumerate(items):
    text += it + w()
    if i < len(items) - 1:
      text += ',' + (w() or ' ')
  if items and (tape.pick(3) == 1 or (kind == 'tuple' and len(items) == 1)):
    text += ',' + w()
  return text + c


def render_key(scope, name):
  return (scope + '/' if scope else '') + name


def render(stmts, tape_ints, allow_blocks=True):
  """Returns (text, feats, expected_stream_shape).

  expected_stream_shape is a list of ('block', scope, selector) / ('stmt', index) entries in the
  order the parser must yield them.
  """
  tape = Tape(tape_ints)
  feats = set()
  eol = '\n'
  if tape.pick(8) == 1:
    eol = '\r\n'
    feats.add('crlf')
  lines = []     # logical output chunks, joined with eol
  shape = []

  def filler(indent_opts=('',)):
    n = tape.pick(4)
    for _ in range(n if n < 3 else 0):
      k = tape.pick(3)
      if k == 0:
        lines.append('')
        feats.add('blank-line')
      elif k == 1:
        lines.append(tape.choose(list(indent_opts)) + tape.choose(COMMENTS))
        feats.add('comment-line')
      else:
        lines.append('   ')
        feats.add('whitespace-line')

  def eq():
    s = tape.choose([' = ', '=', '  =  ', '\t=\t', ' = \\\n    ', ' \\\n  = ', ' =  \\\n\t'])
    if s != ' = ':
      feats.add('eq-spacing')
    if '\\' in s:
      feats.add('continuation')
    return s

  def trailer():
    if tape.pick(4) == 1:
      feats.add('trailing-comment')
      return tape.choose(['  # c', ' #', '\t# x = 1', ' # @a()'])
    if tape.pick(6) == 1:
      feats.add('trailing-space')
      return '  '
    return ''

  i = 0
  while i < len(stmts):
    s = stmts[i]
    filler()
    if s[0] == 'bind':
      j = i
      while (j + 1 < len(stmts) and stmts[j + 1][0] == 'bind' and
             stmts[j + 1][1:3] == s[1:3]):
        j += 1
      use_block = allow_blocks and tape.pick(2) == 1
      if use_block:
        feats.add('block')
        n_members = 1 + tape.pick(j - i + 1)
        header = render_key(s[1], s[2]) + tape.choose(['', '', ' ']) + ':'
        if tape.pick(3) == 1:
          header += tape.choose(['  # header comment', '#c', ' # a.b = 1'])
          feats.add('comment-after-block-header')
        lines.append(header)
        shape.append(('block', s[1], s[2]))
        indent = tape.choose(['  ', '    ', ' ', '\t', '        '])
        if indent != '  ':
          feats.add('block-indent-' + repr(indent))
        before = len(lines)
        filler(('', indent, '      '))
        if len(lines) > before:
          feats.add('filler-before-first-member')
        for k in range(n_members):
          m = stmts[i + k]
          lines.append(indent + m[3] + eq() + render_value(m[4], tape, feats) + trailer())
          shape.append(('stmt', i + k))
          if k < n_members - 1:
            before = len(lines)
            filler(('', indent, '      '))
            if len(lines) > before:
              feats.add('filler-inside-block')
        i += n_members
        if i < len(stmts) and tape.pick(2) == 0:
          feats.add('block-followed-directly')
          # next statement follows with no separating line (filler above may still add some)
        continue
      lines.append(render_key(s[1], s[2]) + '.' + s[3] + eq() +
                   render_value(s[4], tape, feats) + trailer())
    elif s[0] == 'macro':
      lines.append(render_key(s[1], s[2]) + eq() + render_value(s[3], tape, feats) + trailer())
    elif s[0] == 'import':
      sp = tape.choose([' ', ' ', '  ', '\t'])
      if s[1] == 'from':
        pkg, name = s[2].rsplit('.', 1)
        text = 'from' + sp + pkg + sp + 'import' + sp + name
      else:
        text = 'import' + sp + s[2]
      if s[3]:
        text += sp + 'as' + sp + s[3]
      lines.append(text + trailer())
    elif s[0] == 'include':
      q = tape.choose(["'", '"'])
      lines.append('include' + tape.choose([' ', '  ', '\t']) + q + s[1] + q + trailer())
    else:
      raise ValueError(s)
    shape.append(('stmt', i))
    i += 1
  filler()
  text = eol.join(lines)
  if tape.pick(3) != 1:
    text += eol
  else:
    feats.add('no-final-newline')
  return text, feats, shape


# ------------------------------------------------------------------------------ expectations
def expected_value(v, make_ref):
  kind = v[0]
  if kind == 'lit':
    with warnings.catch_warnings():
      warnings.simplefilter('ignore')
      return ast.literal_eval(v[1])
  if kind == 'ref':
    return make_ref('@', v[1], v[2])
  if kind == 'mac':
    return make_ref('%', v[1], True)
  if kind == 'list':
    return [expected_value(x, make_ref) for x in v[1]]
  if kind == 'tuple':
    return tuple(expected_value(x, make_ref) for x in v[1])
  if kind == 'dict':
    return dict([(expected_value(k, make_ref), expected_value(x, make_ref)) for k, x in v[1]])
  raise ValueError(v)


def value_has_ref(v):
  if v[0] in ('ref', 'mac'):
    return True
  if v[0] in ('list', 'tuple'):
    return any(value_has_ref(x) for x in v[1])
  if v[0] == 'dict':
    return any(value_has_ref(x) for _, x in v[1])
  return False


# ------------------------------------------------------------------------------ strategies
def tapes(max_size=40):
  return st.fixed_dictionaries({
      't': st.lists(st.integers(0, 7), min_size=0, max_size=max_size),
      's': st.sampled_from([0, 0]) | st.integers(1, 2**32)})


def values(selectors, macros, scopes, depth=2, lit=None):
  if lit is None:
    lit = literals.simple_value()
  leaf = st.one_of(
      lit.map(lambda t: ['lit', t]),
      lit.map(lambda t: ['lit', t]),
      st.tuples(st.sampled_from(scopes), st.sampled_from(selectors), st.booleans()).map(
          lambda t: ['ref', (t[0] + '/' if t[0] else '') + t[1], t[2]]),
      st.tuples(st.sampled_from(scopes), st.sampled_from(macros)).map(
          lambda t: ['mac', (t[0] + '/' if t[0] else '') + t[1]]))
  if depth <= 0:
    return leaf
  sub = values(selectors, macros, scopes, depth - 1, lit)
  keys = st.sampled_from(["'k'", "'j'", '1', '(1, 2)', "b'b'"]).map(lambda t: ['lit', t])
  return st.one_of(
      leaf, leaf,
      st.lists(sub, max_size=3).map(lambda xs: ['list', xs]),
      st.lists(sub, max_size=3).map(lambda xs: ['tuple', xs]),
      st.lists(st.tuples(keys, sub).map(list), max_size=3, unique_by=lambda kv: kv[0][1]).map(
          lambda xs: ['dict', xs]))


def render_simple(s, tape, feats):
  """One statement per chunk, plain layout; blocks as ["block", scope, selector, [[arg, V]..]].

  Returns the statement's lines (values may still span several lines)."""
  if s[0] == 'bind':
    return (render_key(s[1], s[2]) + '.' + s[3] + ' = ' +
            render_value(s[4], tape, feats)).split('\n')
  if s[0] == 'block':
    lines = [render_key(s[1], s[2]) + ':']
    for arg, v in s[3]:
      lines += ('  ' + arg + ' = ' + render_value(v, tape, feats)).split('\n')
    return lines
  if s[0] == 'macro':
    return (render_key(s[1], s[2]) + ' = ' + render_value(s[3], tape, feats)).split('\n')
  if s[0] == 'import':
    return [s[1]]
  if s[0] == 'include':
    return ["include '%s'" % s[1]]
  raise ValueError(s)
