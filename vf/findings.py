"""Known-findings protocol.

known_findings.json (committed, never written at run time):
  open:  [{property, id, what, match, replay}]   `match` names a predicate in the property
         module's KNOWN dict; `replay` is a committed case that reproduces the finding.
  fixed: ["fixed: property=<ID> <commit> <what failed>"]   -- suppresses nothing.

A violation is suppressed only if an *open* entry's predicate recognises that very failing
case; any other violation of the same property is reported.
"""
import json
import os

HERE = os.path.dirname(os.path.dirname(os.path.abspath(__file__)))
PATH = os.path.join(HERE, 'known_findings.json')


def load(prop_id):
  if not os.path.exists(PATH):
    return []
  with open(PATH) as f:
    data = json.load(f)
  return [e for e in data.get('open', []) if e.get('property') == prop_id]


def match(mod, entries, case, verdict):
  known = getattr(mod, 'KNOWN', {})
  for e in entries:
    pred = known.get(e['match'])
    if pred is None:
      continue
    try:
      if pred(case, verdict):
        return e
    except Exception:  # pylint: disable=broad-except
      continue
  return None
