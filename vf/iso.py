"""Fork-per-case isolation.

`run(fn, case)` forks the current (pristine) process, runs `fn(case)` in the child and returns
its verdict through a pipe.  Gin's process-global stores therefore start from the same state in
every generated case, and a store corrupted by one case cannot leak into the next.
"""
import json
import os
import select
import signal
import sys
import time
import traceback

from vf import core

CHILD_TIMEOUT_S = float(os.environ.get('VERIF_CHILD_TIMEOUT', '60'))


def verdict_of(fn, case):
  """Runs fn(case) and turns the outcome into a verdict dict (never raises)."""
  try:
    res = fn(case)
    if res is None:
      res = core.ok()
    return res
  except core.Violation as v:
    return {'status': 'violation', 'kind': v.kind, 'detail': v.detail[:4000]}
  except core.OutOfDomain as o:
    return {'status': 'ood', 'reason': str(o)[:300]}
  except (MemoryError, BlockingIOError) as e:  # resource trouble in the sandbox, not a verdict
    return {'status': 'inconclusive', 'reason': f'resource: {type(e).__name__}: {e}'}
  except BaseException as e:  # pylint: disable=broad-except
    tb = traceback.format_exc()
    return {'status': 'violation', 'kind': 'unexpected-exception:' + type(e).__name__,
            'detail': tb[-3500:]}


def run(fn, case, timeout=None):
  timeout = timeout or CHILD_TIMEOUT_S
  rfd, wfd = os.pipe()
  sys.stdout.flush()
  sys.stderr.flush()
  pid = os.fork()
  if pid == 0:
    code = 0
    try:
      os.close(rfd)
      # Keep generated code quiet: probes and Gin may print / log.
      devnull = os.open(os.devnull, os.O_WRONLY)
      os.dup2(devnull, 1)
      os.dup2(devnull, 2)
      verdict = verdict_of(fn, case)
      data = json.dumps(verdict, default=repr).encode('utf8', 'backslashreplace')
      with os.fdopen(wfd, 'wb') as w:
        w.write(data)
    except BaseException:  # pylint: disable=broad-except
      code = 3
    finally:
      os._exit(code)  # pylint: disable=protected-access
  os.close(wfd)
  chunks = []
  deadline = time.monotonic() + timeout
  timed_out = False
  try:
    while True:
      remaining = deadline - time.monotonic()
      if remaining <= 0:
        timed_out = True
        break
      ready, _, _ = select.select([rfd], [], [], remaining)
      if not ready:
        timed_out = True
        break
      buf = os.read(rfd, 1 << 16)
      if not buf:
        break
      chunks.append(buf)
  finally:
    os.close(rfd)
  if timed_out:
    try:
      os.kill(pid, signal.SIGKILL)
    except ProcessLookupError:
      pass
  _, status = os.waitpid(pid, 0)
  if timed_out:
    return {'status': 'inconclusive', 'reason': f'child exceeded {timeout}s'}
  data = b''.join(chunks)
  if not data:
    sig = os.WTERMSIG(status) if os.WIFSIGNALED(status) else None
    return {'status': 'violation', 'kind': 'child-died',
            'detail': f'child produced no verdict (exit status {status}, signal {sig})'}
  return json.loads(data.decode('utf8'))
