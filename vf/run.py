"""Runner: ./check <ID> quick|thorough   |   ./check <ID> --replay <file>

Per run: (1) committed replays, (2) bounded sweeps, (3) sharded Hypothesis search,
(4) extra campaigns (coverage-guided fuzzing).  Writes evidence/<ID>.json, prints
KNOWN-FINDING / VIOLATION lines, exits 0 / 1 (2 = harness error, never a violation).
"""
import collections
import glob
import hashlib
import importlib
import json
import multiprocessing
import os
import sys
import time
import traceback

HERE = os.path.dirname(os.path.dirname(os.path.abspath(__file__)))

from vf import core, findings, iso  # pylint: disable=g-import-not-at-top


def load(prop_id):
  return importlib.import_module('vf.props.' + prop_id.lower())


def execute(mod, case):
  flag = getattr(mod, 'ISOLATE', True)
  if callable(flag):
    flag = flag(case)
  if flag:
    return iso.run(mod.check_case, case)
  return iso.verdict_of(mod.check_case, case)


class Stats:
  """Counts what a run actually generated."""

  def __init__(self):
    self.evaluations = 0
    self.ood = 0
    self.inconclusive = 0
    self.labels = collections.Counter()
    self.nontrivial = set()
    self.known = collections.Counter()
    self.samples = []        # (size, canon) of non-trivial cases: smallest, largest, first
    self.trivial_sample = None
    self.inconclusive_reasons = collections.Counter()

  def record(self, case, verdict):
    st = verdict['status']
    if st == 'ood':
      self.ood += 1
      return
    if st == 'inconclusive':
      self.inconclusive += 1
      self.inconclusive_reasons[verdict.get('reason', '')[:80]] += 1
      return
    self.evaluations += 1
    if st != 'ok':
      return
    for l in verdict.get('labels', ()):
      self.labels[l] += 1
    c = core.canon(case)
    if verdict.get('nontrivial'):
      h = hashlib.sha1(c.encode('utf8', 'surrogatepass')).digest()[:10]
      if h not in self.nontrivial:
        self.nontrivial.add(h)
        self._sample(c)
    elif self.trivial_sample is None:
      self.trivial_sample = c

  def _sample(self, c):
    item = (len(c), c)
    s = self.samples
    if len(s) < 2:
      s.append(item)           # the first two non-trivial cases seen
    elif len(s) < 4:
      s.append(item)           # slots 2/3: smallest and largest so far
    else:
      if item < min(s[2], s[3]):
        s[2 if s[2] <= s[3] else 3] = item
      elif item > max(s[2], s[3]) and len(c) < 6000:
        s[2 if s[2] >= s[3] else 3] = item

  def dump(self):
    return {'evaluations': self.evaluations, 'ood': self.ood, 'inconclusive': self.inconclusive,
            'labels': dict(self.labels), 'nontrivial': list(self.nontrivial),
            'known': dict(self.known), 'samples': self.samples,
            'trivial_sample': self.trivial_sample,
            'inconclusive_reasons': dict(self.inconclusive_reasons)}

  def merge(self, d):
    self.evaluations += d['evaluations']
    self.ood += d['ood']
    self.inconclusive += d['inconclusive']
    self.labels.update(d['labels'])
    self.nontrivial.update(d['nontrivial'])
    self.known.update(d['known'])
    self.inconclusive_reasons.update(d['inconclusive_reasons'])
    for item in d['samples']:
      item = tuple(item)
      if len(self.samples) < 6 and item not in self.samples:
        self.samples.append(item)
    if self.trivial_sample is None:
      self.trivial_sample = d['trivial_sample']


def derive_seed(seed, prop_id, k):
  h = hashlib.sha256(f'{seed}:{prop_id}:{k}'.encode()).hexdigest()
  return int(h[:12], 16)


def _shard(args):
  """One Hypothesis run (own process).  Returns (stats, best_failure, harness_error)."""
  prop_id, k, n_examples, seed, shrink_budget = args
  try:
    import hypothesis  # pylint: disable=g-import-not-at-top
    from hypothesis import HealthCheck, Phase, Verbosity, given, settings  # pylint: disable=g-import-not-at-top
    mod = load(prop_id)
    entries = findings.load(prop_id)
    st = Stats()
    state = {'t_fail': None, 'best': None}

    @hypothesis.seed(derive_seed(seed, prop_id, k))
    @settings(max_examples=n_examples, database=None, deadline=None, derandomize=False,
              report_multiple_bugs=False, suppress_health_check=list(HealthCheck),
              verbosity=Verbosity.quiet, print_blob=False,
              phases=[Phase.generate, Phase.shrink])
    @given(mod.strategy())
    def test(case):
      if state['t_fail'] is not None and time.monotonic() - state['t_fail'] > shrink_budget:
        return  # shrink budget used up: the best failure so far is kept
      # a module may expand one generated case into an enumeration of sub-cases (fault
      # enumeration: one config -> every injection point); each sub-case is evaluated, counted
      # and, on failure, saved as a stand-alone replayable case
      subs = mod.expand(case) if hasattr(mod, 'expand') else [case]
      for sub in subs:
        verdict = execute(mod, sub)
        st.record(sub, verdict)
        if verdict['status'] == 'violation':
          e = findings.match(mod, entries, sub, verdict)
          if e is not None:
            st.known[e['id']] += 1
            continue
          if state['t_fail'] is None:
            state['t_fail'] = time.monotonic()
          state['best'] = (sub, verdict)
          raise AssertionError(verdict['kind'])

    try:
      test()
    except BaseException:  # pylint: disable=broad-except
      if state['best'] is None:
        return st.dump(), None, traceback.format_exc()
    return st.dump(), state['best'], None
  except BaseException:  # pylint: disable=broad-except
    return Stats().dump(), None, traceback.format_exc()


def _sweep_chunk(args):
  prop_id, name, cases = args
  mod = load(prop_id)
  entries = findings.load(prop_id)
  st = Stats()
  fails = []
  for case in cases:
    verdict = execute(mod, case)
    st.record(case, verdict)
    if verdict['status'] == 'violation':
      e = findings.match(mod, entries, case, verdict)
      if e is not None:
        st.known[e['id']] += 1
      elif len(fails) < 3:
        fails.append((case, verdict))
  return name, st.dump(), fails


def write_replay(prop_id, case, verdict):
  d = os.path.join(HERE, 'out', prop_id)
  os.makedirs(d, exist_ok=True)
  path = os.path.join(d, core.case_hash(case)[:16] + '.json')
  with open(path, 'w') as f:
    json.dump({'property': prop_id, 'case': case, 'verdict': verdict, 'expect': 'ok'}, f,
              indent=1, default=repr)
  return os.path.relpath(path, HERE)


def run_replay(prop_id, path):
  mod = load(prop_id)
  with open(path) as f:
    data = json.load(f)
  verdict = execute(mod, data['case'])
  print(json.dumps(verdict, indent=1)[:6000])
  if verdict['status'] == 'violation':
    e = findings.match(mod, findings.load(prop_id), data['case'], verdict)
    if e is not None:
      print(f"KNOWN-FINDING: property={prop_id} {e['what']}")
      return 0
    print(f'VIOLATION property={prop_id} replay={path}')
    return 1
  return 0


def main(argv):
  if len(argv) < 2:
    print(__doc__)
    return 2
  prop_id = argv[0].upper()
  if argv[1] == '--replay':
    return run_replay(prop_id, argv[2])
  tier = argv[1]
  if tier not in ('quick', 'thorough'):
    print('tier must be quick or thorough')
    return 2
  seed = int(os.environ.get('VERIF_SEED', '1') or '1')
  t0 = time.monotonic()
  mod = load(prop_id)
  entries = findings.load(prop_id)
  total = Stats()
  failures = []          # (case, verdict, origin)
  harness_errors = []
  known_lines = {}
  sub = {}

  # 1. committed replays -----------------------------------------------------------------
  n_replays = 0
  for path in sorted(glob.glob(os.path.join(HERE, 'replays', prop_id, '*.json'))):
    with open(path) as f:
      data = json.load(f)
    verdict = execute(mod, data['case'])
    n_replays += 1
    expect = data.get('expect', 'ok')
    rel = os.path.relpath(path, HERE)
    if expect.startswith('known:'):
      e = next((x for x in entries if x['id'] == expect[6:]), None)
      if verdict['status'] == 'violation':
        if e is not None and findings.match(mod, [e], data['case'], verdict) is not None:
          known_lines[e['id']] = e['what']
        else:
          failures.append((data['case'], verdict, rel))
      elif verdict['status'] == 'ok':
        print(f'NOTE: known finding {expect[6:]} no longer reproduces from {rel}', file=sys.stderr)
    else:
      total.record(data['case'], verdict)
      if verdict['status'] == 'violation':
        e = findings.match(mod, entries, data['case'], verdict)
        if e is not None:
          known_lines[e['id']] = e['what']
        else:
          failures.append((data['case'], verdict, rel))
  sub['replays'] = n_replays

  ctx = multiprocessing.get_context('fork')
  nproc = int(os.environ.get('VERIF_PROCS', '16'))

  # 2. bounded sweeps ---------------------------------------------------------------------
  sweeps = getattr(mod, 'SWEEPS', {})
  sweep_info = {}
  if sweeps and not failures:
    jobs = []
    for name, fn in sweeps.items():
      cases, exhaustive = fn(tier)
      cases = list(cases)
      sweep_info[name] = {'cases': len(cases), 'exhaustive': bool(exhaustive)}
      step = max(1, min(400, len(cases) // (nproc * 4) + 1))
      for i in range(0, len(cases), step):
        jobs.append((prop_id, name, cases[i:i + step]))
    with ctx.Pool(min(nproc, max(1, len(jobs)))) as pool:
      for name, d, fails in pool.imap_unordered(_sweep_chunk, jobs):
        total.merge(d)
        for case, verdict in fails:
          failures.append((case, verdict, 'sweep:' + name))
  sub['sweeps'] = sweep_info

  # 3. sharded Hypothesis search ----------------------------------------------------------
  shards, examples = mod.BUDGET[tier]
  if os.environ.get('VERIF_EXAMPLES'):
    examples = int(os.environ['VERIF_EXAMPLES'])
  shrink_budget = 25.0 if tier == 'quick' else 150.0
  if shards and not failures:
    jobs = [(prop_id, k, examples, seed, shrink_budget) for k in range(shards)]
    with ctx.Pool(min(nproc, shards)) as pool:
      for d, best, err in pool.imap_unordered(_shard, jobs):
        total.merge(d)
        if best is not None:
          failures.append((best[0], best[1], 'hypothesis'))
        if err is not None:
          harness_errors.append(err)
  sub['hypothesis'] = {'shards': shards, 'max_examples_per_shard': examples}

  # 4. extra campaigns (fuzzing) ----------------------------------------------------------
  extra_info = []
  for fn in getattr(mod, 'EXTRA', []):
    if failures:
      break
    try:
      info = fn(tier, seed)
    except Exception:  # pylint: disable=broad-except
      harness_errors.append(traceback.format_exc())
      continue
    for case, verdict in info.pop('failures', []):
      e = findings.match(mod, entries, case, verdict)
      if e is not None:
        total.known[e['id']] += 1
      else:
        failures.append((case, verdict, 'extra:' + info.get('name', '?')))
    extra_info.append(info)
  sub['extra'] = extra_info

  # ---- report ---------------------------------------------------------------------------
  for e in entries:
    if total.known.get(e['id']):
      known_lines[e['id']] = e['what']
  for kid, what in sorted(known_lines.items()):
    print(f'KNOWN-FINDING: property={prop_id} {what}')

  wall = time.monotonic() - t0
  samples = []
  for _, c in sorted(set(total.samples))[:6]:
    samples.append(json.loads(c) if len(c) <= 4000 else c[:4000] + '…')
  if total.trivial_sample and len(samples) < 7:
    c = total.trivial_sample
    samples.append(json.loads(c) if len(c) <= 4000 else c[:4000] + '…')
  floors = getattr(mod, 'FLOORS', {})
  health = 'ok'
  missed = {}
  for label, frac in floors.items():
    denom = total.evaluations
    if isinstance(frac, (tuple, list)):
      frac, denom_label = frac
      denom = total.labels.get(denom_label, 0)
    got = total.labels.get(label, 0) / max(1, denom)
    if got < frac:
      missed[label] = round(got, 4)
  if missed or len(total.nontrivial) < 2:
    health = 'degraded'
    print(f'HARNESS-WARNING: generator health degraded for {prop_id}: {missed} '
          f'nontrivial={len(total.nontrivial)}', file=sys.stderr)
  evidence = {
      'property_id': prop_id,
      'tier': tier,
      'seed': seed,
      'level': mod.LEVEL,
      'coverage': {
          'evaluations': total.evaluations,
          'distinct_nontrivial': len(total.nontrivial),
          'rule': mod.RULE,
          'samples': samples or ['(no case generated)'],
          'labels': dict(sorted(total.labels.items())),
          'generator_health': health,
          'floors_missed': missed,
          'out_of_domain': total.ood,
          'inconclusive': total.inconclusive,
          'inconclusive_reasons': dict(total.inconclusive_reasons),
          'known_finding_hits': dict(total.known),
          'phases': sub,
          'fuzz_executions': sum(c.get('executions', 0) for info in extra_info
                                 for c in info.get('campaigns', [])),
          'exhaustive': False,
          'gin_under_test': os.environ.get('VERIF_REPO', '/repo'),
      },
      'assumptions': list(getattr(mod, 'ASSUMPTIONS', [])),
      'wall_s': round(wall, 2),
      'violations': len(failures),
  }
  # evidence/ only ever describes runs against /repo itself; runs against another tree
  # (VERIF_REPO=<scratch copy with a mutant or a proposed fix>) are kept apart
  ev_dir = 'evidence'
  if os.path.realpath(os.environ.get('VERIF_REPO', '/repo')) != '/repo':
    ev_dir = os.path.join('out', 'evidence-other-tree')
  os.makedirs(os.path.join(HERE, ev_dir), exist_ok=True)
  with open(os.path.join(HERE, ev_dir, prop_id + '.json'), 'w') as f:
    json.dump(evidence, f, indent=1, default=repr)
    f.write('\n')

  if failures:
    failures.sort(key=lambda f: len(core.canon(f[0])))
    case, verdict, origin = failures[0]
    path = origin if origin.startswith('replays/') else write_replay(prop_id, case, verdict)
    print(f"violation kind={verdict.get('kind')} found-by={origin}", file=sys.stderr)
    print('detail: ' + str(verdict.get('detail'))[:3000], file=sys.stderr)
    print('case: ' + core.canon(case)[:3000], file=sys.stderr)
    print(f'VIOLATION property={prop_id} replay={path}')
    return 1
  if harness_errors:
    print('HARNESS-ERROR:\n' + harness_errors[0][-4000:], file=sys.stderr)
    return 2
  print(f'OK property={prop_id} tier={tier} seed={seed} evaluations={total.evaluations} '
        f'distinct_nontrivial={len(total.nontrivial)} ood={total.ood} '
        f'inconclusive={total.inconclusive} wall={wall:.1f}s')
  return 0


if __name__ == '__main__':
  try:
    code = main(sys.argv[1:])
  except Exception:  # pylint: disable=broad-except
    traceback.print_exc()
    code = 2
  sys.stdout.flush()
  sys.exit(code)
