"""Deterministic cooperative thread scheduler (harness-owned schedules).

Worker threads run their programs under sys.settrace.  On every `line` event in a frame whose
source file is under the Gin tree under test (plus any extra traced files), the running thread
parks and the controller picks the next thread to run from a list of small ints (the schedule).
Exactly one thread runs at any time, so a run is a pure function of (programs, schedule) and a
failing schedule replays.  Module-level threading locks found in gin.config are replaced by
cooperative locks that park in the scheduler instead of blocking the OS thread; "nobody runnable
but somebody blocked" is reported as a deadlock.  Every interleaving produced is one CPython's
GIL can really produce (it switches at a finer grain), so a failure is never an artefact.
"""
import os
import sys
import threading

_LOCK_TYPES = (type(threading.Lock()), type(threading.RLock()))


class Deadlock(Exception):
  pass


class Stuck(Exception):
  """A thread blocked outside the scheduler's control (inconclusive, not a verdict)."""


class CoopLock:
  """Drop-in for threading.Lock / RLock that blocks cooperatively."""

  def __init__(self, sched, reentrant, name):
    self.sched = sched
    self.reentrant = reentrant
    self.name = name
    self.owner = None
    self.depth = 0

  def acquire(self, blocking=True, timeout=-1):
    me = self.sched.current_index()
    if me is None:               # not a scheduled thread (controller / main): uncontended use
      if self.owner is None or (self.reentrant and self.owner == 'main'):
        self.owner = 'main'
        self.depth += 1
        return True
      raise Stuck(f'controller would block on {self.name}')
    while True:
      if self.owner is None:
        self.owner, self.depth = me, 1
        return True
      if self.reentrant and self.owner == me:
        self.depth += 1
        return True
      if not blocking:
        return False
      if timeout is not None and timeout >= 0:
        # a bounded wait. Whoever holds the lock may run user code of any duration under it, so
        # the wait may expire while the lock is still held: the other threads get one chance to
        # run, and if the lock is still taken then, the wait has timed out.
        self.sched.yield_now()
        if self.owner is None:
          continue
        if self.reentrant and self.owner == me:
          continue
        return False
      self.sched.block_on(me, self)

  def release(self):
    self.depth -= 1
    if self.depth <= 0:
      self.owner, self.depth = None, 0
      self.sched.lock_released(self)

  def locked(self):
    return self.owner is not None

  __enter__ = acquire

  def __exit__(self, *exc):
    self.release()


class Scheduler:

  def __init__(self, choices, trace_dirs, watch=(), max_steps=20000, step_timeout=20.0):
    self.choices = list(choices)
    self.trace_dirs = tuple(os.path.realpath(d) + os.sep for d in trace_dirs)
    self.watch = set(watch)
    self.max_steps = max_steps
    self.step_timeout = step_timeout
    self.steps = 0
    self.switches = 0
    self.trace = []            # (thread index, function name, line) per scheduling step
    self.watch_hits = set()    # watch-function names that were on a parked thread's stack at a switch
    self._cache = {}
    self._idx = {}

  # ------------------------------------------------------------------ worker side
  def current_index(self):
    return self._idx.get(threading.get_ident())

  def _traced(self, filename):
    r = self._cache.get(filename)
    if r is None:
      r = os.path.realpath(filename).startswith(self.trace_dirs)
      self._cache[filename] = r
    return r

  def _global_trace(self, frame, event, arg):
    if self._traced(frame.f_code.co_filename):
      return self._local_trace
    return None

  def _local_trace(self, frame, event, arg):
    if event == 'line' and not self._free_run:
      i = self._idx[threading.get_ident()]
      self._where[i] = frame
      self._park(i)
    return self._local_trace

  def _park(self, i):
    self._ctl.release()
    self._go[i].acquire()

  def yield_now(self):
    """Explicit yield point for harness-level program steps."""
    i = self.current_index()
    if i is not None and not self._free_run:
      self._where[i] = None
      self._park(i)

  def block_on(self, i, lock):
    self._blocked[i] = lock
    self._park(i)

  def wait_until(self, pred):
    """Cooperative condition wait for user code running under the scheduler (e.g. a constructor
    that waits for work done by another thread): the thread is not runnable until pred() holds."""
    i = self.current_index()
    if i is None:
      if not pred():
        raise Stuck('controller would wait for a condition')
      return
    while not pred():
      self._waiting[i] = pred
      self._park(i)
    self._waiting.pop(i, None)

  def lock_released(self, lock):
    for i, l in list(self._blocked.items()):
      if l is lock:
        del self._blocked[i]

  def _worker(self, i, program):
    self._idx[threading.get_ident()] = i
    self._go[i].acquire()
    sys.settrace(self._global_trace)
    try:
      self.results[i] = program()
    except BaseException as e:  # pylint: disable=broad-except
      self.errors[i] = e
    finally:
      sys.settrace(None)
      self._done.add(i)
      self._ctl.release()

  # ------------------------------------------------------------------ controller side
  def run(self, programs):
    n = len(programs)
    self._go = [threading.Semaphore(0) for _ in range(n)]
    self._ctl = threading.Semaphore(0)
    self._done = set()
    self._blocked = {}
    self._waiting = {}
    self._where = [None] * n
    self._free_run = False
    self.results = [None] * n
    self.errors = [None] * n
    threads = [threading.Thread(target=self._worker, args=(i, p), daemon=True)
               for i, p in enumerate(programs)]
    for t in threads:
      t.start()
    current = None
    pos = 0
    while len(self._done) < n:
      runnable = [i for i in range(n) if i not in self._done and i not in self._blocked and
                  not (i in self._waiting and not self._waiting[i]())]
      if not runnable:
        raise Deadlock('threads %s blocked on %s; threads %s waiting for a condition' % (
            sorted(self._blocked), sorted({l.name for l in self._blocked.values()}),
            sorted(i for i in self._waiting if i not in self._done)))
      if pos < len(self.choices) and self.steps < self.max_steps:
        pick = runnable[self.choices[pos] % len(runnable)]
        pos += 1
      else:
        # schedule exhausted: let the current thread run on, then the others in order
        self._free_run = True
        pick = current if current in runnable else runnable[0]
      if current is not None and pick != current and current not in self._done:
        self.switches += 1
        f = self._where[current]
        while f is not None:
          if f.f_code.co_name in self.watch:
            self.watch_hits.add(f.f_code.co_name)
          f = f.f_back
      current = pick
      self.steps += 1
      self._go[pick].release()
      if not self._ctl.acquire(timeout=self.step_timeout):
        raise Stuck(f'thread {pick} did not come back within {self.step_timeout}s')
      f = self._where[pick]
      if len(self.trace) < 4000 and f is not None and pick not in self._done:
        self.trace.append((pick, f.f_code.co_name, f.f_lineno))
    for t in threads:
      t.join(timeout=5)
    return self.results, self.errors


class _ThreadingShim:
  """Stands in for the `threading` module inside the module under test: locks created at run time
  (per-key locks and the like) are cooperative too; everything else is the real thing."""

  def __init__(self, sched):
    self._sched = sched
    self._n = 0

  def _make(self, reentrant):
    self._n += 1
    return CoopLock(self._sched, reentrant, f'dynamic-lock-{self._n}')

  def Lock(self):  # pylint: disable=invalid-name
    return self._make(False)

  def RLock(self):  # pylint: disable=invalid-name
    return self._make(True)

  def __getattr__(self, name):
    return getattr(threading, name)


def install_coop_locks(module, sched):
  """Replaces module-level threading locks of `module` by cooperative ones. Returns their names."""
  if getattr(module, 'threading', None) is threading or isinstance(
      getattr(module, 'threading', None), _ThreadingShim):
    module.threading = _ThreadingShim(sched)
  names, by_identity = [], {}
  for name, value in sorted(vars(module).items()):
    if isinstance(value, _LOCK_TYPES):
      reentrant = isinstance(value, type(threading.RLock()))
      # one lock object known under several names stays one lock
      if id(value) not in by_identity:
        by_identity[id(value)] = CoopLock(sched, reentrant, name)
      setattr(module, name, by_identity[id(value)])
      names.append(name)
  return names


def expand_schedule(spec, n_threads=4):
  """Schedule spec -> list of thread picks.

  {'t': [explicit picks], 's': PRNG seed, 'n': number of generated picks, 'burst': bool}.
  With 'burst', the generated part is made of runs: one thread is picked and kept for a run whose
  length is drawn from {1, 2, 5, 20, 100, 400} -- pre-emption in the middle of a short window
  followed by a long stretch of another thread (a complete call) is what exposes check-then-act
  races; uniformly random picks almost never produce such stretches."""
  import random  # pylint: disable=g-import-not-at-top
  rng = random.Random(spec.get('s') or 1)
  picks = list(spec.get('t', []))
  n = spec.get('n', 0)
  if not spec.get('burst'):
    return picks + [rng.randrange(n_threads) for _ in range(n)]
  out = []
  while len(out) < n:
    t = rng.randrange(n_threads)
    out += [t] * rng.choice([1, 1, 2, 5, 20, 100, 400])
  return picks + out[:max(n, 0)]
