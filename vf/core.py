"""Core vocabulary shared by every property module.

A property module (vf/props/cNN.py) exposes

  ID            'C08'
  LEVEL         'exploration' | 'fault_enumeration'
  RULE          text: how cases are generated and what makes one non-trivial
  ASSUMPTIONS   list of strings
  ISOLATE       True  -> every case runs in a forked child of the pristine parent
  BUDGET        {'quick': (shards, examples_per_shard), 'thorough': (...)}
  strategy()    Hypothesis strategy producing a JSON-serialisable *case*
  check_case(c) runs the case against Gin, returns ok(...) or raises Violation / OutOfDomain
  SWEEPS        optional {name: fn(tier) -> (iterable_of_cases, exhaustive: bool)}
  KNOWN         optional {match_name: predicate(case, verdict) -> bool}   (see findings.py)
  EXTRA         optional [fn(tier, seed) -> dict]  additional campaigns (fuzzing)

Cases are plain data so that the shrunk failing case *is* the replay file.
"""
import hashlib
import json


class Violation(Exception):
  """The property does not hold on this case."""

  def __init__(self, kind, detail=''):
    super().__init__(f'{kind}: {detail}')
    self.kind = kind
    self.detail = str(detail)


class OutOfDomain(Exception):
  """The case is outside the property's domain (counted, never a violation)."""


def ok(labels=(), nontrivial=False, **info):
  return {'status': 'ok', 'labels': sorted(set(labels)), 'nontrivial': bool(nontrivial),
          'info': info}


def canon(case):
  return json.dumps(case, sort_keys=True, separators=(',', ':'), default=repr)


def case_hash(case):
  return hashlib.sha1(canon(case).encode('utf8', 'surrogatepass')).hexdigest()


def require(cond, kind, detail=''):
  if not cond:
    raise Violation(kind, detail() if callable(detail) else detail)
