"""Campaign plans (seed corpora, dictionaries, budgets) for the coverage-guided fuzz targets."""
from vf import iso
from vf.fuzz import driver

C02_SEEDS = ['1', "'a' 'b'", '[1, (2,), {"k": -3.5e2}]', "b'\\x00' B'''x'''", '@a/b()', '%M',
             '0x1F', "r'\\d' u'é'", '(1,\n 2, # c\n)', '{1: [None, True], (1, 2): 0o7}']
C02_TOKENS = ['[', ']', '(', ')', '{', '}', ',', ':', "'", '"', "'''", '-', '+', '@', '%', '/', '.',
              '\n', '#', '\\\n', 'None', 'True', 'False', '0x', '1e', 'j', "b'", "r'", 'rb"', '_',
              ' ', '()', 'inf', 'nan']
C03_SEEDS = ['fa.p = 1\n', 's/t/m1.K.q = [1, @sub.fb(), %M]\n', 'fa:\n  p = 1\n  q = (2,)\n',
             'import a.b as c\nfrom x.y import z\ninclude "f.gin"\n', 'sc/M = {"k": @a/fa}\n',
             "x.y = 'a' \\\n  'b'  # c\n"]
C03_TOKENS = ['@', '%', '/', '.', ':', '=', '\n', '\n  ', '()', '[', ']', '{', '}', ',', '#', '\\\n',
              'import ', 'from ', ' as ', 'include ', "'", '"', 'fa', 'a/b', '-', '1', 'None', '\t',
              ' ', '\x0c', '\r\n', '//', '..', 'a.b/c']


def run(target, make_case, check_case, tier, seed, seeds, tokens, quick_runs, max_len):
  """Runs the campaigns of a tier; crashes are re-judged by check_case in this process."""
  plan = ([('seeds+dict', seeds, tokens, quick_runs, None)] if tier == 'quick' else
          [('empty+dict', [], tokens, None, 60), ('seeds+dict', seeds, tokens, None, 60),
           ('seeds', seeds, [], None, 60)])
  out = {'name': 'atheris', 'campaigns': [], 'failures': []}
  for name, corpus, dictionary, runs, max_time in plan:
    info = driver.campaign(target, name, seed, corpus, dictionary, runs, max_time, max_len=max_len)
    for data in info.pop('crashes'):
      case = make_case(data.decode('utf8', 'ignore'))
      verdict = iso.verdict_of(check_case, case)
      if verdict['status'] == 'violation':
        out['failures'].append((case, verdict))
    out['campaigns'].append(info)
  return out
