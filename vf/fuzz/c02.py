"""atheris target for C02: bytes -> value text; oracle = vf.props.c02.check_nearmiss."""
import sys

import atheris

with atheris.instrument_imports(include=['gin']):
  from vf.props import c02  # pylint: disable=g-import-not-at-top

from vf.core import OutOfDomain, Violation  # pylint: disable=g-import-not-at-top


def one_input(data):
  text = data.decode('utf8', 'ignore')
  if '\x00' in text:
    return
  try:
    c02.check_nearmiss({'kind': 'nearmiss', 'text': text, 'mutation': 'fuzz'})
  except OutOfDomain:
    return
  except Violation:
    raise


if __name__ == '__main__':
  atheris.Setup(sys.argv, one_input)
  atheris.Fuzz()
