"""Runs an atheris campaign in a subprocess and turns crashes into replayable cases."""
import glob
import hashlib
import json
import os
import re
import shutil
import subprocess
import sys
import time

HERE = os.path.dirname(os.path.dirname(os.path.dirname(os.path.abspath(__file__))))


def campaign(target_module, name, seed, corpus_seeds=(), dictionary=(), runs=None, max_time=None,
             max_len=256):
  """Returns dict(name, executions, crashes=[bytes...], cov, wall, available)."""
  try:
    import atheris  # pylint: disable=g-import-not-at-top,unused-import
  except ImportError:
    return {'name': name, 'available': False, 'executions': 0, 'crashes': []}
  work = os.path.join(HERE, 'out', 'fuzz', f'{target_module.split(".")[-1]}-{name}-{seed}')
  shutil.rmtree(work, ignore_errors=True)
  corpus = os.path.join(work, 'corpus')
  os.makedirs(corpus)
  for s in corpus_seeds:
    data = s.encode('utf8') if isinstance(s, str) else s
    with open(os.path.join(corpus, hashlib.sha1(data).hexdigest()[:16]), 'wb') as f:
      f.write(data)
  args = [sys.executable, '-m', target_module, corpus, f'-seed={seed or 1}',
          f'-max_len={max_len}', f'-artifact_prefix={work}/crash-', '-print_final_stats=1',
          '-rss_limit_mb=4096']
  if dictionary:
    dpath = os.path.join(work, 'dict.txt')
    with open(dpath, 'w') as f:
      for tok in dictionary:
        f.write('"' + ''.join('\\x%02x' % b for b in tok.encode('utf8')) + '"\n')
    args.append(f'-dict={dpath}')
  if runs:
    args.append(f'-runs={runs}')
  if max_time:
    args.append(f'-max_total_time={max_time}')
  t0 = time.time()
  try:
    r = subprocess.run(args, capture_output=True, cwd=HERE, timeout=(max_time or 120) + 300,
                       env=dict(os.environ))
    out = (r.stdout + r.stderr).decode('utf8', 'replace')
  except subprocess.TimeoutExpired as e:
    out = ((e.stdout or b'') + (e.stderr or b'')).decode('utf8', 'replace')
  m = re.search(r'stat::number_of_executed_units:\s*(\d+)', out)
  execs = int(m.group(1)) if m else 0
  if not execs:
    ms = re.findall(r'#(\d+)\s', out)
    execs = int(ms[-1]) if ms else 0
  cov = re.findall(r'cov: (\d+)', out)
  crashes = []
  for p in sorted(glob.glob(os.path.join(work, 'crash-*'))):
    with open(p, 'rb') as f:
      crashes.append(f.read())
  info = {'name': name, 'available': True, 'executions': execs, 'cov': int(cov[-1]) if cov else 0,
          'wall': round(time.time() - t0, 1), 'crashes': crashes,
          'tail': out[-600:] if crashes or not execs else ''}
  shutil.rmtree(corpus, ignore_errors=True)
  return info
