"""atheris target for C03: bytes -> config text; oracle = vf.props.c03.check_fuzz."""
import sys

import atheris

with atheris.instrument_imports(include=['gin']):
  from vf.props import c03  # pylint: disable=g-import-not-at-top

from vf.core import OutOfDomain  # pylint: disable=g-import-not-at-top


def one_input(data):
  text = data.decode('utf8', 'ignore')
  try:
    c03.check_fuzz({'kind': 'fuzz', 'text': text})
  except OutOfDomain:
    return


if __name__ == '__main__':
  atheris.Setup(sys.argv, one_input)
  atheris.Fuzz()
