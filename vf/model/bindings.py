"""Reference model of scope-layered parameter injection, written from the documentation.

bindings: dict {(scope_str, param): value}.   active: list of scope components.
"""
import inspect


def overlay(bindings, active):
  """Bindings applicable under `active`: root first, then each longer prefix overrides."""
  res = {}
  for i in range(len(active) + 1):
    prefix = '/'.join(active[:i])
    for (scope, param), value in bindings.items():
      if scope == prefix:
        res[param] = value
  return res


def exact(bindings, scope_str):
  return {p: v for (s, p), v in bindings.items() if s == scope_str}


def positional_names(sig, n_args):
  names = [p.name for p in sig.parameters.values()
           if p.kind in (p.POSITIONAL_ONLY, p.POSITIONAL_OR_KEYWORD)]
  return names[:n_args]


def expected_call(sig, args, kwargs, applicable, supplied=None):
  """What the function body must see, or TypeError if Python itself cannot bind the call.

  Returns ('ok', {'named': {...}, 'args': [...], 'kw': {...}}) or ('TypeError', message).
  `supplied`: names of the parameters the positional arguments are known to fill (default: read
  off `sig`; a (*args, **kwargs) wrapper around the function hides them from Gin -> pass []).
  """
  supplied = set(positional_names(sig, len(args)) if supplied is None else supplied)
  merged = {p: v for p, v in applicable.items() if p not in supplied}
  merged.update(kwargs)
  try:
    bound = sig.bind(*args, **merged)
  except TypeError as e:
    return 'TypeError', str(e)
  bound.apply_defaults()
  named, var_args, var_kw = {}, [], {}
  for name, param in sig.parameters.items():
    if param.kind == param.VAR_POSITIONAL:
      var_args = list(bound.arguments.get(name, ()))
    elif param.kind == param.VAR_KEYWORD:
      var_kw = dict(bound.arguments.get(name, {}))
    else:
      named[name] = bound.arguments[name]
  return 'ok', {'named': named, 'args': var_args, 'kw': var_kw}


class ScopeStack:
  """config_scope semantics: str appends components, list replaces, None / '' clears."""

  def __init__(self):
    self.stack = [[]]

  @property
  def current(self):
    return list(self.stack[-1])

  def enter(self, entry):
    if isinstance(entry, list):
      new = list(entry)
    elif entry in (None, ''):
      new = []
    else:
      new = self.current + entry.split('/')
    self.stack.append(new)
    return new

  def exit(self):
    self.stack.pop()
