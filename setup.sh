#!/bin/bash
# MANIFEST.setup_cmd: offline, idempotent. Installs the fuzzing/PBT dependencies that are not
# already importable by /venv/bin/python into /verif/.deps from the offline wheelhouse.
set -u
cd "$(dirname "$0")"
PY=/venv/bin/python
WH=/opt/veriftools/wheels
mkdir -p .deps out evidence
need=""
PYTHONPATH=/verif/.deps $PY -c "import hypothesis" 2>/dev/null || need="$need hypothesis"
PYTHONPATH=/verif/.deps $PY -c "import atheris" 2>/dev/null || need="$need atheris"
if [ -n "$need" ]; then
  PIP_NO_INDEX=1 $PY -m pip install --quiet --no-index --find-links "$WH" --target .deps $need \
    || echo "setup: WARNING could not install:$need (fuzz campaigns will be skipped)" >&2
fi
PYTHONPATH=/verif/.deps $PY -c "import hypothesis; print('setup: hypothesis', hypothesis.__version__)" || exit 1
PYTHONPATH=/verif/.deps $PY -c "import atheris; print('setup: atheris ok')" 2>/dev/null || echo "setup: atheris unavailable"
exit 0
